//! R-LAYOUT + R-SCOPE + R-ASM: the reference assembler for size-static programs.
//!
//! One pass fixes every address (instruction sizes come from the rule table, which the
//! generator keeps value-independent), a second evaluates every constant, argument and
//! production with the final symbol values.

use super::expr::*;
use super::isa::*;
use super::program::*;
use num_bigint::BigInt;
use num_traits::{Signed, ToPrimitive, Zero};
use std::collections::HashMap;

#[derive(Clone, Debug)]
pub struct RefSpan {
    pub item: usize,
    pub elem: usize,
    pub offset: Option<usize>,
    pub size: usize,
    pub addr: BigInt,
}

#[derive(Clone, Debug)]
pub struct RefOk {
    pub bits: Vec<bool>,
    pub symbols: Vec<(String, BigInt)>,
    pub all_symbols: HashMap<String, V>,
    pub spans: Vec<RefSpan>,
    /// for every instruction item: the (block, rule) that was chosen
    pub chosen: HashMap<usize, (usize, usize)>,
    /// number of syntactic survivors per instruction item
    pub survivors: HashMap<usize, usize>,
}

#[derive(Clone, Debug)]
pub enum RefResult {
    Ok(RefOk),
    /// the language rules reject the program: (item index, class, detail)
    Reject { item: usize, class: &'static str, detail: String },
    /// the program is outside the domain the model is written for (generator must not produce it)
    Invalid(String),
}

#[derive(Clone, Debug)]
pub struct Bank {
    pub name: String,
    pub unit: usize,
    pub addr: BigInt,
    pub size_bits: Option<usize>,
    pub outp: Option<usize>,
    pub fill: bool,
    pub labelalign: Option<usize>,
    pub cursor: usize,
}

impl Bank {
    pub fn default_bank() -> Bank {
        Bank { name: String::new(), unit: 8, addr: BigInt::zero(), size_bits: None, outp: Some(0), fill: false, labelalign: None, cursor: 0 }
    }
    pub fn from_def(b: &BankDef) -> Bank {
        let unit = b.bits.unwrap_or(8);
        Bank {
            name: b.name.clone(),
            unit,
            addr: BigInt::from(b.addr.unwrap_or(0)),
            size_bits: b.size.map(|s| s * unit),
            outp: b.outp,
            fill: b.fill,
            labelalign: b.labelalign,
            cursor: 0,
        }
    }
}

/// size of an expression when it does not depend on symbol values (the forms a size-static
/// program may use where a size is needed before values are known)
pub fn static_size(e: &E, locals: &HashMap<String, Option<usize>>) -> Option<usize> {
    let lit_usize = |e: &E| -> Option<usize> {
        match e {
            E::Lit { v, .. } => v.to_usize(),
            _ => None,
        }
    };
    match e {
        E::Lit { size, .. } => *size,
        E::Str { chars, .. } => Some(chars.len() * 8),
        E::Var(n) => locals.get(n).cloned().flatten(),
        E::Bin(BinOp::Concat, a, b) => Some(static_size(a, locals)? + static_size(b, locals)?),
        E::SliceShort(_, n) => lit_usize(n),
        E::Slice(_, hi, lo) => {
            let hi = lit_usize(hi)?;
            let lo = lit_usize(lo)?;
            if hi + 1 >= lo {
                Some(hi + 1 - lo)
            } else {
                None
            }
        }
        E::Tern(_, a, b) => {
            let x = static_size(a, locals)?;
            let y = static_size(b, locals)?;
            if x == y {
                Some(x)
            } else {
                None
            }
        }
        E::Block(es) => static_size(es.last()?, locals),
        E::Call(n, args) if n == "le" && args.len() == 1 => static_size(&args[0], locals),
        E::Call(n, args) if args.len() == 1 => {
            let enc = Enc::from_name(n)?;
            match &args[0] {
                E::Str { chars, .. } => encode(chars, enc).ok().map(|b| b.len() * 8),
                _ => None,
            }
        }
        _ => None,
    }
}

/// split ".a.b" into (leading dots, ["a","b"])
pub fn split_name(n: &str) -> (usize, Vec<String>) {
    let k = n.chars().take_while(|c| *c == '.').count();
    (k, n[k..].split('.').map(|s| s.to_string()).collect())
}

pub fn resolve_path(ctx: &[String], name: &str) -> Option<String> {
    let (k, parts) = split_name(name);
    if k > ctx.len() {
        return None;
    }
    let mut p: Vec<String> = ctx[..k].to_vec();
    p.extend(parts);
    Some(p.join("."))
}

#[derive(Clone, Debug, PartialEq)]
pub enum Sym {
    Label,
    Const,
}

pub struct Layout {
    pub banks: Vec<Bank>,
    /// per item: (bank index, cursor before the item, size in bits), ctx path at the item
    pub place: Vec<(usize, usize, usize)>,
    pub ctx: Vec<Vec<String>>,
    /// declared symbols in order: (path, kind, item, noemit)
    pub decls: Vec<(String, Sym, usize, bool)>,
    pub values: HashMap<String, V>,
    /// per data item: per element sizes
    pub data_sizes: HashMap<usize, Vec<usize>>,
}

pub fn in_range_typed(ty: PType, v: &BigInt) -> bool {
    match ty {
        PType::Untyped | PType::Sub(_) => true,
        PType::U(n) => !v.is_negative() && *v < pow2(n),
        PType::S(n) => {
            if n == 0 {
                v.is_zero()
            } else {
                *v >= -pow2(n - 1) && *v < pow2(n - 1)
            }
        }
        PType::I(n) => {
            if n == 0 {
                v.is_zero()
            } else {
                *v >= -pow2(n - 1) && *v < pow2(n)
            }
        }
    }
}

enum Cand {
    Enc(BigInt, usize),
    Discard(String),
    Hard(&'static str, String),
}

struct Ctx<'a> {
    prog: &'a Program,
    values: &'a HashMap<String, V>,
    declared: &'a HashMap<String, Sym>,
}

impl<'a> Ctx<'a> {
    fn lookup(&self, ctx: &[String], addr: &Result<BigInt, EvalErr>, name: &str) -> Result<V, EvalErr> {
        if name == "$" || name == "pc" {
            return addr.clone().map(int);
        }
        match resolve_path(ctx, name) {
            Some(p) => match self.values.get(&p) {
                Some(v) => Ok(v.clone()),
                None => {
                    if self.declared.contains_key(&p) {
                        Err(EvalErr::Other("symbol declared but unresolved"))
                    } else {
                        Err(EvalErr::UnknownVar(name.to_string()))
                    }
                }
            },
            None => Err(EvalErr::UnknownVar(name.to_string())),
        }
    }

    /// value of a binding; Err(Cand) on discard / hard error
    fn eval_binding(&self, b: &ArgBinding, ctx: &[String], addr: &Result<BigInt, EvalErr>) -> Result<(String, V), Cand> {
        let empty = HashMap::new();
        let lk = |n: &str| self.lookup(ctx, addr, n);
        match b {
            ArgBinding::Expr { param, ty, e } => {
                let env = Env { vars: &empty, lookup: Some(&lk) };
                let v = match eval(e, &env) {
                    Ok(v) => v,
                    Err(EvalErr::AssertFailed) => return Err(Cand::Discard("assert in argument".into())),
                    Err(EvalErr::Unspecified(w)) => return Err(Cand::Hard("unspecified", w.to_string())),
                    Err(EvalErr::UnknownVar(n)) => return Err(Cand::Hard("undefined-symbol", n)),
                    Err(e) => return Err(Cand::Hard("argument-error", format!("{:?}", e))),
                };
                let iv = match &v {
                    V::Int { v, .. } => v.clone(),
                    V::Str { s, enc } => match encode(s, *enc) {
                        Ok(b) if b.first().map(|x| *x < 0x80).unwrap_or(true) => BigInt::from_bytes_be(num_bigint::Sign::Plus, &b),
                        _ => return Err(Cand::Hard("unspecified", "string argument".into())),
                    },
                    _ => return Err(Cand::Hard("argument-type", format!("{:?}", v))),
                };
                match ty {
                    PType::Untyped => Ok((param.clone(), v)),
                    PType::U(n) | PType::S(n) | PType::I(n) => {
                        if in_range_typed(*ty, &iv) {
                            Ok((param.clone(), V::Int { v: iv, size: Some(*n) }))
                        } else {
                            Err(Cand::Discard(format!("argument {} out of range for {:?}", iv, ty)))
                        }
                    }
                    PType::Sub(_) => unreachable!(),
                }
            }
            ArgBinding::Sub { param, sub, alt, inner } => {
                let a = &self.prog.isa.subrules[*sub].alts[*alt];
                let mut locals = HashMap::new();
                if let Some(i) = inner {
                    let (n, v) = self.eval_binding(i, ctx, addr)?;
                    locals.insert(n, v);
                }
                let env = Env { vars: &locals, lookup: Some(&lk) };
                match eval(&a.prod, &env) {
                    Ok(v @ V::Int { size: Some(_), .. }) => Ok((param.clone(), v)),
                    Ok(v) => Err(Cand::Hard("subrule-production-unsized", format!("{:?}", v))),
                    Err(EvalErr::AssertFailed) => Err(Cand::Discard("assert in sub-rule".into())),
                    Err(EvalErr::Unspecified(w)) => Err(Cand::Hard("unspecified", w.to_string())),
                    Err(EvalErr::UnknownVar(n)) => Err(Cand::Hard("undefined-symbol", n)),
                    Err(e) => Err(Cand::Hard("production-error", format!("{:?}", e))),
                }
            }
        }
    }

    fn eval_match(&self, m: &Match, ctx: &[String], addr: &Result<BigInt, EvalErr>) -> Cand {
        let r = rule_of(&self.prog.isa, m);
        let mut locals = HashMap::new();
        for b in &m.args {
            match self.eval_binding(b, ctx, addr) {
                Ok((n, v)) => {
                    locals.insert(n, v);
                }
                Err(c) => return c,
            }
        }
        let lk = |n: &str| self.lookup(ctx, addr, n);
        let env = Env { vars: &locals, lookup: Some(&lk) };
        match eval(&r.prod, &env) {
            Ok(V::Int { v, size: Some(s) }) => Cand::Enc(mod_pow2(&v, s), s),
            Ok(v) => Cand::Hard("production-unsized", format!("{:?}", v)),
            Err(EvalErr::AssertFailed) => Cand::Discard("assert".into()),
            Err(EvalErr::Unspecified(w)) => Cand::Hard("unspecified", w.to_string()),
            Err(EvalErr::UnknownVar(n)) => Cand::Hard("undefined-symbol", n),
            Err(e) => Cand::Hard("production-error", format!("{:?}", e)),
        }
    }
}

fn reject(item: usize, class: &'static str, detail: impl Into<String>) -> RefResult {
    RefResult::Reject { item, class, detail: detail.into() }
}

pub fn assemble(prog: &Program) -> RefResult {
    assemble_forced(prog, None)
}

/// `forced`: instruction sizes claimed by somebody else (item index -> bits). The layout is then
/// computed from these sizes and the result is `Ok` only if, at the resulting addresses and with
/// the resulting symbol values, every instruction's unique smallest satisfied candidate has
/// exactly the claimed size (i.e. the claimed state is a fixed point of the language rules).
pub fn assemble_forced(prog: &Program, forced: Option<&HashMap<usize, usize>>) -> RefResult {
    let n = prog.items.len();

    // ---- declarations and scopes (R-SCOPE) ---------------------------------------------
    let mut ctx: Vec<String> = Vec::new();
    let mut ctxs: Vec<Vec<String>> = Vec::with_capacity(n);
    let mut declared: HashMap<String, Sym> = HashMap::new();
    let mut decls: Vec<(String, Sym, usize, bool)> = Vec::new();
    let mut n_bankdefs = 0;
    let mut bank_names: HashMap<String, usize> = HashMap::new();
    let mut banks: Vec<Bank> = vec![Bank::default_bank()];
    for (i, it) in prog.items.iter().enumerate() {
        match it {
            Item::Label { dots, name } | Item::Const { dots, name, .. } => {
                if *dots > ctx.len() {
                    return reject(i, "skips-level", format!("`{}` with {} dots under {:?}", name, dots, ctx));
                }
                let mut p: Vec<String> = ctx[..*dots].to_vec();
                p.push(name.clone());
                let path = p.join(".");
                if declared.contains_key(&path) {
                    return reject(i, "duplicate-symbol", path);
                }
                let kind = if matches!(it, Item::Label { .. }) { Sym::Label } else { Sym::Const };
                declared.insert(path.clone(), kind.clone());
                let noemit = matches!(it, Item::Const { noemit: true, .. });
                decls.push((path, kind, i, noemit));
                ctx = p;
            }
            Item::BankDef(b) => {
                n_bankdefs += 1;
                if bank_names.contains_key(&b.name) {
                    return reject(i, "duplicate-bank", b.name.clone());
                }
                bank_names.insert(b.name.clone(), banks.len());
                banks.push(Bank::from_def(b));
            }
            _ => {}
        }
        ctxs.push(ctx.clone());
    }
    for (i, it) in prog.items.iter().enumerate() {
        if let Item::Bank(nm) = it {
            if !bank_names.contains_key(nm) {
                return reject(i, "unknown-bank", nm.clone());
            }
        }
    }

    // ---- constants that need no address (resolved before the layout) --------------------
    let mut values: HashMap<String, V> = HashMap::new();
    let no_addr: Result<BigInt, EvalErr> = Err(EvalErr::Other("address not available"));
    loop {
        let mut progress = false;
        for (path, kind, i, _) in &decls {
            if *kind != Sym::Const || values.contains_key(path) {
                continue;
            }
            let Item::Const { e, .. } = &prog.items[*i] else { continue };
            let c = Ctx { prog, values: &values, declared: &declared };
            let empty = HashMap::new();
            // NOTE: before the layout only global names are visible (no enclosing scope)
            let lk = |nm: &str| c.lookup(&[], &no_addr, nm);
            let env = Env { vars: &empty, lookup: Some(&lk) };
            if let Ok(v) = eval(e, &env) {
                values.insert(path.clone(), v);
                progress = true;
            }
        }
        if !progress {
            break;
        }
    }

    // ---- layout (R-LAYOUT) -----------------------------------------------------------------
    let mut place: Vec<(usize, usize, usize)> = Vec::with_capacity(n);
    // forced mode: directives whose amount is only known from the layout itself take the position the
    // assembler claims for the next item (key n + i) and are re-evaluated once all symbols have their values
    let mut late: Vec<(usize, usize, usize)> = Vec::new(); // (item, cursor before, cursor after)
    let mut cur_bank = 0usize;
    let mut surv: HashMap<usize, Vec<Match>> = HashMap::new();
    let mut data_sizes: HashMap<usize, Vec<usize>> = HashMap::new();
    let mut label_addr: HashMap<usize, BigInt> = HashMap::new();
    let eval_pre = |e: &E, ctx: &[String], values: &HashMap<String, V>| -> R {
        let c = Ctx { prog, values, declared: &declared };
        let empty = HashMap::new();
        let lk = |nm: &str| c.lookup(ctx, &no_addr, nm);
        let env = Env { vars: &empty, lookup: Some(&lk) };
        eval(e, &env)
    };
    for (i, it) in prog.items.iter().enumerate() {
        let bi = cur_bank;
        let before = banks[bi].cursor;
        let mut size = 0usize;
        let uses_bank = matches!(it, Item::Label { .. } | Item::Instr(_) | Item::Data { .. } | Item::Res(_));
        if uses_bank && bi == 0 && n_bankdefs > 0 {
            return reject(i, "default-bank-used", "default bank used while banks are defined");
        }
        match it {
            Item::BankDef(b) => {
                cur_bank = bank_names[&b.name];
                place.push((cur_bank, banks[cur_bank].cursor, 0));
                continue;
            }
            Item::Bank(nm) => {
                cur_bank = bank_names[nm];
                place.push((cur_bank, banks[cur_bank].cursor, 0));
                continue;
            }
            Item::Label { dots, .. } => {
                let b = &mut banks[bi];
                if let (Some(la), 0) = (b.labelalign, *dots) {
                    if la != 0 {
                        let abs = &b.addr * BigInt::from(b.unit) + BigInt::from(b.cursor);
                        let excess = mod_floor(&abs, la);
                        if excess != 0 {
                            b.cursor += la - excess;
                        }
                    }
                }
                if b.cursor % b.unit != 0 {
                    return reject(i, "unaligned-label", format!("cursor {} unit {}", b.cursor, b.unit));
                }
                label_addr.insert(i, &b.addr + BigInt::from(b.cursor / b.unit));
                place.push((bi, b.cursor, 0));
                if let Some(sz) = b.size_bits {
                    if b.cursor > sz {
                        return reject(i, "bank-overflow", "label past bank end");
                    }
                }
                continue;
            }
            Item::Const { .. } | Item::Raw(_) => {}
            Item::Instr(ins) => {
                let s = survivors(&prog.isa, ins);
                if s.is_empty() {
                    return reject(i, "no-match", instr_text(ins));
                }
                let sz = match forced {
                    Some(f) => match f.get(&i) {
                        Some(s) => *s,
                        None => return RefResult::Invalid(format!("no claimed size for item {}", i)),
                    },
                    None => {
                        let sz = match_size(&prog.isa, &s[0]);
                        if s.iter().any(|m| match_size(&prog.isa, m) != sz) {
                            return RefResult::Invalid(format!("instruction `{}` is not size-static", instr_text(ins)));
                        }
                        sz
                    }
                };
                size = sz;
                surv.insert(i, s);
            }
            Item::Data { width, elems } => {
                let mut sizes = Vec::new();
                for e in elems {
                    let s = match width {
                        Some(w) => *w,
                        None => match static_size(e, &HashMap::new()) {
                            Some(s) => s,
                            None => return RefResult::Invalid(format!("`#d {}`: size not static", print(e, false))),
                        },
                    };
                    sizes.push(s);
                    size += s;
                }
                data_sizes.insert(i, sizes);
            }
            Item::Res(e) => match eval_pre(e, &ctxs[i], &values) {
                Ok(V::Int { v, .. }) => match v.to_u32() {
                    Some(k) => size = k as usize * banks[bi].unit,
                    None => return reject(i, "res-range", v.to_string()),
                },
                Ok(_) => return reject(i, "res-type", ""),
                Err(EvalErr::AssertFailed) => return reject(i, "assertion-failed", "in the operand of #res"),
                Err(_) => match forced.and_then(|f| f.get(&(n + i))) {
                    Some(next) if n_bankdefs == 0 && *next >= before => {
                        size = *next - before;
                        late.push((i, before, *next));
                    }
                    Some(next) if n_bankdefs == 0 => return reject(i, "directive-not-a-fixed-point", format!("position {} before, {} claimed after", before, next)),
                    _ => return RefResult::Invalid("#res amount not evaluable before layout".into()),
                },
            },
            Item::Align(e) => match eval_pre(e, &ctxs[i], &values) {
                Ok(V::Int { v, .. }) => match v.to_usize() {
                    Some(0) => return reject(i, "align-zero", ""),
                    Some(k) => {
                        let b = &banks[bi];
                        let abs = &b.addr * BigInt::from(b.unit) + BigInt::from(b.cursor);
                        let excess = mod_floor(&abs, k);
                        if excess != 0 {
                            size = k - excess;
                        }
                    }
                    None => return reject(i, "align-range", v.to_string()),
                },
                Ok(_) => return reject(i, "align-type", ""),
                Err(EvalErr::AssertFailed) => return reject(i, "assertion-failed", "in the operand of #align"),
                Err(_) => match forced.and_then(|f| f.get(&(n + i))) {
                    Some(next) if n_bankdefs == 0 && *next >= before => {
                        size = *next - before;
                        late.push((i, before, *next));
                    }
                    Some(next) if n_bankdefs == 0 => return reject(i, "directive-not-a-fixed-point", format!("position {} before, {} claimed after", before, next)),
                    _ => return RefResult::Invalid("#align amount not evaluable before layout".into()),
                },
            },
            Item::Addr(e) => match eval_pre(e, &ctxs[i], &values) {
                Ok(V::Int { v, .. }) => {
                    let b = &mut banks[bi];
                    if v < b.addr {
                        return reject(i, "addr-below-bank", v.to_string());
                    }
                    let delta = (&v - &b.addr) * BigInt::from(b.unit);
                    let Some(delta) = delta.to_usize() else { return reject(i, "addr-range", v.to_string()) };
                    if let Some(sz) = b.size_bits {
                        if delta >= sz {
                            return reject(i, "addr-after-bank", v.to_string());
                        }
                    }
                    place.push((bi, before, 0));
                    b.cursor = delta;
                    continue;
                }
                Ok(_) => return reject(i, "addr-type", ""),
                Err(_) => match forced.and_then(|f| f.get(&(n + i))) {
                    Some(next) if n_bankdefs == 0 => {
                        late.push((i, before, *next));
                        place.push((bi, before, 0));
                        banks[bi].cursor = *next;
                        continue;
                    }
                    _ => return RefResult::Invalid("#addr target not evaluable before layout".into()),
                },
            },
        }
        place.push((bi, before, size));
        if uses_bank {
            if let Some(sz) = banks[bi].size_bits {
                if before + size > sz {
                    return reject(i, "bank-overflow", format!("{} + {} > {}", before, size, sz));
                }
            }
        }
        if matches!(it, Item::Instr(_) | Item::Data { .. }) && banks[bi].outp.is_none() {
            return reject(i, "non-writable-bank", banks[bi].name.clone());
        }
        banks[bi].cursor = before + size;
    }

    // bank windows must not intersect
    for a in 1..banks.len() {
        for b in (a + 1)..banks.len() {
            if let (Some(oa), Some(ob)) = (banks[a].outp, banks[b].outp) {
                let overlap = match (banks[a].size_bits, banks[b].size_bits) {
                    (None, None) => true,
                    (Some(sa), None) => oa + sa > ob,
                    (None, Some(sb)) => ob + sb > oa,
                    (Some(sa), Some(sb)) => oa + sa > ob && ob + sb > oa,
                };
                if overlap {
                    return reject(0, "banks-overlap", format!("{} / {}", banks[a].name, banks[b].name));
                }
            }
        }
    }

    // ---- labels, then the remaining constants ---------------------------------------------
    for (path, kind, i, _) in &decls {
        if *kind == Sym::Label {
            values.insert(path.clone(), int(label_addr[i].clone()));
        }
    }
    let addr_of = |i: usize| -> Result<BigInt, EvalErr> {
        let (bi, cur, _) = place[i];
        let b = &banks[bi];
        if cur % b.unit != 0 {
            Err(EvalErr::Other("position is not aligned to an address"))
        } else {
            Ok(&b.addr + BigInt::from(cur / b.unit))
        }
    };
    loop {
        let mut progress = false;
        for (path, kind, i, _) in &decls {
            if *kind != Sym::Const || values.contains_key(path) {
                continue;
            }
            let Item::Const { e, .. } = &prog.items[*i] else { continue };
            let c = Ctx { prog, values: &values, declared: &declared };
            let empty = HashMap::new();
            let a = addr_of(*i);
            let lk = |nm: &str| c.lookup(&ctxs[*i], &a, nm);
            let env = Env { vars: &empty, lookup: Some(&lk) };
            if let Ok(v) = eval(e, &env) {
                values.insert(path.clone(), v);
                progress = true;
            }
        }
        if !progress {
            break;
        }
    }
    // a constant that still has no value is an error of the program (undefined symbol, cycle, ill-typed)
    for (path, kind, i, _) in &decls {
        if *kind == Sym::Const && !values.contains_key(path) {
            let Item::Const { e, .. } = &prog.items[*i] else { continue };
            let c = Ctx { prog, values: &values, declared: &declared };
            let empty = HashMap::new();
            let a = addr_of(*i);
            let lk = |nm: &str| c.lookup(&ctxs[*i], &a, nm);
            let env = Env { vars: &empty, lookup: Some(&lk) };
            return match eval(e, &env) {
                Err(EvalErr::Unspecified(w)) => RefResult::Invalid(w.to_string()),
                Err(EvalErr::UnknownVar(nm)) => reject(*i, "undefined-symbol", nm),
                Err(er) => reject(*i, "constant-error", format!("{:?}", er)),
                Ok(_) => RefResult::Invalid("constant evaluates late".into()),
            };
        }
    }

    // ---- forced mode: the late directives must evaluate to the amounts that were claimed for them ----------
    for (i, before, after) in &late {
        let c = Ctx { prog, values: &values, declared: &declared };
        let empty = HashMap::new();
        let a = addr_of(*i);
        let lk = |nm: &str| c.lookup(&ctxs[*i], &a, nm);
        let env = Env { vars: &empty, lookup: Some(&lk) };
        let (e, kind) = match &prog.items[*i] {
            Item::Res(e) => (e, 0),
            Item::Align(e) => (e, 1),
            Item::Addr(e) => (e, 2),
            _ => continue,
        };
        let unit = banks[0].unit;
        let want: Option<usize> = match eval(e, &env) {
            Ok(V::Int { v, .. }) => match kind {
                0 => v.to_usize().map(|k| before + k * unit),
                1 => v.to_usize().filter(|k| *k != 0).map(|k| {
                    let excess = before % k;
                    if excess != 0 { before + k - excess } else { *before }
                }),
                _ => v.to_usize().map(|k| k * unit),
            },
            Err(EvalErr::Unspecified(w)) => return RefResult::Invalid(w.to_string()),
            _ => None,
        };
        if want != Some(*after) {
            return reject(*i, "directive-not-a-fixed-point", format!("the final symbol values put the next item at bit {:?}, the layout has it at bit {}", want, after));
        }
    }

    // ---- encodings ----------------------------------------------------------------------------
    let c = Ctx { prog, values: &values, declared: &declared };
    let mut writes: Vec<(usize, usize, BigInt, usize, usize)> = Vec::new(); // pos, size, pattern, item, elem
    let mut spans = Vec::new();
    let mut chosen = HashMap::new();
    let mut survivors_n = HashMap::new();
    for (i, it) in prog.items.iter().enumerate() {
        let (bi, cur, size) = place[i];
        let b = &banks[bi];
        match it {
            Item::Label { .. } => {
                spans.push(RefSpan { item: i, elem: 0, offset: b.outp.map(|o| o + cur), size: 0, addr: label_addr[&i].clone() });
            }
            Item::Instr(ins) => {
                let a = addr_of(i);
                let ms = &surv[&i];
                survivors_n.insert(i, ms.len());
                let mut cands: Vec<(usize, BigInt, usize)> = Vec::new();
                let mut discards = Vec::new();
                for (k, m) in ms.iter().enumerate() {
                    match c.eval_match(m, &ctxs[i], &a) {
                        Cand::Enc(p, s) => cands.push((k, p, s)),
                        Cand::Discard(why) => discards.push(why),
                        Cand::Hard("unspecified", w) => return RefResult::Invalid(w),
                        Cand::Hard(class, d) => return reject(i, class, format!("`{}`: {}", instr_text(ins), d)),
                    }
                }
                if cands.is_empty() {
                    return reject(i, "no-candidate", format!("`{}`: {}", instr_text(ins), discards.join("; ")));
                }
                let min = cands.iter().map(|c| c.2).min().unwrap();
                let best: Vec<&(usize, BigInt, usize)> = cands.iter().filter(|c| c.2 == min).collect();
                if best.len() > 1 {
                    return reject(i, "tie", format!("`{}`: {} candidates of size {}", instr_text(ins), best.len(), min));
                }
                if min != size {
                    if forced.is_some() {
                        return reject(i, "not-a-fixed-point", format!("`{}`: claimed size {}, but with the final values the smallest satisfied encoding has {} bits", instr_text(ins), size, min));
                    }
                    return RefResult::Invalid(format!("`{}`: evaluated size {} differs from the rule table size {}", instr_text(ins), min, size));
                }
                let m = &ms[best[0].0];
                chosen.insert(i, (m.block, m.rule));
                // an instruction may start inside an address unit; its listing address is the enclosing one
                let addr = &b.addr + BigInt::from(cur / b.unit);
                let pos = b.outp.unwrap() + cur;
                writes.push((pos, min, best[0].1.clone(), i, 0));
                spans.push(RefSpan { item: i, elem: 0, offset: Some(pos), size: min, addr });
            }
            Item::Data { width, elems } => {
                let sizes = &data_sizes[&i];
                let mut off = cur;
                for (k, e) in elems.iter().enumerate() {
                    let (bi2, _, _) = place[i];
                    let bb = &banks[bi2];
                    let a: Result<BigInt, EvalErr> = if off % bb.unit != 0 {
                        Err(EvalErr::Other("position is not aligned to an address"))
                    } else {
                        Ok(&bb.addr + BigInt::from(off / bb.unit))
                    };
                    let empty = HashMap::new();
                    let lk = |nm: &str| c.lookup(&ctxs[i], &a, nm);
                    let env = Env { vars: &empty, lookup: Some(&lk) };
                    let v = match eval(e, &env) {
                        Ok(v) => v,
                        Err(EvalErr::Unspecified(w)) => return RefResult::Invalid(w.to_string()),
                        Err(EvalErr::UnknownVar(nm)) => return reject(i, "undefined-symbol", nm),
                        Err(er) => return reject(i, "data-error", format!("{:?}", er)),
                    };
                    let (val, vsize) = match &v {
                        V::Int { v, size } => (v.clone(), *size),
                        V::Str { s, enc } => match str_pattern(s, *enc) {
                            Ok((p, n)) => (p, Some(n)),
                            Err(_) => return RefResult::Invalid("string".into()),
                        },
                        _ => return reject(i, "data-type", format!("{:?}", v)),
                    };
                    let w = sizes[k];
                    match (width, vsize) {
                        (Some(w), Some(s)) => {
                            if s > *w {
                                return reject(i, "data-too-wide", format!("size {} > {}", s, w));
                            }
                        }
                        (Some(w), None) => {
                            if !in_range_typed(PType::I(*w), &val) {
                                return reject(i, "data-out-of-range", format!("{} for #d{}", val, w));
                            }
                        }
                        (None, Some(s)) => {
                            if s != w {
                                return RefResult::Invalid(format!("`#d {}`: size {} differs from static size {}", print(e, false), s, w));
                            }
                        }
                        (None, None) => return reject(i, "data-unsized", print(e, false)),
                    }
                    let Ok(addr) = a else {
                        // emitting data at a non-address position is allowed; its address is the enclosing one
                        let addr = &bb.addr + BigInt::from(off / bb.unit);
                        let pos = bb.outp.unwrap() + off;
                        writes.push((pos, w, mod_pow2(&val, w), i, k));
                        spans.push(RefSpan { item: i, elem: k, offset: Some(pos), size: w, addr });
                        off += w;
                        continue;
                    };
                    let pos = bb.outp.unwrap() + off;
                    writes.push((pos, w, mod_pow2(&val, w), i, k));
                    spans.push(RefSpan { item: i, elem: k, offset: Some(pos), size: w, addr });
                    off += w;
                }
            }
            Item::Res(_) => {
                if let Some(o) = b.outp {
                    if size > 0 {
                        writes.push((o + cur, size, BigInt::from(-1), i, 0)); // reservation marker
                    }
                }
            }
            _ => {}
        }
    }

    // ---- overlap, output ------------------------------------------------------------------------
    let mut ivs: Vec<(usize, usize, usize)> = writes.iter().filter(|w| w.1 > 0).map(|w| (w.0, w.0 + w.1, w.3)).collect();
    ivs.sort();
    for k in 1..ivs.len() {
        if ivs[k].0 < ivs[k - 1].1 {
            return reject(ivs[k].2.max(ivs[k - 1].2), "overlap", format!("items {} and {}", ivs[k - 1].2, ivs[k].2));
        }
    }
    let mut len = 0usize;
    for w in &writes {
        // (a reservation and an element of width zero write no bit: they do not extend the output)
        if w.2.is_negative() || w.1 == 0 {
            continue;
        }
        len = len.max(w.0 + w.1);
    }
    for b in banks.iter().skip(1) {
        if let (true, Some(sz), Some(o)) = (b.fill, b.size_bits, b.outp) {
            len = len.max(o + sz);
        }
    }
    let mut bits = vec![false; len];
    for (pos, size, pat, _, _) in &writes {
        if pat.is_negative() {
            continue;
        }
        for k in 0..*size {
            bits[pos + k] = pat.bit((*size - 1 - k) as u64);
        }
    }
    let symbols: Vec<(String, BigInt)> = decls
        .iter()
        .filter(|d| !d.3)
        .filter_map(|d| match values.get(&d.0) {
            Some(V::Int { v, .. }) => Some((d.0.clone(), v.clone())),
            _ => None,
        })
        .collect();
    RefResult::Ok(RefOk { bits, symbols, all_symbols: values, spans, chosen, survivors: survivors_n })
}

pub fn mod_floor(x: &BigInt, m: usize) -> usize {
    let m = BigInt::from(m);
    let r = x % &m;
    let r = if r.is_negative() { r + &m } else { r };
    r.to_usize().unwrap()
}
