//! R-ISA / R-MATCH: instruction sets and matching over *structured* operands.
//!
//! A rule is a mnemonic plus a list of operands (literal word, expression slot, sub-rule
//! slot), each optionally inside a punctuation wrapper, plus a production.  An instruction
//! line matches a rule iff the mnemonics are equal ignoring ASCII case, operand counts and
//! wrappers agree and, operand by operand: a literal equals the written word ignoring case;
//! an expression slot accepts any operand text that is an expression (a word is one - it
//! reads as a symbol; `(e)` is one; `[e]` and `#e` are not); a sub-rule slot accepts what one
//! of its alternatives accepts.  Among syntactic matches only those with the largest number
//! of literal pattern characters survive.

use super::expr::*;

#[derive(Clone, Copy, Debug, PartialEq, Eq, Hash)]
pub enum PType {
    Untyped,
    U(usize),
    S(usize),
    I(usize),
    Sub(usize),
}

#[derive(Clone, Copy, Debug, PartialEq, Eq, Hash)]
pub enum Wrap {
    None,
    Bracket,
    Paren,
    Hash,
}

impl Wrap {
    pub fn open(self) -> &'static str {
        match self {
            Wrap::None => "",
            Wrap::Bracket => "[",
            Wrap::Paren => "(",
            Wrap::Hash => "#",
        }
    }
    pub fn close(self) -> &'static str {
        match self {
            Wrap::None | Wrap::Hash => "",
            Wrap::Bracket => "]",
            Wrap::Paren => ")",
        }
    }
    pub fn chars(self) -> usize {
        self.open().len() + self.close().len()
    }
}

#[derive(Clone, Debug, PartialEq)]
pub enum POp {
    Lit(String),
    Param { name: String, ty: PType },
}

#[derive(Clone, Debug, PartialEq)]
pub struct PatOp {
    pub wrap: Wrap,
    pub op: POp,
}

#[derive(Clone, Debug, PartialEq)]
pub struct Rule {
    pub mnemonic: String,
    pub ops: Vec<PatOp>,
    pub prod: E,
    /// size of the production in bits (known to the generator; checked by the model)
    pub size: usize,
}

#[derive(Clone, Debug, PartialEq)]
pub struct SubAlt {
    pub op: POp, // Lit(word) or Param (typed/untyped expression)
    pub prod: E,
    pub size: usize,
}

#[derive(Clone, Debug, PartialEq)]
pub struct SubRule {
    pub name: String,
    pub alts: Vec<SubAlt>,
}

#[derive(Clone, Debug, PartialEq)]
pub struct RuleBlock {
    pub name: Option<String>,
    pub rules: Vec<Rule>,
}

#[derive(Clone, Debug, PartialEq, Default)]
pub struct Isa {
    pub subrules: Vec<SubRule>,
    pub blocks: Vec<RuleBlock>,
}

#[derive(Clone, Debug, PartialEq)]
pub enum IOp {
    Word(String),
    Expr(E),
}

#[derive(Clone, Debug, PartialEq)]
pub struct InsOp {
    pub wrap: Wrap,
    pub op: IOp,
}

#[derive(Clone, Debug, PartialEq)]
pub struct Instr {
    pub mnemonic: String,
    pub ops: Vec<InsOp>,
}

// ---------------------------------------------------------------------------------------
// rendering

pub fn ptype_text(ty: PType, isa: &Isa) -> String {
    match ty {
        PType::Untyped => String::new(),
        PType::U(n) => format!(": u{}", n),
        PType::S(n) => format!(": s{}", n),
        PType::I(n) => format!(": i{}", n),
        PType::Sub(i) => format!(": {}", isa.subrules[i].name),
    }
}

pub fn pop_text(op: &POp, isa: &Isa) -> String {
    match op {
        POp::Lit(w) => w.clone(),
        POp::Param { name, ty } => format!("{{{}{}}}", name, ptype_text(*ty, isa)),
    }
}

thread_local! {
    /// salt of the "tight commas" choice: 0 for the base rendering; the spacing variant of C07 sets another value so
    /// that the optional blanks of the rule PATTERNS change too (instruction lines always carry the blank)
    pub static TIGHT_SALT: std::cell::Cell<u64> = std::cell::Cell::new(0);
}

pub fn rule_text(r: &Rule, isa: &Isa) -> String {
    let mut s = r.mnemonic.clone();
    // v2: a third of the rules (chosen by a hash of the rule, not by the tape) are written WITHOUT the optional
    // blank behind their commas (`ld a,{p1}`): a pattern without a blank still accepts one in the instruction, and
    // blanks are not literal characters, so rules that differ only in this spelling compete on equal terms
    let tight = crate::engine::gen_version() >= 2 && {
        let mut key = r.mnemonic.clone();
        for o in &r.ops {
            key.push_str(&pop_text(&o.op, isa));
        }
        // (independent of letter case: the recased variant keeps the spelling of the blanks)
        let h = crate::engine::fnv(key.to_ascii_lowercase().as_bytes());
        let salt = TIGHT_SALT.with(|c| c.get());
        if salt == 0 { h % 3 == 0 } else { crate::engine::mix(h, salt) % 2 == 0 }
    };
    for (i, o) in r.ops.iter().enumerate() {
        s.push_str(if i == 0 { " " } else if tight { "," } else { ", " });
        s.push_str(o.wrap.open());
        s.push_str(&pop_text(&o.op, isa));
        s.push_str(o.wrap.close());
    }
    format!("{} => {}", s, print(&r.prod, false))
}

pub fn isa_text(isa: &Isa) -> String {
    let mut s = String::new();
    for sr in &isa.subrules {
        s.push_str(&format!("#subruledef {}\n{{\n", sr.name));
        for a in &sr.alts {
            s.push_str(&format!("    {} => {}\n", pop_text(&a.op, isa), print(&a.prod, false)));
        }
        s.push_str("}\n");
    }
    for b in &isa.blocks {
        match &b.name {
            Some(n) => s.push_str(&format!("#ruledef {}\n{{\n", n)),
            None => s.push_str("#ruledef\n{\n"),
        }
        for r in &b.rules {
            s.push_str(&format!("    {}\n", rule_text(r, isa)));
        }
        s.push_str("}\n");
    }
    s
}

pub fn iop_text(o: &InsOp) -> String {
    let inner = match &o.op {
        IOp::Word(w) => w.clone(),
        IOp::Expr(e) => print(e, false),
    };
    format!("{}{}{}", o.wrap.open(), inner, o.wrap.close())
}

pub fn instr_text(i: &Instr) -> String {
    let mut s = i.mnemonic.clone();
    for (k, o) in i.ops.iter().enumerate() {
        s.push_str(if k == 0 { " " } else { ", " });
        s.push_str(&iop_text(o));
    }
    s
}

// ---------------------------------------------------------------------------------------
// structural matching

#[derive(Clone, Debug)]
pub enum ArgBinding {
    /// expression slot bound to an expression (a word reads as a symbol)
    Expr { param: String, ty: PType, e: E },
    /// sub-rule slot bound to alternative `alt` of sub-rule `sub`, itself with 0 or 1 binding
    Sub { param: String, sub: usize, alt: usize, inner: Option<Box<ArgBinding>> },
}

#[derive(Clone, Debug)]
pub struct Match {
    pub block: usize,
    pub rule: usize,
    pub exact: usize,
    pub args: Vec<ArgBinding>,
}

fn literal_chars(w: &str) -> usize {
    w.chars().filter(|c| !c.is_whitespace()).count()
}

/// can this instruction operand be read as an expression? returns the expression
fn as_expr(o: &InsOp) -> Option<E> {
    let e = match &o.op {
        IOp::Word(w) => E::Var(w.clone()),
        IOp::Expr(e) => e.clone(),
    };
    match o.wrap {
        Wrap::None => Some(e),
        Wrap::Paren => Some(e), // `(e)` is an expression with the same value
        Wrap::Bracket | Wrap::Hash => None,
    }
}

/// match one (unwrapped) pattern operand against one instruction operand whose wrapper
/// has already been accounted for; `paren_as_expr` = the instruction operand was written
/// `(e)` and the pattern has no wrapper (so only an expression slot can take it)
fn match_pop(isa: &Isa, p: &POp, o: &InsOp, pattern_wrap: Wrap) -> Vec<(usize, Option<ArgBinding>)> {
    let mut out = Vec::new();
    // which reading of the instruction operand are we matching against?
    // - pattern_wrap == o.wrap: the wrappers are literal characters, inner is compared
    // - pattern_wrap == None and o.wrap == Paren: whole `(e)` offered to an expression slot
    let same_wrap = pattern_wrap == o.wrap;
    let paren_to_slot = pattern_wrap == Wrap::None && o.wrap == Wrap::Paren;
    if !same_wrap && !paren_to_slot {
        return out;
    }
    match p {
        POp::Lit(w) => {
            if same_wrap {
                if let IOp::Word(iw) = &o.op {
                    if iw.eq_ignore_ascii_case(w) {
                        out.push((literal_chars(w), None));
                    }
                }
            }
        }
        POp::Param { name, ty } => match ty {
            PType::Sub(si) => {
                let sr = &isa.subrules[*si];
                for (ai, alt) in sr.alts.iter().enumerate() {
                    for (cnt, inner) in match_pop(isa, &alt.op, o, pattern_wrap) {
                        out.push((cnt, Some(ArgBinding::Sub { param: name.clone(), sub: *si, alt: ai, inner: inner.map(Box::new) })));
                    }
                }
            }
            _ => {
                let inner_as_expr = if same_wrap {
                    // wrappers consumed as literals: inner must be an expression by itself
                    as_expr(&InsOp { wrap: Wrap::None, op: o.op.clone() })
                } else {
                    as_expr(o)
                };
                if let Some(e) = inner_as_expr {
                    out.push((0, Some(ArgBinding::Expr { param: name.clone(), ty: *ty, e })));
                }
            }
        },
    }
    out
}

fn match_rule(isa: &Isa, r: &Rule, ins: &Instr) -> Vec<(usize, Vec<ArgBinding>)> {
    if !r.mnemonic.eq_ignore_ascii_case(&ins.mnemonic) || r.ops.len() != ins.ops.len() {
        return vec![];
    }
    let base = literal_chars(&r.mnemonic) + r.ops.len().saturating_sub(1); // commas
    let mut partial: Vec<(usize, Vec<ArgBinding>)> = vec![(base, vec![])];
    for (p, o) in r.ops.iter().zip(ins.ops.iter()) {
        let mut alternatives: Vec<(usize, Option<ArgBinding>)> = Vec::new();
        // reading 1: pattern wrapper characters are literal
        if p.wrap == o.wrap {
            for (c, b) in match_pop(isa, &p.op, o, p.wrap) {
                alternatives.push((c + p.wrap.chars(), b));
            }
        } else if p.wrap == Wrap::None && o.wrap == Wrap::Paren {
            // reading 2: `(e)` offered to a bare slot
            for (c, b) in match_pop(isa, &p.op, o, Wrap::None) {
                alternatives.push((c, b));
            }
        }
        let mut next = Vec::new();
        for (cnt, args) in &partial {
            for (c, b) in &alternatives {
                let mut a = args.clone();
                if let Some(b) = b {
                    a.push(b.clone());
                }
                next.push((cnt + c, a));
            }
        }
        partial = next;
        if partial.is_empty() {
            break;
        }
    }
    partial
}

/// all syntactic matches, then only those with the largest literal-character count
pub fn survivors(isa: &Isa, ins: &Instr) -> Vec<Match> {
    let mut all = Vec::new();
    for (bi, b) in isa.blocks.iter().enumerate() {
        for (ri, r) in b.rules.iter().enumerate() {
            for (exact, args) in match_rule(isa, r, ins) {
                all.push(Match { block: bi, rule: ri, exact, args });
            }
        }
    }
    let max = all.iter().map(|m| m.exact).max().unwrap_or(0);
    all.retain(|m| m.exact == max);
    all
}

pub fn rule_of<'a>(isa: &'a Isa, m: &Match) -> &'a Rule {
    &isa.blocks[m.block].rules[m.rule]
}

/// static size of a match (production size; sub-rule alternatives contribute through the production)
pub fn match_size(isa: &Isa, m: &Match) -> usize {
    rule_of(isa, m).size
}
