//! R-NUM / R-EXPR: reference semantics of customasm expressions, written from the language
//! description (README / property C05), over unbounded integers.  Two's-complement operators
//! are defined arithmetically; num-bigint is only used for + - * divrem, comparison, powers
//! of two and unsigned bit operations on reduced (non-negative) operands.

use num_bigint::{BigInt, BigUint, Sign};
use num_traits::{One, Signed, ToPrimitive, Zero};
use std::collections::HashMap;

#[derive(Clone, Copy, Debug, PartialEq, Eq, Hash)]
pub enum UnOp {
    Neg,
    Not,
}

#[derive(Clone, Copy, Debug, PartialEq, Eq, Hash)]
pub enum BinOp {
    Concat,
    LazyOr,
    LazyAnd,
    Eq,
    Ne,
    Lt,
    Le,
    Gt,
    Ge,
    Or,
    Xor,
    And,
    Shl,
    Shr,
    Add,
    Sub,
    Mul,
    Div,
    Mod,
}

impl BinOp {
    pub fn text(self) -> &'static str {
        use BinOp::*;
        match self {
            Concat => "@",
            LazyOr => "||",
            LazyAnd => "&&",
            Eq => "==",
            Ne => "!=",
            Lt => "<",
            Le => "<=",
            Gt => ">",
            Ge => ">=",
            Or => "|",
            Xor => "^",
            And => "&",
            Shl => "<<",
            Shr => ">>",
            Add => "+",
            Sub => "-",
            Mul => "*",
            Div => "/",
            Mod => "%",
        }
    }
    /// precedence level, larger binds tighter (documented table, DESIGN section 4)
    pub fn level(self) -> u8 {
        use BinOp::*;
        match self {
            Concat => 2,
            LazyOr => 3,
            LazyAnd => 4,
            Eq | Ne | Lt | Le | Gt | Ge => 5,
            Or => 6,
            Xor => 7,
            And => 8,
            Shl | Shr => 9,
            Add | Sub => 10,
            Mul | Div | Mod => 11,
        }
    }
    pub const ALL: [BinOp; 19] = [
        BinOp::Concat, BinOp::LazyOr, BinOp::LazyAnd, BinOp::Eq, BinOp::Ne, BinOp::Lt, BinOp::Le, BinOp::Gt, BinOp::Ge,
        BinOp::Or, BinOp::Xor, BinOp::And, BinOp::Shl, BinOp::Shr, BinOp::Add, BinOp::Sub, BinOp::Mul, BinOp::Div, BinOp::Mod,
    ];
}

pub const LEVEL_TERNARY: u8 = 0;
pub const LEVEL_SLICE: u8 = 12;
pub const LEVEL_SLICESHORT: u8 = 13;
pub const LEVEL_UNARY: u8 = 14;
pub const LEVEL_CALL: u8 = 15;
pub const LEVEL_LEAF: u8 = 16;

#[derive(Clone, Debug, PartialEq)]
pub enum E {
    /// a numeric literal: printed text (no sign), value, size
    Lit { text: String, v: BigInt, size: Option<usize> },
    Bool(bool),
    /// string literal: source text between the quotes (with escapes) and decoded characters
    Str { src: String, chars: String },
    /// reference to a named value (constant, label, parameter); `dots` leading dots
    Var(String),
    Un(UnOp, Box<E>),
    Bin(BinOp, Box<E>, Box<E>),
    Tern(Box<E>, Box<E>, Box<E>),
    /// inner[hi:lo]
    Slice(Box<E>, Box<E>, Box<E>),
    /// inner`n
    SliceShort(Box<E>, Box<E>),
    Call(String, Vec<E>),
    /// { e1, e2, ... }: value of the last one
    Block(Vec<E>),
}

#[derive(Clone, Debug, PartialEq)]
pub enum V {
    Int { v: BigInt, size: Option<usize> },
    Bool(bool),
    Str { s: String, enc: Enc },
    Void,
}

#[derive(Clone, Copy, Debug, PartialEq, Eq)]
pub enum Enc {
    Utf8,
    Ascii,
    Utf16Be,
    Utf16Le,
    Utf32Be,
    Utf32Le,
}

impl Enc {
    pub fn name(self) -> &'static str {
        match self {
            Enc::Utf8 => "utf8",
            Enc::Ascii => "ascii",
            Enc::Utf16Be => "utf16be",
            Enc::Utf16Le => "utf16le",
            Enc::Utf32Be => "utf32be",
            Enc::Utf32Le => "utf32le",
        }
    }
    pub fn from_name(n: &str) -> Option<Enc> {
        Some(match n {
            "utf8" => Enc::Utf8,
            "ascii" => Enc::Ascii,
            "utf16be" => Enc::Utf16Be,
            "utf16le" => Enc::Utf16Le,
            "utf32be" => Enc::Utf32Be,
            "utf32le" => Enc::Utf32Le,
            _ => return None,
        })
    }
    pub const ALL: [Enc; 6] = [Enc::Utf8, Enc::Ascii, Enc::Utf16Be, Enc::Utf16Le, Enc::Utf32Be, Enc::Utf32Le];
}

#[derive(Clone, Debug, PartialEq, Eq)]
pub enum EvalErr {
    DivZero,
    Type(&'static str),
    Unsized,
    SliceRange,
    Negative,
    UnknownVar(String),
    /// assert(false): a *constraint* failure (discards a candidate rule), not a hard error
    AssertFailed,
    Other(&'static str),
    /// the statement does not fix the result here; the case must not be asserted
    Unspecified(&'static str),
}

pub type R = Result<V, EvalErr>;

pub fn int(v: impl Into<BigInt>) -> V {
    V::Int { v: v.into(), size: None }
}

pub fn sized(v: impl Into<BigInt>, size: usize) -> V {
    V::Int { v: v.into(), size: Some(size) }
}

pub fn pow2(n: usize) -> BigInt {
    BigInt::one() << n
}

/// floor(x / 2^n)
pub fn shr_floor(x: &BigInt, n: usize) -> BigInt {
    let d = pow2(n);
    if x.sign() != Sign::Minus {
        x / &d
    } else {
        // floor for negatives: -((-x - 1) / d) - 1
        -((-x - BigInt::one()) / &d) - BigInt::one()
    }
}

/// x mod 2^n in [0, 2^n)
pub fn mod_pow2(x: &BigInt, n: usize) -> BigInt {
    let m = pow2(n);
    let r = x % &m;
    if r.sign() == Sign::Minus {
        r + m
    } else {
        r
    }
}

/// minimal number of bits of the magnitude
pub fn bitlen(x: &BigInt) -> usize {
    x.magnitude().bits() as usize
}

fn bitwise(a: &BigInt, b: &BigInt, f: impl Fn(&BigUint, &BigUint) -> BigUint) -> BigInt {
    let k = bitlen(a).max(bitlen(b)) + 2;
    let ra = mod_pow2(a, k).to_biguint().unwrap();
    let rb = mod_pow2(b, k).to_biguint().unwrap();
    let r = BigInt::from(f(&ra, &rb));
    if r >= pow2(k - 1) {
        r - pow2(k)
    } else {
        r
    }
}

/// bits [hi:lo] of the infinite two's-complement representation, as a non-negative integer
pub fn slice_bits(x: &BigInt, hi_plus_1: usize, lo: usize) -> BigInt {
    mod_pow2(&shr_floor(x, lo), hi_plus_1 - lo)
}

pub fn encode(s: &str, enc: Enc) -> Result<Vec<u8>, EvalErr> {
    let mut out = Vec::new();
    match enc {
        Enc::Utf8 => out.extend_from_slice(s.as_bytes()),
        Enc::Ascii => {
            // one byte per character; documented by the repository's own test
            // tests/string_encoding/ok.asm: characters up to U+00FF give their Latin-1 byte,
            // anything above gives 0x00
            for c in s.chars() {
                if (c as u32) < 0x100 {
                    out.push(c as u32 as u8);
                } else {
                    out.push(0);
                }
            }
        }
        Enc::Utf16Be | Enc::Utf16Le => {
            for c in s.chars() {
                let cp = c as u32;
                let mut units = Vec::new();
                if cp < 0x10000 {
                    units.push(cp as u16);
                } else {
                    let v = cp - 0x10000;
                    units.push(0xD800 + (v >> 10) as u16);
                    units.push(0xDC00 + (v & 0x3ff) as u16);
                }
                for u in units {
                    if enc == Enc::Utf16Be {
                        out.push((u >> 8) as u8);
                        out.push(u as u8);
                    } else {
                        out.push(u as u8);
                        out.push((u >> 8) as u8);
                    }
                }
            }
        }
        Enc::Utf32Be => {
            for c in s.chars() {
                out.extend_from_slice(&(c as u32).to_be_bytes());
            }
        }
        Enc::Utf32Le => {
            for c in s.chars() {
                out.extend_from_slice(&(c as u32).to_le_bytes());
            }
        }
    }
    Ok(out)
}

/// numeric reading of a string: its encoded bytes as a big-endian number of 8*len bits.
/// Only defined here when the first byte is below 0x80 (otherwise the statement does not say
/// whether the number is read signed or unsigned) - except that the *bit pattern* is always defined.
pub fn str_pattern(s: &str, enc: Enc) -> Result<(BigInt, usize), EvalErr> {
    let bytes = encode(s, enc)?;
    Ok((BigInt::from_bytes_be(Sign::Plus, &bytes), bytes.len() * 8))
}

/// integer view of a value used as an operand of an arithmetic operator
fn as_int(v: &V, pattern_only: bool) -> Result<Option<(BigInt, Option<usize>)>, EvalErr> {
    match v {
        V::Int { v, size } => Ok(Some((v.clone(), *size))),
        V::Str { s, enc } => {
            let bytes = encode(s, *enc)?;
            // the numeric value of a string is the unsigned number its encoded bytes spell (its size: 8 x bytes);
            // a first byte >= 0x80 does not make it negative
            let _ = pattern_only;
            Ok(Some((BigInt::from_bytes_be(Sign::Plus, &bytes), Some(bytes.len() * 8))))
        }
        _ => Ok(None),
    }
}

pub struct Env<'a> {
    pub vars: &'a HashMap<String, V>,
    /// consulted when `vars` has no entry (symbol resolution at the point of use)
    pub lookup: Option<&'a dyn Fn(&str) -> Result<V, EvalErr>>,
}

impl<'a> Env<'a> {
    pub fn of(vars: &'a HashMap<String, V>) -> Env<'a> {
        Env { vars, lookup: None }
    }
}

pub fn to_usize(v: &V) -> Result<usize, EvalErr> {
    match v {
        V::Int { v, .. } => {
            if v.sign() == Sign::Minus {
                Err(EvalErr::Negative)
            } else {
                v.to_usize().ok_or(EvalErr::Other("too large"))
            }
        }
        _ => Err(EvalErr::Type("expected integer")),
    }
}

pub fn eval(e: &E, env: &Env) -> R {
    match e {
        E::Lit { v, size, .. } => Ok(V::Int { v: v.clone(), size: *size }),
        E::Bool(b) => Ok(V::Bool(*b)),
        E::Str { chars, .. } => Ok(V::Str { s: chars.clone(), enc: Enc::Utf8 }),
        E::Var(n) => match env.vars.get(n) {
            Some(v) => Ok(v.clone()),
            None => match env.lookup {
                Some(f) => f(n),
                None => Err(EvalErr::UnknownVar(n.clone())),
            },
        },
        E::Block(es) => {
            let mut last = V::Void;
            for e in es {
                last = eval(e, env)?;
            }
            Ok(last)
        }
        E::Un(op, a) => {
            let a = eval(a, env)?;
            match (op, a) {
                (UnOp::Neg, V::Int { v, .. }) => Ok(int(-v)),
                (UnOp::Not, V::Int { v, .. }) => Ok(int(-v - BigInt::one())),
                (UnOp::Not, V::Bool(b)) => Ok(V::Bool(!b)),
                _ => Err(EvalErr::Type("unary operand")),
            }
        }
        E::Bin(op, a, b) => {
            if *op == BinOp::LazyOr || *op == BinOp::LazyAnd {
                let l = match eval(a, env)? {
                    V::Bool(b) => b,
                    _ => return Err(EvalErr::Type("lazy operand")),
                };
                if (*op == BinOp::LazyOr && l) || (*op == BinOp::LazyAnd && !l) {
                    return Ok(V::Bool(l));
                }
                return match eval(b, env)? {
                    V::Bool(b) => Ok(V::Bool(b)),
                    _ => Err(EvalErr::Type("lazy operand")),
                };
            }
            let l = eval(a, env)?;
            let r = eval(b, env)?;
            if let (V::Bool(x), V::Bool(y)) = (&l, &r) {
                return match op {
                    BinOp::And => Ok(V::Bool(x & y)),
                    BinOp::Or => Ok(V::Bool(x | y)),
                    BinOp::Xor => Ok(V::Bool(x ^ y)),
                    BinOp::Eq => Ok(V::Bool(x == y)),
                    BinOp::Ne => Ok(V::Bool(x != y)),
                    _ => Err(EvalErr::Type("boolean operands")),
                };
            }
            let pattern_only = *op == BinOp::Concat;
            let (Some((x, xs)), Some((y, ys))) = (as_int(&l, pattern_only)?, as_int(&r, pattern_only)?) else {
                return Err(EvalErr::Type("operands"));
            };
            match op {
                BinOp::Add => Ok(int(x + y)),
                BinOp::Sub => Ok(int(x - y)),
                BinOp::Mul => Ok(int(x * y)),
                BinOp::Div => {
                    if y.is_zero() {
                        Err(EvalErr::DivZero)
                    } else {
                        Ok(int(x / y)) // truncates toward zero
                    }
                }
                BinOp::Mod => {
                    if y.is_zero() {
                        Err(EvalErr::DivZero)
                    } else {
                        let q = &x / &y;
                        Ok(int(x - q * y)) // a = (a/b)*b + a%b
                    }
                }
                BinOp::Shl => {
                    let n = to_usize(&int(y))?;
                    Ok(int(x * pow2(n)))
                }
                BinOp::Shr => {
                    let n = to_usize(&int(y))?;
                    Ok(int(shr_floor(&x, n)))
                }
                BinOp::And => Ok(int(bitwise(&x, &y, |a, b| a & b))),
                BinOp::Or => Ok(int(bitwise(&x, &y, |a, b| a | b))),
                BinOp::Xor => Ok(int(bitwise(&x, &y, |a, b| a ^ b))),
                BinOp::Eq => Ok(V::Bool(x == y)),
                BinOp::Ne => Ok(V::Bool(x != y)),
                BinOp::Lt => Ok(V::Bool(x < y)),
                BinOp::Le => Ok(V::Bool(x <= y)),
                BinOp::Gt => Ok(V::Bool(x > y)),
                BinOp::Ge => Ok(V::Bool(x >= y)),
                BinOp::Concat => match (xs, ys) {
                    (Some(xs), Some(ys)) => Ok(sized(mod_pow2(&x, xs) * pow2(ys) + mod_pow2(&y, ys), xs + ys)),
                    _ => Err(EvalErr::Unsized),
                },
                BinOp::LazyAnd | BinOp::LazyOr => unreachable!(),
            }
        }
        E::Tern(c, a, b) => match eval(c, env)? {
            V::Bool(true) => eval(a, env),
            V::Bool(false) => eval(b, env),
            _ => Err(EvalErr::Type("condition")),
        },
        E::Slice(inner, hi, lo) => {
            let xv = eval(inner, env)?;
            let Some((x, xs)) = as_int(&xv, true)? else { return Err(EvalErr::Type("slice operand")) };
            let hi = to_usize(&eval(hi, env)?)?;
            let lo = to_usize(&eval(lo, env)?)?;
            if hi < lo {
                return Err(EvalErr::SliceRange); // inverted bounds, also when only by one (`x[3:4]`)
            }
            if matches!(xv, V::Str { .. }) && hi + 1 > xs.unwrap_or(0) {
                return Err(EvalErr::Unspecified("slice of a string beyond its size"));
            }
            Ok(sized(slice_bits(&x, hi + 1, lo), hi + 1 - lo))
        }
        E::SliceShort(inner, n) => {
            let xv = eval(inner, env)?;
            let Some((x, xs)) = as_int(&xv, true)? else { return Err(EvalErr::Type("slice operand")) };
            let n = to_usize(&eval(n, env)?)?;
            if matches!(xv, V::Str { .. }) && n > xs.unwrap_or(0) {
                return Err(EvalErr::Unspecified("slice of a string beyond its size"));
            }
            Ok(sized(slice_bits(&x, n, 0), n))
        }
        E::Call(name, args) => {
            let mut vals = Vec::new();
            for a in args {
                vals.push(eval(a, env)?);
            }
            call_builtin(name, &vals)
        }
    }
}

pub fn call_builtin(name: &str, vals: &[V]) -> R {
    match name {
        "le" => {
            if vals.len() != 1 {
                return Err(EvalErr::Other("arity"));
            }
            match &vals[0] {
                V::Int { v, size: Some(size) } => {
                    if size % 8 != 0 {
                        return Err(EvalErr::Other("le size"));
                    }
                    let pat = mod_pow2(v, *size);
                    let mut bytes = pat.to_bytes_le().1;
                    bytes.resize(size / 8, 0);
                    // little-endian byte string read as big-endian number
                    Ok(sized(BigInt::from_bytes_be(Sign::Plus, &bytes), *size))
                }
                V::Int { size: None, .. } => Err(EvalErr::Unsized),
                _ => Err(EvalErr::Type("le operand")),
            }
        }
        "sizeof" => {
            if vals.len() != 1 {
                return Err(EvalErr::Other("arity"));
            }
            match &vals[0] {
                V::Int { size: Some(s), .. } => Ok(int(*s)),
                V::Int { size: None, .. } => Err(EvalErr::Unsized),
                V::Str { s, enc } => Ok(int(encode(s, *enc)?.len() * 8)),
                _ => Err(EvalErr::Type("sizeof operand")),
            }
        }
        "strlen" => {
            if vals.len() != 1 {
                return Err(EvalErr::Other("arity"));
            }
            match &vals[0] {
                V::Str { s, .. } => Ok(int(s.len())),
                _ => Err(EvalErr::Type("strlen operand")),
            }
        }
        "assert" => {
            if vals.is_empty() || vals.len() > 2 {
                return Err(EvalErr::Other("arity"));
            }
            match &vals[0] {
                V::Bool(true) => Ok(V::Void),
                V::Bool(false) => Err(EvalErr::AssertFailed),
                _ => Err(EvalErr::Type("assert operand")),
            }
        }
        n => {
            if let Some(enc) = Enc::from_name(n) {
                if vals.len() != 1 {
                    return Err(EvalErr::Other("arity"));
                }
                match &vals[0] {
                    V::Str { s, .. } => Ok(V::Str { s: s.clone(), enc }),
                    _ => Err(EvalErr::Type("encoding operand")),
                }
            } else {
                Err(EvalErr::Other("unknown function"))
            }
        }
    }
}

/// the bit pattern a value contributes when emitted / concatenated: (pattern, size)
pub fn pattern_of(v: &V) -> Result<Option<(BigInt, usize)>, EvalErr> {
    match v {
        V::Int { v, size: Some(s) } => Ok(Some((mod_pow2(v, *s), *s))),
        V::Int { size: None, .. } => Ok(None),
        V::Str { s, enc } => str_pattern(s, *enc).map(Some),
        _ => Ok(None),
    }
}

// ---------------------------------------------------------------------------------------
// pretty printer

pub fn level_of(e: &E) -> u8 {
    match e {
        E::Lit { .. } | E::Bool(_) | E::Str { .. } | E::Var(_) => LEVEL_LEAF,
        E::Un(..) => LEVEL_UNARY,
        E::Bin(op, ..) => op.level(),
        E::Tern(..) => LEVEL_TERNARY,
        E::Slice(..) => LEVEL_SLICE,
        E::SliceShort(..) => LEVEL_SLICESHORT,
        E::Call(..) => LEVEL_CALL,
        E::Block(..) => LEVEL_LEAF,
    }
}

fn paren_if(e: &E, min_level: u8, full: bool) -> String {
    let s = print(e, full);
    let is_leaf = level_of(e) == LEVEL_LEAF;
    if level_of(e) < min_level || (full && !is_leaf) {
        format!("({})", s)
    } else {
        s
    }
}

/// `full` = parenthesise every non-leaf operand; otherwise only where the precedence table needs it
pub fn print(e: &E, full: bool) -> String {
    match e {
        E::Lit { text, .. } => text.clone(),
        E::Bool(b) => b.to_string(),
        E::Str { src, .. } => format!("\"{}\"", src),
        E::Var(n) => n.clone(),
        E::Un(op, a) => {
            let o = match op {
                UnOp::Neg => "-",
                UnOp::Not => "!",
            };
            format!("{}{}", o, paren_if(a, LEVEL_UNARY, full))
        }
        E::Bin(op, a, b) => {
            let l = op.level();
            format!("{} {} {}", paren_if(a, l, full), op.text(), paren_if(b, l + 1, full))
        }
        E::Tern(c, a, b) => {
            // condition is parsed one level above the ternary; branches are full expressions,
            // but a nested ternary in the true branch or a slice context is always parenthesised
            format!("{} ? {} : {}", paren_if(c, 2, full), paren_if(a, 2, full), paren_if(b, 2, full))
        }
        E::Slice(inner, hi, lo) => {
            format!("{}[{}:{}]", paren_if(inner, LEVEL_SLICESHORT, full), paren_if(hi, 2, full), paren_if(lo, 2, full))
        }
        E::SliceShort(inner, n) => {
            format!("{}`{}", paren_if(inner, LEVEL_UNARY, full), paren_if(n, LEVEL_LEAF, full))
        }
        E::Call(name, args) => {
            let args: Vec<String> = args
                .iter()
                .map(|a| if level_of(a) < 2 { format!("({})", print(a, full)) } else { print(a, full) })
                .collect();
            format!("{}({})", name, args.join(", "))
        }
        E::Block(es) => format!("{{ {} }}", es.iter().map(|e| print(e, full)).collect::<Vec<_>>().join(", ")),
    }
}

pub fn depth(e: &E) -> usize {
    match e {
        E::Lit { .. } | E::Bool(_) | E::Str { .. } | E::Var(_) => 1,
        E::Un(_, a) => 1 + depth(a),
        E::Bin(_, a, b) => 1 + depth(a).max(depth(b)),
        E::Tern(a, b, c) => 1 + depth(a).max(depth(b)).max(depth(c)),
        E::Slice(a, b, c) => 1 + depth(a).max(depth(b)).max(depth(c)),
        E::SliceShort(a, b) => 1 + depth(a).max(depth(b)),
        E::Call(_, args) | E::Block(args) => 1 + args.iter().map(depth).max().unwrap_or(0),
    }
}

/// operator classes present (for the non-triviality rule)
pub fn op_classes(e: &E, out: &mut std::collections::BTreeSet<&'static str>) {
    match e {
        E::Lit { .. } | E::Bool(_) | E::Str { .. } | E::Var(_) => {}
        E::Un(op, a) => {
            out.insert(match op {
                UnOp::Neg => "neg",
                UnOp::Not => "not",
            });
            op_classes(a, out);
        }
        E::Bin(op, a, b) => {
            use BinOp::*;
            out.insert(match op {
                Concat => "concat",
                LazyOr | LazyAnd => "lazy",
                Eq | Ne | Lt | Le | Gt | Ge => "rel",
                Or | Xor | And => "bitwise",
                Shl | Shr => "shift",
                Add | Sub => "add",
                Mul | Div | Mod => "mul",
            });
            op_classes(a, out);
            op_classes(b, out);
        }
        E::Tern(a, b, c) => {
            out.insert("ternary");
            op_classes(a, out);
            op_classes(b, out);
            op_classes(c, out);
        }
        E::Slice(a, b, c) => {
            out.insert("slice");
            op_classes(a, out);
            op_classes(b, out);
            op_classes(c, out);
        }
        E::SliceShort(a, b) => {
            out.insert("sliceshort");
            op_classes(a, out);
            op_classes(b, out);
        }
        E::Call(_, args) => {
            out.insert("call");
            for a in args {
                op_classes(a, out);
            }
        }
        E::Block(args) => {
            for a in args {
                op_classes(a, out);
            }
        }
    }
}

/// ordered pairs (outer level, inner level) of adjacent operators printed WITHOUT parentheses
/// in minimal mode - these are what exercises the precedence table
pub fn unparenthesised_pairs(e: &E, out: &mut Vec<(u8, u8)>) {
    let mut child = |c: &E, min: u8, outer: u8| {
        let l = level_of(c);
        if l != LEVEL_LEAF && l >= min {
            out.push((outer, l));
        }
    };
    match e {
        E::Un(_, a) => child(a, LEVEL_UNARY, LEVEL_UNARY),
        E::Bin(op, a, b) => {
            child(a, op.level(), op.level());
            child(b, op.level() + 1, op.level());
        }
        E::Slice(inner, ..) => child(inner, LEVEL_SLICESHORT, LEVEL_SLICE),
        E::SliceShort(inner, _) => child(inner, LEVEL_UNARY, LEVEL_SLICESHORT),
        _ => {}
    }
    match e {
        E::Lit { .. } | E::Bool(_) | E::Str { .. } | E::Var(_) => {}
        E::Un(_, a) => unparenthesised_pairs(a, out),
        E::Bin(_, a, b) => {
            unparenthesised_pairs(a, out);
            unparenthesised_pairs(b, out);
        }
        E::Tern(a, b, c) | E::Slice(a, b, c) => {
            unparenthesised_pairs(a, out);
            unparenthesised_pairs(b, out);
            unparenthesised_pairs(c, out);
        }
        E::SliceShort(a, b) => {
            unparenthesised_pairs(a, out);
            unparenthesised_pairs(b, out);
        }
        E::Call(_, args) | E::Block(args) => {
            for a in args {
                unparenthesised_pairs(a, out);
            }
        }
    }
}

pub fn has_wide_or_negative_bitop(e: &E, env: &Env) -> bool {
    // an operand > 64 bits anywhere, or a negative operand of a shift/slice/bitwise operator
    fn wide(e: &E, env: &Env) -> bool {
        matches!(eval(e, env), Ok(V::Int { ref v, .. }) if bitlen(v) > 64)
    }
    fn neg(e: &E, env: &Env) -> bool {
        matches!(eval(e, env), Ok(V::Int { ref v, .. }) if v.is_negative())
    }
    match e {
        E::Lit { .. } | E::Bool(_) | E::Str { .. } | E::Var(_) => wide(e, env),
        E::Un(op, a) => wide(e, env) || (*op == UnOp::Not && neg(a, env)) || has_wide_or_negative_bitop(a, env),
        E::Bin(op, a, b) => {
            use BinOp::*;
            wide(e, env)
                || (matches!(op, Shl | Shr | And | Or | Xor) && (neg(a, env) || neg(b, env)))
                || has_wide_or_negative_bitop(a, env)
                || has_wide_or_negative_bitop(b, env)
        }
        E::Tern(a, b, c) => has_wide_or_negative_bitop(a, env) || has_wide_or_negative_bitop(b, env) || has_wide_or_negative_bitop(c, env),
        E::Slice(a, b, c) => neg(a, env) || has_wide_or_negative_bitop(a, env) || has_wide_or_negative_bitop(b, env) || has_wide_or_negative_bitop(c, env),
        E::SliceShort(a, b) => neg(a, env) || has_wide_or_negative_bitop(a, env) || has_wide_or_negative_bitop(b, env),
        E::Call(_, args) | E::Block(args) => args.iter().any(|a| has_wide_or_negative_bitop(a, env)),
    }
}
