pub mod expr;
