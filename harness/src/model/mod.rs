pub mod expr;
pub mod isa;
pub mod program;
pub mod refasm;
pub mod formats;
pub mod invariants;
pub mod incl;
