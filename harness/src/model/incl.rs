//! R-PATH / R-INCL: reference path navigation and inclusion expansion.

use std::collections::{HashMap, HashSet};

pub const STD_PREFIX: &str = "<std>/";

/// navigate(current, rel): Ok(resolved name) or Err(reason)
pub fn navigate(current: &str, rel: &str) -> Result<String, &'static str> {
    if rel.starts_with(STD_PREFIX) {
        // names the built-in library only; the caller checks that it is one of its files
        return Ok(rel.to_string());
    }
    let current = current.replace('\\', "/");
    let nav = rel.replace('\\', "/");
    let mut comps: Vec<String> = current.split('/').map(|s| s.to_string()).collect();
    comps.pop(); // the file name
    if nav.starts_with('/') {
        comps.clear(); // a leading slash restarts at the project root
    }
    let added: Vec<&str> = nav.split('/').filter(|s| !s.is_empty() && *s != ".").collect();
    if added.is_empty() {
        return Err("empty path");
    }
    for a in added {
        comps.push(a.to_string());
    }
    let mut out: Vec<String> = Vec::new();
    for c in comps {
        if c == ".." {
            if out.pop().is_none() {
                return Err("leaves the project directory");
            }
        } else {
            out.push(c);
        }
    }
    if out.is_empty() {
        return Err("empty path");
    }
    Ok(out.join("/"))
}

#[derive(Clone, Debug)]
pub enum Entry {
    Marker(u8),
    Include(String),
}

#[derive(Clone, Debug, Default)]
pub struct SrcFile {
    pub once: bool,
    pub entries: Vec<Entry>,
}

pub fn file_text(f: &SrcFile) -> String {
    let mut s = String::new();
    let once_at = if f.once { f.entries.len() / 2 } else { usize::MAX };
    for (i, e) in f.entries.iter().enumerate() {
        if i == once_at {
            s.push_str("#once\n");
        }
        match e {
            Entry::Marker(m) => s.push_str(&format!("#d8 {}\n", m)),
            Entry::Include(p) => s.push_str(&format!("#include \"{}\"\n", p.replace('\\', "\\\\"))),
        }
    }
    if f.once && once_at >= f.entries.len() {
        s.push_str("#once\n");
    }
    s
}

fn go(
        files: &HashMap<String, SrcFile>,
        std_names: &HashSet<String>,
        name: &str,
        stack: &mut Vec<String>,
        once: &mut HashSet<String>,
        out: &mut Vec<u8>,
        budget: &mut usize,
        std_count: &mut usize,
    ) -> Result<(), String> {
        if once.contains(name) {
            return Ok(());
        }
        if *budget == 0 {
            return Err("expansion too large".into());
        }
        *budget -= 1;
        let Some(f) = files.get(name) else {
            return Err(format!("file not found: {}", name));
        };
        if f.once {
            once.insert(name.to_string());
        }
        stack.push(name.to_string());
        for e in &f.entries {
            match e {
                Entry::Marker(m) => out.push(*m),
                Entry::Include(p) => {
                    let target = navigate(name, p).map_err(|e| format!("`{}` in {}: {}", p, name, e))?;
                    if target.starts_with(STD_PREFIX) && !std_names.contains(&target) && !files.contains_key(&target) {
                        return Err(format!("`{}` is not a file of the built-in library", target));
                    }
                    if stack.contains(&target) {
                        if once.contains(&target) {
                            // a #once file reached again from inside itself: the statement does not say
                            // whether "once" or "cycle" wins
                            return Err("unspecified: cycle through a #once file".into());
                        }
                        return Err(format!("inclusion cycle through {}", target));
                    }
                    if target.starts_with(STD_PREFIX) {
                        *std_count += 1;
                        if *std_count > 1 {
                            return Err("unspecified: library file included twice (it declares named rule blocks)".into());
                        }
                    }
                    go(files, std_names, &target, stack, once, out, budget, std_count)?;
                }
            }
        }
        stack.pop();
        Ok(())
}

/// depth-first expansion: Ok(marker sequence) or Err(reason)
pub fn expand(files: &HashMap<String, SrcFile>, std_names: &HashSet<String>, root: &str) -> Result<Vec<u8>, String> {
    expand_many(files, std_names, &[root])
}

/// several root files given on the command line: expanded one after the other; the set of #once files and the
/// library count are shared, the inclusion stack is per root
pub fn expand_many(files: &HashMap<String, SrcFile>, std_names: &HashSet<String>, roots: &[&str]) -> Result<Vec<u8>, String> {
    let mut out = Vec::new();
    let mut budget = 400;
    let mut once = HashSet::new();
    let mut std_count = 0;
    for root in roots {
        go(files, std_names, root, &mut vec![], &mut once, &mut out, &mut budget, &mut std_count)?;
    }
    Ok(out)
}
