//! R-PATH / R-INCL: reference path navigation and inclusion expansion.

use std::collections::{HashMap, HashSet};

pub const STD_PREFIX: &str = "<std>/";

/// navigate(current, rel): Ok(resolved name) or Err(reason)
pub fn navigate(current: &str, rel: &str) -> Result<String, &'static str> {
    if rel.starts_with(STD_PREFIX) {
        // names the built-in library only; the caller checks that it is one of its files
        return Ok(rel.to_string());
    }
    let current = current.replace('\\', "/");
    let nav = rel.replace('\\', "/");
    let mut comps: Vec<String> = current.split('/').map(|s| s.to_string()).collect();
    comps.pop(); // the file name
    if nav.starts_with('/') {
        comps.clear(); // a leading slash restarts at the project root
    }
    let added: Vec<&str> = nav.split('/').filter(|s| !s.is_empty() && *s != ".").collect();
    if added.is_empty() {
        return Err("empty path");
    }
    for a in added {
        comps.push(a.to_string());
    }
    let mut out: Vec<String> = Vec::new();
    for c in comps {
        if c == ".." {
            if out.pop().is_none() {
                return Err("leaves the project directory");
            }
        } else {
            out.push(c);
        }
    }
    if out.is_empty() {
        return Err("empty path");
    }
    Ok(out.join("/"))
}

#[derive(Clone, Debug)]
pub enum Entry {
    Marker(u8),
    Include(String),
    /// a conditional block with constant conditions: the entries of the arm that is taken, those of the arm that is
    /// not, and the way it is written (0: `#if 1 == 1 {taken} #else {dead}`, 1: `#if 1 == 0 {dead} #else {taken}`,
    /// 2: `#if false {dead} #elif true {taken}`, 3: `#if true {taken}` with the dead entries dropped)
    Cond { taken: Vec<Entry>, dead: Vec<Entry>, form: u8 },
}

#[derive(Clone, Debug, Default)]
pub struct SrcFile {
    pub once: bool,
    pub entries: Vec<Entry>,
}

fn entries_text(s: &mut String, entries: &[Entry], indent: &str) {
    for e in entries {
        match e {
            Entry::Marker(m) => s.push_str(&format!("{}#d8 {}\n", indent, m)),
            Entry::Include(p) => s.push_str(&format!("{}#include \"{}\"\n", indent, p.replace('\\', "\\\\"))),
            Entry::Cond { taken, dead, form } => {
                let inner = format!("{}    ", indent);
                let mut arm = |s: &mut String, head: &str, es: &[Entry]| {
                    s.push_str(&format!("{}{}\n{}{{\n", indent, head, indent));
                    entries_text(s, es, &inner);
                    s.push_str(&format!("{}}}\n", indent));
                };
                match form % 4 {
                    0 => {
                        arm(s, "#if 1 == 1", taken);
                        arm(s, "#else", dead);
                    }
                    1 => {
                        arm(s, "#if 1 == 0", dead);
                        arm(s, "#else", taken);
                    }
                    2 => {
                        arm(s, "#if false", dead);
                        arm(s, "#elif true", taken);
                    }
                    _ => arm(s, "#if true", taken),
                }
            }
        }
    }
}

pub fn file_text(f: &SrcFile) -> String {
    let mut s = String::new();
    let once_at = if f.once { f.entries.len() / 2 } else { usize::MAX };
    for (i, e) in f.entries.iter().enumerate() {
        if i == once_at {
            s.push_str("#once\n");
        }
        entries_text(&mut s, std::slice::from_ref(e), "");
    }
    if f.once && once_at >= f.entries.len() {
        s.push_str("#once\n");
    }
    s
}

fn go(
        files: &HashMap<String, SrcFile>,
        std_names: &HashSet<String>,
        name: &str,
        stack: &mut Vec<String>,
        once: &mut HashSet<String>,
        out: &mut Vec<u8>,
        budget: &mut usize,
        std_count: &mut usize,
        in_cond: bool,
        dead: bool,
    ) -> Result<(), String> {
        if once.contains(name) {
            return Ok(());
        }
        if *budget == 0 {
            return Err("expansion too large".into());
        }
        *budget -= 1;
        let Some(f) = files.get(name) else {
            return Err(format!("file not found: {}", name));
        };
        if f.once {
            if in_cond {
                // whether an inclusion inside an #if block takes effect is only known later: it cannot be "the one"
                return Err(format!("{}: once-file included from inside a conditional block", name));
            }
            once.insert(name.to_string());
        }
        stack.push(name.to_string());
        go_entries(files, std_names, name, &f.entries, stack, once, out, budget, std_count, in_cond, dead)?;
        stack.pop();
        Ok(())
}

#[allow(clippy::too_many_arguments)]
fn go_entries(
        files: &HashMap<String, SrcFile>,
        std_names: &HashSet<String>,
        name: &str,
        entries: &[Entry],
        stack: &mut Vec<String>,
        once: &mut HashSet<String>,
        out: &mut Vec<u8>,
        budget: &mut usize,
        std_count: &mut usize,
        in_cond: bool,
        dead: bool,
    ) -> Result<(), String> {
        for e in entries {
            match e {
                Entry::Marker(m) => {
                    if !dead {
                        out.push(*m)
                    }
                }
                Entry::Cond { taken, dead: not_taken, form } => {
                    // inclusions are resolved in BOTH arms, in the order in which the arms are written
                    let t_first = form % 4 == 0 || form % 4 == 3;
                    let not_taken: &[Entry] = if form % 4 == 3 { &[] } else { not_taken };
                    if t_first {
                        go_entries(files, std_names, name, taken, stack, once, out, budget, std_count, true, dead)?;
                        go_entries(files, std_names, name, not_taken, stack, once, out, budget, std_count, true, true)?;
                    } else {
                        go_entries(files, std_names, name, not_taken, stack, once, out, budget, std_count, true, true)?;
                        go_entries(files, std_names, name, taken, stack, once, out, budget, std_count, true, dead)?;
                    }
                }
                Entry::Include(p) => {
                    let target = navigate(name, p).map_err(|e| format!("`{}` in {}: {}", p, name, e))?;
                    if target.starts_with(STD_PREFIX) && !std_names.contains(&target) && !files.contains_key(&target) {
                        return Err(format!("`{}` is not a file of the built-in library", target));
                    }
                    if stack.contains(&target) {
                        if once.contains(&target) {
                            // a #once file reached again from inside itself: the statement does not say
                            // whether "once" or "cycle" wins
                            return Err("unspecified: cycle through a #once file".into());
                        }
                        return Err(format!("inclusion cycle through {}", target));
                    }
                    if target.starts_with(STD_PREFIX) && !dead {
                        *std_count += 1;
                        if *std_count > 1 {
                            return Err("unspecified: library file included twice (it declares named rule blocks)".into());
                        }
                    }
                    go(files, std_names, &target, stack, once, out, budget, std_count, in_cond, dead)?;
                }
            }
        }
        Ok(())
}

/// depth-first expansion: Ok(marker sequence) or Err(reason)
pub fn expand(files: &HashMap<String, SrcFile>, std_names: &HashSet<String>, root: &str) -> Result<Vec<u8>, String> {
    expand_many(files, std_names, &[root])
}

/// several root files given on the command line: expanded one after the other; the set of #once files and the
/// library count are shared, the inclusion stack is per root
pub fn expand_many(files: &HashMap<String, SrcFile>, std_names: &HashSet<String>, roots: &[&str]) -> Result<Vec<u8>, String> {
    let mut out = Vec::new();
    let mut budget = 400;
    let mut once = HashSet::new();
    let mut std_count = 0;
    for root in roots {
        go(files, std_names, root, &mut vec![], &mut once, &mut out, &mut budget, &mut std_count, false, false)?;
    }
    Ok(out)
}
