//! C06 part 2: layout invariants that must hold on EVERY successful assembly.

use crate::engine::sut::AsmOk;
use num_bigint::BigInt;
use num_traits::ToPrimitive;

/// None = all invariants hold
pub fn check_layout(ok: &AsmOk) -> Option<(String, String)> {
    let custom = ok.banks.len() > 1;
    // 1. no two spans with size > 0 intersect
    let mut ivs: Vec<(usize, usize)> = ok.spans.iter().filter(|s| s.size > 0).filter_map(|s| s.offset.map(|o| (o, o + s.size))).collect();
    ivs.sort();
    for k in 1..ivs.len() {
        if ivs[k].0 < ivs[k - 1].1 {
            return Some(("items-overlap".into(), format!("emitted items [{}, {}) and [{}, {}) share output bits", ivs[k - 1].0, ivs[k - 1].1, ivs[k].0, ivs[k].1)));
        }
    }
    // 2. every span lies in the window of some bank, at the position its address dictates
    for s in &ok.spans {
        let Some(off) = s.offset else {
            // only labels in banks without output have no position
            if s.size != 0 {
                return Some(("item-without-position".into(), format!("an item of {} bits has no output position", s.size)));
            }
            continue;
        };
        let mut fits = false;
        for (bi, b) in ok.banks.iter().enumerate() {
            if custom && bi == 0 {
                continue; // the default bank may not be used once banks are defined
            }
            let Some(outp) = b.outp else { continue };
            if off < outp {
                continue;
            }
            let rel = off - outp;
            if let Some(sz) = b.size {
                if rel + s.size > sz {
                    continue;
                }
            }
            // offset = outp + (a - addr) * unit + k, 0 <= k < unit
            if b.unit == 0 {
                continue;
            }
            let a = &b.addr + BigInt::from(rel / b.unit);
            if a == s.addr {
                fits = true;
                break;
            }
        }
        if !fits {
            return Some((
                "item-outside-every-bank".into(),
                format!("item at output bit {} ({} bits, address {:#x}) lies in no bank's window at the position its address dictates; banks: {:?}", off, s.size, s.addr, ok.banks),
            ));
        }
    }
    // 3. every bit outside all spans is zero
    let mut covered = vec![false; ok.bits.len()];
    for (a, b) in &ivs {
        for k in *a..(*b).min(covered.len()) {
            covered[k] = true;
        }
    }
    for (k, bit) in ok.bits.iter().enumerate() {
        if *bit && !covered[k] {
            return Some(("nonzero-gap".into(), format!("output bit {} is 1 but no item was written there", k)));
        }
    }
    // 4. length = max(last written bit + 1, end of the last filled bank)
    let mut want = ok.spans.iter().filter_map(|s| s.offset.map(|o| (o, s.size))).filter(|(_, sz)| *sz > 0).map(|(o, sz)| o + sz).max().unwrap_or(0);
    // a zero-size *written* item extends the output up to its position; spans do not tell labels from
    // empty encodings, so only an upper and a lower bound can be stated for them
    let zero_max = ok.spans.iter().filter(|s| s.size == 0).filter_map(|s| s.offset).max().unwrap_or(0);
    for b in ok.banks.iter().skip(1) {
        if let (true, Some(sz), Some(o)) = (b.fill, b.size, b.outp) {
            want = want.max(o + sz);
        }
    }
    let len = ok.bits.len();
    if len < want || len > want.max(zero_max) {
        return Some(("output-length".into(), format!("output has {} bits; last written bit / end of the last filled bank is at {}", len, want)));
    }
    let _ = |x: &BigInt| x.to_usize();
    None
}
