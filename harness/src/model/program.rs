//! Structured programs (what the generators build, what the reference assembler consumes,
//! what the renderer prints).

use super::expr::*;
use super::isa::*;

#[derive(Clone, Debug, PartialEq, Default)]
pub struct BankDef {
    pub name: String,
    pub bits: Option<usize>,
    pub addr: Option<i64>,
    pub size: Option<usize>,
    pub outp: Option<usize>, // in bits
    pub fill: bool,
    pub labelalign: Option<usize>,
}

#[derive(Clone, Debug, PartialEq)]
pub enum Item {
    Label { dots: usize, name: String },
    Const { dots: usize, name: String, e: E, noemit: bool },
    Instr(Instr),
    /// #dN e, e  /  #d e
    Data { width: Option<usize>, elems: Vec<E> },
    Res(E),
    Align(E),
    Addr(E),
    BankDef(BankDef),
    Bank(String),
    /// raw line the model does not interpret (only for renderers/tests that say so)
    Raw(String),
}

#[derive(Clone, Debug, PartialEq, Default)]
pub struct Program {
    pub isa: Isa,
    pub items: Vec<Item>,
}

pub fn bankdef_text(b: &BankDef) -> String {
    let mut f = Vec::new();
    if let Some(v) = b.bits {
        f.push(format!("bits = {}", v));
    }
    if let Some(v) = b.addr {
        f.push(format!("addr = {}", v));
    }
    if let Some(v) = b.size {
        f.push(format!("size = {}", v));
    }
    if let Some(v) = b.outp {
        f.push(format!("outp = {}", v));
    }
    if let Some(v) = b.labelalign {
        f.push(format!("labelalign = {}", v));
    }
    if b.fill {
        f.push("fill".to_string());
    }
    format!("#bankdef {}\n{{\n    {}\n}}", b.name, f.join("\n    "))
}

pub fn item_text(it: &Item) -> String {
    match it {
        Item::Label { dots, name } => format!("{}{}:", ".".repeat(*dots), name),
        Item::Const { dots, name, e, noemit } => {
            if *noemit {
                format!("#const(noemit) {}{} = {}", ".".repeat(*dots), name, print(e, false))
            } else {
                format!("{}{} = {}", ".".repeat(*dots), name, print(e, false))
            }
        }
        Item::Instr(i) => instr_text(i),
        Item::Data { width, elems } => {
            let w = width.map(|w| w.to_string()).unwrap_or_default();
            format!("#d{} {}", w, elems.iter().map(|e| print(e, false)).collect::<Vec<_>>().join(", "))
        }
        Item::Res(e) => format!("#res {}", print(e, false)),
        Item::Align(e) => format!("#align {}", print(e, false)),
        Item::Addr(e) => format!("#addr {}", print(e, false)),
        Item::BankDef(b) => bankdef_text(b),
        Item::Bank(n) => format!("#bank {}", n),
        Item::Raw(s) => s.clone(),
    }
}

/// plain rendering: rule blocks first, then one item per line; returns the text and, for each
/// item, the 0-based line on which it starts
pub fn render(p: &Program) -> (String, Vec<usize>) {
    let mut s = isa_text(&p.isa);
    let mut lines = Vec::new();
    for it in &p.items {
        lines.push(s.matches('\n').count());
        s.push_str(&item_text(it));
        s.push('\n');
    }
    (s, lines)
}
