//! R-FMT (binary-data part): one independent decoder per output format.  Each decoder parses
//! the text by that format's own rules and returns the bits it carries (plus format-specific
//! structure checks), or an error string describing what is malformed.

pub type Bits = Vec<bool>;

pub fn pad(bits: &[bool], granule: usize) -> Bits {
    let mut b = bits.to_vec();
    if granule > 0 {
        while b.len() % granule != 0 {
            b.push(false);
        }
    }
    b
}

fn push_value(out: &mut Bits, v: u64, nbits: usize) {
    for k in (0..nbits).rev() {
        out.push((v >> k) & 1 == 1);
    }
}

pub fn decode_binary(data: &[u8]) -> Result<Bits, String> {
    let mut out = Vec::new();
    for b in data {
        push_value(&mut out, *b as u64, 8);
    }
    Ok(out)
}

pub fn decode_digit_string(text: &str, bits_per_digit: usize) -> Result<Bits, String> {
    let mut out = Vec::new();
    for c in text.chars() {
        let d = c.to_digit(1 << bits_per_digit).ok_or_else(|| format!("bad digit {:?}", c))?;
        if c.is_ascii_uppercase() {
            return Err(format!("upper-case digit {:?}", c));
        }
        push_value(&mut out, d as u64, bits_per_digit);
    }
    Ok(out)
}

/// bindump / hexdump. `len` = number of bits the output really has (needed to know which digits
/// must be present and which must be `.`)
pub fn decode_dump(text: &str, digit_bits: usize, bytes_per_line: usize, len: usize) -> Result<Bits, String> {
    let mut out: Bits = Vec::new();
    let digits_per_byte = 8 / digit_bits;
    let lines: Vec<&str> = text.lines().collect();
    let nbytes = (len + 7) / 8;
    let expected_lines = ((nbytes + bytes_per_line - 1) / bytes_per_line).max(1);
    if lines.len() != expected_lines {
        return Err(format!("{} lines, expected {}", lines.len(), expected_lines));
    }
    let mut addr_width = None;
    for (li, line) in lines.iter().enumerate() {
        let parts: Vec<&str> = line.split('|').collect();
        if parts.len() != 4 {
            return Err(format!("line {}: expected `addr | data | ascii |`, got {:?}", li, line));
        }
        let a = parts[0].trim();
        let addr = usize::from_str_radix(a, 16).map_err(|_| format!("line {}: bad address {:?}", li, a))?;
        if addr != li * bytes_per_line {
            return Err(format!("line {}: address {:#x}, expected {:#x}", li, addr, li * bytes_per_line));
        }
        match addr_width {
            None => addr_width = Some(a.len()),
            Some(w) if w != a.len() => return Err("address column width varies".into()),
            _ => {}
        }
        let digits: Vec<char> = parts[1].chars().filter(|c| !c.is_whitespace()).collect();
        if digits.len() != bytes_per_line * digits_per_byte {
            return Err(format!("line {}: {} digit positions, expected {}", li, digits.len(), bytes_per_line * digits_per_byte));
        }
        for (k, c) in digits.iter().enumerate() {
            let first_bit = (li * bytes_per_line * digits_per_byte + k) * digit_bits;
            if first_bit >= len {
                if *c != '.' {
                    return Err(format!("line {}: digit position {} lies past the end but shows {:?}", li, k, c));
                }
            } else {
                let d = c.to_digit(1 << digit_bits).ok_or_else(|| format!("line {}: bad digit {:?}", li, c))?;
                push_value(&mut out, d as u64, digit_bits);
            }
        }
        // ASCII column: one character per byte, '.' past the end
        let ascii: Vec<char> = parts[2].chars().collect();
        // the column is " " + bytes_per_line chars + " "
        if ascii.len() != bytes_per_line + 2 {
            return Err(format!("line {}: ASCII column has {} characters", li, ascii.len()));
        }
        for k in 0..bytes_per_line {
            let first_bit = (li * bytes_per_line + k) * 8;
            let shown = ascii[1 + k];
            if first_bit >= len {
                if shown != '.' {
                    return Err(format!("line {}: ASCII position {} past the end shows {:?}", li, k, shown));
                }
            } else {
                // the byte value from the digits of this line (zero-extended past the end)
                let mut v = 0u32;
                for d in 0..digits_per_byte {
                    let c = digits[k * digits_per_byte + d];
                    let dv = if c == '.' { 0 } else { c.to_digit(1 << digit_bits).unwrap_or(0) };
                    v = (v << digit_bits) | dv;
                }
                let expect = match v as u8 {
                    b' ' | b'\t' | b'\r' | b'\n' => ' ',
                    b if b >= 0x80 || b < 0x20 || b == b'|' => '.',
                    b => b as char,
                };
                // a literal '|' byte is shown as '.', so splitting on '|' is safe
                if shown != expect {
                    return Err(format!("line {}: ASCII position {} shows {:?} for byte {:#x}", li, k, shown, v));
                }
            }
        }
    }
    Ok(out)
}

pub fn decode_mif(text: &str) -> Result<Bits, String> {
    let mut lines = text.lines();
    let depth_line = lines.next().ok_or("empty")?;
    let depth: usize = depth_line
        .strip_prefix("DEPTH = ")
        .and_then(|s| s.strip_suffix(';'))
        .and_then(|s| s.parse().ok())
        .ok_or_else(|| format!("bad DEPTH line {:?}", depth_line))?;
    for want in ["WIDTH = 8;", "ADDRESS_RADIX = HEX;", "DATA_RADIX = HEX;", "", "CONTENT", "BEGIN"] {
        let l = lines.next().ok_or("truncated header")?;
        if l != want {
            return Err(format!("header line {:?}, expected {:?}", l, want));
        }
    }
    let mut out = Vec::new();
    let mut next_addr = 0usize;
    let mut ended = false;
    for l in lines {
        if ended {
            return Err("text after END;".into());
        }
        if l == "END;" {
            ended = true;
            continue;
        }
        let (a, d) = l.trim().split_once(": ").ok_or_else(|| format!("bad content line {:?}", l))?;
        let addr = usize::from_str_radix(a, 16).map_err(|_| format!("bad address {:?}", a))?;
        if addr != next_addr {
            return Err(format!("address {:#x}, expected {:#x}", addr, next_addr));
        }
        next_addr += 1;
        let d = d.strip_suffix(';').ok_or("missing ;")?;
        if d.len() != 2 {
            return Err(format!("data {:?} is not two digits", d));
        }
        let v = u8::from_str_radix(d, 16).map_err(|_| format!("bad data {:?}", d))?;
        push_value(&mut out, v as u64, 8);
    }
    if !ended {
        return Err("missing END;".into());
    }
    if next_addr != depth {
        return Err(format!("DEPTH = {} but {} words listed", depth, next_addr));
    }
    Ok(out)
}

#[derive(Debug, Clone)]
pub struct HexRecord {
    pub bit_offset: usize,
    pub data: Vec<u8>,
}

/// Intel HEX: returns the data records (with their bit offset = address * unit)
pub fn decode_intelhex(text: &str, unit: usize) -> Result<Vec<HexRecord>, String> {
    let mut recs = Vec::new();
    let mut eof = false;
    for l in text.lines() {
        if eof {
            return Err("record after EOF record".into());
        }
        let l = l.trim_end();
        let body = l.strip_prefix(':').ok_or_else(|| format!("record {:?} does not start with ':'", l))?;
        if body.len() % 2 != 0 || body.len() < 10 {
            return Err(format!("record {:?} has a bad length", l));
        }
        if body.chars().any(|c| c.is_ascii_lowercase()) {
            return Err("lower-case hex in record".into());
        }
        let bytes: Vec<u8> = (0..body.len() / 2)
            .map(|i| u8::from_str_radix(&body[2 * i..2 * i + 2], 16))
            .collect::<Result<_, _>>()
            .map_err(|_| format!("bad hex in {:?}", l))?;
        let sum: u32 = bytes.iter().map(|b| *b as u32).sum();
        if sum % 256 != 0 {
            return Err(format!("checksum of {:?} is wrong", l));
        }
        let n = bytes[0] as usize;
        if bytes.len() != n + 5 {
            return Err(format!("record {:?}: length field {} but {} data bytes", l, n, bytes.len() - 5));
        }
        let addr = ((bytes[1] as usize) << 8) | bytes[2] as usize;
        match bytes[3] {
            0 => {
                if n == 0 {
                    return Err("empty data record".into());
                }
                recs.push(HexRecord { bit_offset: addr * unit, data: bytes[4..4 + n].to_vec() });
            }
            1 => {
                if l != ":00000001FF" {
                    return Err(format!("bad EOF record {:?}", l));
                }
                eof = true;
            }
            t => return Err(format!("unexpected record type {}", t)),
        }
    }
    if !eof {
        return Err("missing EOF record".into());
    }
    Ok(recs)
}

/// deccomma / hexcomma / decspace / hexspace
pub fn decode_separated(text: &str, radix: u32, sep: &str) -> Result<Bits, String> {
    let mut out = Vec::new();
    if text.is_empty() {
        return Ok(out);
    }
    // a line break follows the separator after every 16th value
    let lines: Vec<&str> = text.split('\n').collect();
    let mut count = 0usize;
    for (li, line) in lines.iter().enumerate() {
        let last_line = li + 1 == lines.len();
        let body = if last_line {
            *line
        } else {
            line.strip_suffix(sep).ok_or_else(|| format!("line {} does not end with the separator", li))?
        };
        let vals: Vec<&str> = body.split(sep).collect();
        if !last_line && vals.len() != 16 {
            return Err(format!("line {} has {} values, expected 16", li, vals.len()));
        }
        if vals.len() > 16 || vals.is_empty() {
            return Err(format!("line {} has {} values", li, vals.len()));
        }
        for v in vals {
            let n = if radix == 16 {
                let d = v.strip_prefix("0x").ok_or_else(|| format!("value {:?} lacks 0x", v))?;
                if d.len() != 2 {
                    return Err(format!("value {:?} is not two digits", v));
                }
                u8::from_str_radix(d, 16).map_err(|_| format!("bad value {:?}", v))?
            } else {
                if v.len() > 1 && v.starts_with('0') {
                    return Err(format!("value {:?} has a leading zero", v));
                }
                v.parse::<u8>().map_err(|_| format!("bad value {:?}", v))?
            };
            push_value(&mut out, n as u64, 8);
            count += 1;
        }
    }
    let _ = count;
    Ok(out)
}

pub fn decode_c_array(text: &str, radix: u32) -> Result<Bits, String> {
    let body = text
        .strip_prefix("const unsigned char data[] = {\n")
        .ok_or("bad prologue")?
        .strip_suffix("\n};")
        .ok_or("bad epilogue")?;
    let mut out = Vec::new();
    let mut index = 0usize;
    let mut addr_width = None;
    let lines: Vec<&str> = body.split('\n').collect();
    for (li, line) in lines.iter().enumerate() {
        let rest = line.strip_prefix("\t/* 0x").ok_or_else(|| format!("line {}: missing address comment", li))?;
        let (a, rest) = rest.split_once(" */ ").ok_or_else(|| format!("line {}: bad address comment", li))?;
        let addr = usize::from_str_radix(a, 16).map_err(|_| format!("bad address {:?}", a))?;
        if addr != index {
            return Err(format!("line {}: address comment {:#x} but this is byte {:#x}", li, addr, index));
        }
        match addr_width {
            None => addr_width = Some(a.len()),
            Some(w) if w != a.len() => return Err("address width varies".into()),
            _ => {}
        }
        let last_line = li + 1 == lines.len();
        let body = if last_line { rest } else { rest.strip_suffix(", ").ok_or_else(|| format!("line {}: missing trailing separator", li))? };
        if body.is_empty() {
            if lines.len() == 1 {
                return Ok(out); // empty array
            }
            return Err(format!("line {} is empty", li));
        }
        let vals: Vec<&str> = body.split(", ").collect();
        if (!last_line && vals.len() != 16) || vals.len() > 16 {
            return Err(format!("line {} has {} values", li, vals.len()));
        }
        for v in vals {
            let n = if radix == 16 {
                let d = v.strip_prefix("0x").ok_or_else(|| format!("value {:?} lacks 0x", v))?;
                if d.len() != 2 {
                    return Err(format!("value {:?} is not two digits", v));
                }
                u8::from_str_radix(d, 16).map_err(|_| format!("bad value {:?}", v))?
            } else {
                v.parse::<u8>().map_err(|_| format!("bad value {:?}", v))?
            };
            push_value(&mut out, n as u64, 8);
            index += 1;
        }
    }
    Ok(out)
}

pub fn decode_logisim(text: &str, chunk: usize) -> Result<Bits, String> {
    let body = text.strip_prefix("v2.0 raw\n").ok_or("missing `v2.0 raw` header")?;
    let mut out = Vec::new();
    for tok in body.split_whitespace() {
        if tok.len() != chunk / 4 {
            return Err(format!("value {:?} does not have {} digits", tok, chunk / 4));
        }
        let v = u64::from_str_radix(tok, 16).map_err(|_| format!("bad value {:?}", tok))?;
        push_value(&mut out, v, chunk);
    }
    Ok(out)
}
