//! G-EXPR: type-directed expression trees over every operator and literal form.

use crate::engine::Tape;
use crate::model::expr::*;
use num_bigint::BigInt;
use num_traits::{One, Zero};

pub const BITLENS: &[usize] = &[0, 1, 2, 3, 4, 7, 8, 9, 15, 16, 17, 31, 32, 33, 63, 64, 65, 127, 128, 129, 200];

/// a non-negative magnitude with a "interesting" bit length
pub fn magnitude(t: &mut Tape) -> BigInt {
    let small = t.chance(3, 5) || t.exhausted();
    if small {
        return BigInt::from(t.draw(20));
    }
    let n = *t.pick(BITLENS);
    if n == 0 {
        return BigInt::zero();
    }
    match t.draw(4) {
        0 => pow2(n) - BigInt::one(),  // all ones, n bits
        1 => pow2(n - 1),              // exactly n bits, lowest
        2 => pow2(n - 1) + BigInt::one(),
        _ => {
            // random with exactly n bits
            let mut r = BigInt::zero();
            let mut left = n - 1;
            while left > 0 {
                let k = left.min(16);
                r = r * pow2(k) + BigInt::from(t.draw(1 << k));
                left -= k;
            }
            pow2(n - 1) + r
        }
    }
}

/// print a non-negative value in a random literal form; returns (text, size)
pub fn literal_text(t: &mut Tape, v: &BigInt) -> (String, Option<usize>) {
    let form = t.weighted(&[8, 5, 1, 3, 1, 2]);
    let radix_bits = match form {
        0 => 0, // decimal
        1 | 2 => 4,
        3 | 4 => 1,
        _ => 3,
    };
    if radix_bits == 0 {
        let mut s = v.to_str_radix(10);
        if t.chance(1, 10) {
            s = format!("0{}", s);
        }
        if s.len() > 3 && t.chance(1, 6) {
            let at = t.urange(1, s.len() - 1);
            s.insert(at, '_');
        }
        return (s, None);
    }
    let radix = 1u32 << radix_bits;
    let mut digits = v.to_str_radix(radix);
    // leading zeros change the size
    let lead = t.weighted(&[5, 2, 1, 1]);
    for _ in 0..lead {
        digits.insert(0, '0');
    }
    if radix == 16 && t.chance(1, 4) {
        digits = digits.to_uppercase();
    }
    let ndigits = digits.len();
    if digits.len() > 2 && t.chance(1, 6) {
        let at = t.urange(1, digits.len() - 1);
        digits.insert(at, '_');
    }
    let prefix = match form {
        1 => "0x",
        2 => "$",
        3 => "0b",
        4 => "%",
        _ => "0o",
    };
    (format!("{}{}", prefix, digits), Some(ndigits * radix_bits))
}

pub fn lit(t: &mut Tape) -> E {
    let v = magnitude(t);
    let (text, size) = literal_text(t, &v);
    E::Lit { text, v, size }
}

pub fn lit_of(v: u64) -> E {
    E::Lit { text: v.to_string(), v: BigInt::from(v), size: None }
}

pub fn small_lit(t: &mut Tape, max: u32) -> E {
    lit_of(t.draw(max + 1) as u64)
}

const PLAIN_CHARS: &[char] = &['a', 'b', 'Z', '0', '9', ' ', '!', '#', ';', '{', '}', '~', '/', '?', '@', '\''];
const MULTI_CHARS: &[char] = &['\u{e9}', '\u{3b1}', '\u{7ff}', '\u{800}', '\u{4e16}', '\u{ffff}', '\u{10000}', '\u{1f600}', '\u{10ffff}', '\u{80}', '\u{ff}'];

/// string literal; `plain_first` forces an ASCII first character (numeric reading well defined)
pub fn string_lit(t: &mut Tape, plain_first: bool, allow_quote_escape: bool) -> E {
    let n = t.weighted(&[1, 3, 3, 2, 1, 1]);
    let mut src = String::new();
    let mut chars = String::new();
    for i in 0..n {
        let kind = t.weighted(&[6, 2, 3]);
        let force_plain = plain_first && i == 0;
        match kind {
            0 => {
                let c = *t.pick(PLAIN_CHARS);
                src.push(c);
                chars.push(c);
            }
            1 if !force_plain => {
                let c = *t.pick(MULTI_CHARS);
                if t.flip() {
                    src.push(c);
                } else {
                    src.push_str(&format!("\\u{{{:x}}}", c as u32));
                }
                chars.push(c);
            }
            _ => {
                // escapes
                let esc = t.draw(if allow_quote_escape { 9 } else { 8 });
                let (s, c): (String, char) = match esc {
                    0 => ("\\n".into(), '\n'),
                    1 => ("\\t".into(), '\t'),
                    2 => ("\\r".into(), '\r'),
                    3 if !force_plain => ("\\0".into(), '\0'),
                    3 => ("\\x41".into(), 'A'),
                    4 => ("\\\\".into(), '\\'),
                    5 => ("\\'".into(), '\''),
                    6 => {
                        let b = t.draw(0x80) as u8;
                        (format!("\\x{:02x}", b), b as char)
                    }
                    7 => {
                        let b = t.draw(0x80);
                        (format!("\\u{{{:X}}}", b), char::from_u32(b).unwrap())
                    }
                    _ => ("\\\"".into(), '"'),
                };
                src.push_str(&s);
                chars.push(c);
            }
        }
    }
    E::Str { src, chars }
}

#[derive(Clone, Copy, PartialEq, Eq, Debug)]
pub enum Ty {
    Int,   // integer, any size status
    Sized, // integer with a definite size
    Bool,
    Str,
}

pub struct ExprGen<'a> {
    /// named values that may be referenced: (name, type)
    pub vars: &'a [(String, Ty)],
    pub ill_typed_per_mille: u32,
    pub allow_quote_escape: bool,
}

impl<'a> ExprGen<'a> {
    fn var_of(&self, t: &mut Tape, ty: Ty) -> Option<E> {
        let c: Vec<&(String, Ty)> = self.vars.iter().filter(|v| v.1 == ty || (ty == Ty::Int && v.1 == Ty::Sized)).collect();
        if c.is_empty() {
            None
        } else {
            Some(E::Var(c[t.below(c.len())].0.clone()))
        }
    }

    pub fn gen(&self, t: &mut Tape, ty: Ty, depth: usize) -> E {
        // deliberately ill-typed sub-expression
        if self.ill_typed_per_mille > 0 && t.chance(self.ill_typed_per_mille, 1000) {
            let wrong = match ty {
                Ty::Int | Ty::Sized => *t.pick(&[Ty::Bool, Ty::Str]),
                Ty::Bool => *t.pick(&[Ty::Int, Ty::Str]),
                Ty::Str => *t.pick(&[Ty::Int, Ty::Bool]),
            };
            return self.gen_typed(t, wrong, depth);
        }
        self.gen_typed(t, ty, depth)
    }

    fn gen_typed(&self, t: &mut Tape, ty: Ty, depth: usize) -> E {
        match ty {
            Ty::Int => self.gen_int(t, depth),
            Ty::Sized => self.gen_sized(t, depth),
            Ty::Bool => self.gen_bool(t, depth),
            Ty::Str => self.gen_str(t, depth),
        }
    }

    fn leaf_int(&self, t: &mut Tape) -> E {
        if t.chance(1, 5) {
            if let Some(v) = self.var_of(t, Ty::Int) {
                return v;
            }
        }
        lit(t)
    }

    /// shift amount / slice bound: mostly small, sometimes boundary or invalid
    fn amount(&self, t: &mut Tape, depth: usize) -> E {
        match t.weighted(&[10, 3, 1, 1]) {
            0 => small_lit(t, 12),
            1 => lit_of(*t.pick(&[0u64, 1, 7, 8, 9, 15, 16, 31, 32, 33, 63, 64, 65, 127, 128, 130])),
            2 if depth > 0 => {
                // a computed amount
                E::Bin(BinOp::Add, Box::new(small_lit(t, 6)), Box::new(small_lit(t, 6)))
            }
            2 => small_lit(t, 6),
            _ => E::Un(UnOp::Neg, Box::new(small_lit(t, 3))), // invalid unless zero
        }
    }

    pub fn gen_int(&self, t: &mut Tape, depth: usize) -> E {
        if depth == 0 || t.exhausted() {
            return self.leaf_int(t);
        }
        let d = depth - 1;
        match t.weighted(&[4, 3, 3, 2, 2, 2, 3, 2, 2, 2, 2, 2, 1, 2]) {
            0 => self.leaf_int(t),
            1 => E::Bin(*t.pick(&[BinOp::Add, BinOp::Sub]), Box::new(self.gen(t, Ty::Int, d)), Box::new(self.gen(t, Ty::Int, d))),
            2 => E::Bin(BinOp::Mul, Box::new(self.gen(t, Ty::Int, d)), Box::new(self.gen(t, Ty::Int, d))),
            3 => {
                // division / modulo, divisor sometimes zero
                let op = *t.pick(&[BinOp::Div, BinOp::Mod]);
                let rhs = if t.chance(1, 12) { lit_of(0) } else { self.gen(t, Ty::Int, d) };
                E::Bin(op, Box::new(self.gen(t, Ty::Int, d)), Box::new(rhs))
            }
            4 => E::Un(UnOp::Neg, Box::new(self.gen(t, Ty::Int, d))),
            5 => E::Un(UnOp::Not, Box::new(self.gen(t, Ty::Int, d))),
            6 => E::Bin(*t.pick(&[BinOp::And, BinOp::Or, BinOp::Xor]), Box::new(self.gen(t, Ty::Int, d)), Box::new(self.gen(t, Ty::Int, d))),
            7 => E::Bin(BinOp::Shl, Box::new(self.gen(t, Ty::Int, d)), Box::new(self.amount(t, d))),
            8 => E::Bin(BinOp::Shr, Box::new(self.gen(t, Ty::Int, d)), Box::new(self.amount(t, d))),
            9 => E::Tern(Box::new(self.gen(t, Ty::Bool, d)), Box::new(self.gen(t, Ty::Int, d)), Box::new(self.gen(t, Ty::Int, d))),
            10 => self.gen_sized(t, depth),
            11 => E::Call("sizeof".into(), vec![if t.flip() { self.gen(t, Ty::Sized, d) } else { self.gen(t, Ty::Str, d) }]),
            12 => E::Call("strlen".into(), vec![self.gen(t, Ty::Str, d)]),
            _ => {
                // numeric use of a string (first character ASCII so that its value is defined)
                let s = string_lit(t, true, self.allow_quote_escape);
                let s = if t.flip() { s } else { E::Call(t.pick(&Enc::ALL).name().into(), vec![s]) };
                E::Bin(*t.pick(&[BinOp::Add, BinOp::Xor, BinOp::Mul]), Box::new(s), Box::new(self.leaf_int(t)))
            }
        }
    }

    fn sized_leaf(&self, t: &mut Tape) -> E {
        if t.chance(1, 5) {
            if let Some(v) = self.var_of(t, Ty::Sized) {
                return v;
            }
        }
        let v = magnitude(t);
        // force a power-of-two radix form
        loop {
            let (text, size) = literal_text(t, &v);
            if size.is_some() {
                return E::Lit { text, v, size };
            }
            if t.exhausted() {
                let text = format!("0x{}", v.to_str_radix(16));
                let size = Some((text.len() - 2) * 4);
                return E::Lit { text, v, size };
            }
        }
    }

    pub fn gen_sized(&self, t: &mut Tape, depth: usize) -> E {
        if depth == 0 || t.exhausted() {
            return self.sized_leaf(t);
        }
        let d = depth - 1;
        match t.weighted(&[4, 4, 4, 3, 2, 2]) {
            0 => self.sized_leaf(t),
            1 => {
                // slice with hi >= lo mostly; sometimes inverted
                let lo = t.draw(10) as u64;
                let hi = if t.chance(1, 12) { lo.saturating_sub(2 + t.draw(2) as u64) } else { lo + t.draw(20) as u64 };
                let hi_e = if t.chance(1, 8) { self.amount(t, d) } else { lit_of(hi) };
                let lo_e = if t.chance(1, 10) { self.amount(t, d) } else { lit_of(lo) };
                let inner = if t.chance(1, 6) { string_lit(t, false, self.allow_quote_escape) } else { self.gen(t, Ty::Int, d) };
                E::Slice(Box::new(inner), Box::new(hi_e), Box::new(lo_e))
            }
            2 => {
                let n = if t.chance(1, 8) {
                    E::Bin(BinOp::Add, Box::new(small_lit(t, 8)), Box::new(small_lit(t, 8)))
                } else {
                    lit_of(*t.pick(&[0u64, 1, 3, 4, 7, 8, 9, 12, 16, 24, 31, 32, 33, 64, 65, 128]))
                };
                E::SliceShort(Box::new(self.gen(t, Ty::Int, d)), Box::new(n))
            }
            3 => {
                // concat; operands sized (an unsized operand sneaks in through ill-typing or here rarely)
                let l = if t.chance(1, 15) { self.gen(t, Ty::Int, d) } else { self.gen(t, Ty::Sized, d) };
                let r = if t.chance(1, 6) { self.gen(t, Ty::Str, d) } else { self.gen(t, Ty::Sized, d) };
                E::Bin(BinOp::Concat, Box::new(l), Box::new(r))
            }
            4 => {
                // le(): operand with a size multiple of 8 (mostly)
                let bits = if t.chance(1, 10) { *t.pick(&[4u64, 12, 7]) } else { 8 * (1 + t.draw(5) as u64) };
                let inner = E::SliceShort(Box::new(self.gen(t, Ty::Int, d)), Box::new(lit_of(bits)));
                E::Call("le".into(), vec![inner])
            }
            _ => E::Tern(Box::new(self.gen(t, Ty::Bool, d)), Box::new(self.gen(t, Ty::Sized, d)), Box::new(self.gen(t, Ty::Sized, d))),
        }
    }

    pub fn gen_bool(&self, t: &mut Tape, depth: usize) -> E {
        if depth == 0 || t.exhausted() {
            if t.chance(1, 4) {
                if let Some(v) = self.var_of(t, Ty::Bool) {
                    return v;
                }
            }
            return E::Bool(t.flip());
        }
        let d = depth - 1;
        match t.weighted(&[2, 6, 3, 2, 2, 1]) {
            0 => E::Bool(t.flip()),
            1 => {
                let op = *t.pick(&[BinOp::Eq, BinOp::Ne, BinOp::Lt, BinOp::Le, BinOp::Gt, BinOp::Ge]);
                E::Bin(op, Box::new(self.gen(t, Ty::Int, d)), Box::new(self.gen(t, Ty::Int, d)))
            }
            2 => E::Bin(*t.pick(&[BinOp::LazyAnd, BinOp::LazyOr]), Box::new(self.gen(t, Ty::Bool, d)), Box::new(self.gen(t, Ty::Bool, d))),
            3 => E::Un(UnOp::Not, Box::new(self.gen(t, Ty::Bool, d))),
            4 => E::Bin(*t.pick(&[BinOp::And, BinOp::Or, BinOp::Xor, BinOp::Eq, BinOp::Ne]), Box::new(self.gen(t, Ty::Bool, d)), Box::new(self.gen(t, Ty::Bool, d))),
            _ => E::Tern(Box::new(self.gen(t, Ty::Bool, d)), Box::new(self.gen(t, Ty::Bool, d)), Box::new(self.gen(t, Ty::Bool, d))),
        }
    }

    pub fn gen_str(&self, t: &mut Tape, depth: usize) -> E {
        let s = string_lit(t, false, self.allow_quote_escape);
        if depth == 0 || t.chance(1, 3) {
            return s;
        }
        let mut e = E::Call(t.pick(&Enc::ALL).name().into(), vec![s]);
        if t.chance(1, 6) {
            e = E::Call(t.pick(&Enc::ALL).name().into(), vec![e]);
        }
        e
    }
}
