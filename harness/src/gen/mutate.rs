//! G-MUT: token-level mutation of source text.

use crate::engine::Tape;

/// Split text into mutation units: identifiers/numbers, runs of blanks, newlines, strings,
/// comments, single punctuation characters (multi-byte characters stay whole).
pub fn units(text: &str) -> Vec<String> {
    let cs: Vec<char> = text.chars().collect();
    let mut out = Vec::new();
    let mut i = 0;
    while i < cs.len() {
        let c = cs[i];
        let start = i;
        if c.is_ascii_alphanumeric() || c == '_' {
            while i < cs.len() && (cs[i].is_ascii_alphanumeric() || cs[i] == '_') {
                i += 1;
            }
        } else if c == ' ' || c == '\t' {
            while i < cs.len() && (cs[i] == ' ' || cs[i] == '\t') {
                i += 1;
            }
        } else if c == '"' {
            i += 1;
            while i < cs.len() && cs[i] != '"' && cs[i] != '\n' {
                i += 1;
            }
            if i < cs.len() && cs[i] == '"' {
                i += 1;
            }
        } else if c == ';' {
            while i < cs.len() && cs[i] != '\n' {
                i += 1;
            }
        } else {
            i += 1;
        }
        out.push(cs[start..i].iter().collect());
    }
    out
}

pub const DICT: &[&str] = &[
    "#ruledef", "#subruledef", "#bankdef", "#bank", "#d8", "#d16", "#d32", "#d", "#d1", "#d3", "#d0", "#res", "#align",
    "#addr", "#labelalign", "#bits", "#fn", "#const", "#const(noemit)", "#noemit", "#if", "#elif", "#else", "#include",
    "#once", "#assert", "#fill", "#outp", "#unknown", "asm", "true", "false", "$", "pc", "{", "}", "(", ")", "[", "]",
    ",", ":", "::", "=>", "=", "==", "!=", "<", "<=", ">", ">=", "<<", ">>", ">>>", "+", "-", "*", "/", "%", "&", "|",
    "^", "!", "~", "@", "`", "?", "&&", "||", ".", "..", "->", "<-", "#", "\n", " ", "\t", "\r\n", "0", "1", "-1", "255",
    "256", "0x", "0x00", "0xff", "0b", "0b101", "0o17", "%101", "$ff", "1_000", "0x1_0", "65536", "0x10_0000",
    "0xffff_ffff_ffff_ffff", "0x1_0000_0000_0000_0000", "0xffffffffffffffffffffffffffffffff", "x", "y", "label", ".local",
    "..deep", "loop", "ld", "u8", "s8", "i8", "u0", "u16", "s1", "le", "sizeof", "assert", "strlen", "utf8", "utf16le",
    "ascii", "incbin", "incbinstr", "inchexstr", "\"abc\"", "\"\"", "\"\\n\"", "\"\\x41\"", "\"\\u{1f600}\"", "\"\\q\"",
    "\"", "'", "\\", "; c", ";*", "*;", "{x}", "{x: u8}", "{x: s4}", "{r: reg}", "x`8", "x[7:0]", "x[0:7]", "`8",
    "[7:0]", "bits", "addr", "size", "outp", "fill", "labelalign", "addr_end", "\u{e9}", "\u{3b1}\u{3b2}", "\u{4e16}",
    "\u{1f600}", "\u{0}", "\u{7f}", "\u{a0}", "\u{feff}",
];

#[derive(Clone, Debug)]
pub struct MutResult {
    pub bytes: Vec<u8>,
    pub edits: usize,
    pub kinds: Vec<&'static str>,
}

/// Apply 0..=max_edits token-level edits; `others` supplies splice material.
pub fn mutate(t: &mut Tape, text: &str, others: &[&str], max_edits: usize) -> MutResult {
    let mut us = units(text);
    let n_edits = t.urange(0, max_edits);
    let mut kinds = Vec::new();
    let mut truncate_at: Option<usize> = None;
    for _ in 0..n_edits {
        let kind = t.weighted(&[6, 5, 3, 3, 6, 2, 1]);
        let len = us.len();
        match kind {
            0 => {
                // replace by a dictionary token
                if len > 0 {
                    let i = t.below(len);
                    us[i] = t.pick(DICT).to_string();
                    kinds.push("replace");
                }
            }
            1 => {
                let i = t.below(len + 1);
                us.insert(i, t.pick(DICT).to_string());
                kinds.push("insert");
            }
            2 => {
                if len > 0 {
                    let i = t.below(len);
                    us.remove(i);
                    kinds.push("delete");
                }
            }
            3 => {
                if len > 0 {
                    let i = t.below(len);
                    let u = us[i].clone();
                    let reps = t.urange(1, 3);
                    for _ in 0..reps {
                        us.insert(i, u.clone());
                    }
                    kinds.push("duplicate");
                }
            }
            4 => {
                if len > 1 {
                    let i = t.below(len);
                    let j = t.below(len);
                    us.swap(i, j);
                    kinds.push("swap");
                }
            }
            5 => {
                // splice a line from another text
                if !others.is_empty() {
                    let o = t.pick(others);
                    let lines: Vec<&str> = o.lines().collect();
                    if !lines.is_empty() {
                        let l = lines[t.below(lines.len())];
                        let i = t.below(len + 1);
                        us.insert(i, format!("\n{}\n", l));
                        kinds.push("splice");
                    }
                }
            }
            _ => {
                truncate_at = Some(t.below(1 << 16));
                kinds.push("truncate");
            }
        }
    }
    let mut bytes: Vec<u8> = us.concat().into_bytes();
    if let Some(at) = truncate_at {
        if !bytes.is_empty() {
            // may cut inside a UTF-8 sequence
            let at = (at * bytes.len()) >> 16;
            bytes.truncate(at);
        }
    }
    MutResult { bytes, edits: kinds.len(), kinds }
}
