//! G-BANK: bank configurations and item sequences that exercise every bank boundary.

use crate::engine::Tape;
use crate::gen::expr::lit_of;
use crate::model::expr::*;
use crate::model::program::*;
use num_bigint::BigInt;

#[derive(Default, Debug, Clone)]
pub struct BankInfoGen {
    pub n_banks: usize,
    pub non8: bool,
    pub near_boundary: bool,
    pub backward_addr: bool,
    pub fill: bool,
    pub labelalign: bool,
    pub zero_or_one_size: bool,
}

pub fn gen_bank_program(t: &mut Tape) -> (Program, BankInfoGen) {
    let mut info = BankInfoGen::default();
    let mut items: Vec<Item> = Vec::new();
    let nb = t.weighted(&[1, 4, 4, 2, 1, 1]); // 0..5 banks (0 = default bank only)
    info.n_banks = nb;
    let mut defs: Vec<BankDef> = Vec::new();
    let mut next_outp = 0usize;
    for b in 0..nb {
        let bits = match t.weighted(&[6, 1, 1, 2, 1, 2, 1, 1]) {
            0 => 8usize,
            1 => 1,
            2 => 3,
            3 => 4,
            4 => 7,
            5 => 16,
            6 => 32,
            _ => 12,
        };
        if bits != 8 {
            info.non8 = true;
        }
        let size = match t.weighted(&[2, 1, 1, 5, 3]) {
            0 => None,
            1 => Some(0usize),
            2 => Some(1),
            3 => Some(t.urange(2, 16)),
            _ => Some(*t.pick(&[32usize, 64, 256])),
        };
        if matches!(size, Some(0) | Some(1)) {
            info.zero_or_one_size = true;
        }
        let outp = match t.weighted(&[10, 2, 2, 1]) {
            0 => Some(next_outp),
            1 => Some(next_outp + t.urange(1, 24)), // gap
            2 => None,                              // not writable
            _ => Some(next_outp.saturating_sub(t.urange(1, 12))), // overlaps the previous window
        };
        if let (Some(o), Some(s)) = (outp, size) {
            next_outp = next_outp.max(o + s * bits);
        } else if let (Some(o), None) = (outp, size) {
            next_outp = next_outp.max(o + 64);
        }
        let fill = size.is_some() && outp.is_some() && t.chance(1, 3);
        if fill {
            info.fill = true;
        }
        let labelalign = if t.chance(1, 5) { Some(*t.pick(&[8usize, 16, 4, 32, 0])) } else { None };
        if labelalign.is_some() {
            info.labelalign = true;
        }
        defs.push(BankDef {
            name: format!("b{}", b),
            bits: if bits == 8 && t.flip() { None } else { Some(bits) },
            // v3: also banks whose addresses in BITS do not fit a machine word (2^61 bytes and up)
            addr: match t.weighted(&if crate::engine::gen_version() >= 3 { [4, 2, 2, 1, 1] } else { [4, 2, 2, 1, 0] }) {
                0 => None,
                1 => Some(*t.pick(&[1i64, 0x10, 0x100])),
                2 => Some(0x8000),
                3 => Some(0xffff_fff0),
                _ => Some(*t.pick(&[1i64 << 61, (1i64 << 61) + 1, (1i64 << 62) + 5])),
            },
            size,
            outp,
            fill,
            labelalign,
        });
    }
    // definition order: sometimes shuffled
    let mut order: Vec<usize> = (0..nb).collect();
    if nb > 1 && t.chance(1, 3) {
        for i in (1..nb).rev() {
            let j = t.below(i + 1);
            order.swap(i, j);
        }
    }
    for &i in &order {
        items.push(Item::BankDef(defs[i].clone()));
    }
    // per-bank cursor mirror (bits), to aim at the boundaries
    let mut cursor: Vec<usize> = vec![0; nb.max(1)];
    let mut cur: usize = if nb == 0 { 0 } else { *order.last().unwrap() };
    let unit_of = |i: usize, defs: &Vec<BankDef>| if defs.is_empty() { 8 } else { defs[i].bits.unwrap_or(8) };
    let size_bits = |i: usize, defs: &Vec<BankDef>| if defs.is_empty() { None } else { defs[i].size.map(|s| s * defs[i].bits.unwrap_or(8)) };
    let addr_of = |i: usize, defs: &Vec<BankDef>| if defs.is_empty() { 0i64 } else { defs[i].addr.unwrap_or(0) };
    let n_items = t.urange(1, 14);
    let mut labels: Vec<String> = Vec::new();
    let mut nlabel = 0;
    for _ in 0..n_items {
        let unit = unit_of(cur, &defs);
        match t.weighted(&[8, 3, 2, 2, 2, if nb > 1 { 2 } else { 0 }]) {
            0 => {
                // data aimed at the end of the bank
                let remaining = size_bits(cur, &defs).map(|s| s.saturating_sub(cursor[cur]));
                let n = match (remaining, t.weighted(&[3, 2, 1, 1])) {
                    (Some(r), 1) if r >= 1 && r <= 64 => {
                        info.near_boundary = true;
                        r
                    }
                    (Some(r), 2) if r >= 2 && r <= 65 => {
                        info.near_boundary = true;
                        r - 1
                    }
                    (Some(r), 3) if r <= 63 => {
                        info.near_boundary = true;
                        r + 1
                    }
                    _ => {
                        if t.flip() {
                            unit.min(64).max(1)
                        } else {
                            t.urange(1, 24)
                        }
                    }
                };
                let n = n.max(1).min(64);
                let e = match t.weighted(&[6, 2, 1]) {
                    0 => {
                        let v = t.bits64() & if n == 64 { u64::MAX } else { (1u64 << n) - 1 };
                        E::Lit { text: v.to_string(), v: BigInt::from(v), size: None }
                    }
                    1 if !labels.is_empty() && n >= 16 => E::Var(t.pick(&labels).clone()),
                    _ if n >= 16 => E::Var("$".into()),
                    _ => lit_of(1),
                };
                cursor[cur] += n;
                items.push(Item::Data { width: Some(n), elems: vec![e] });
            }
            1 => {
                let name = format!("L{}", nlabel);
                nlabel += 1;
                if !labels.is_empty() && t.chance(1, 3) {
                    // a nested label under the last global one (labelalign must not apply to it)
                    items.push(Item::Label { dots: 1, name });
                } else {
                    labels.push(name.clone());
                    items.push(Item::Label { dots: 0, name });
                }
            }
            2 => {
                let k = t.draw(4) as usize;
                cursor[cur] += k * unit;
                items.push(Item::Res(lit_of(k as u64)));
                // v3: a data element of width zero behind the reservation: it writes no bit
                if crate::engine::gen_version() >= 3 && t.chance(1, 6) {
                    items.push(Item::Data { width: None, elems: vec![E::Str { src: String::new(), chars: String::new() }] });
                }
            }
            3 => {
                let a = if crate::engine::gen_version() >= 3 { *t.pick(&[1u64, 2, 4, 8, 16, 32, 3, 24, 6, 12, 40]) } else { *t.pick(&[1u64, 2, 4, 8, 16, 32, 3]) };
                let abs = (addr_of(cur, &defs) as usize).wrapping_mul(unit).wrapping_add(cursor[cur]);
                let a_us = a as usize;
                if abs % a_us != 0 {
                    cursor[cur] += a_us - abs % a_us;
                }
                items.push(Item::Align(lit_of(a)));
            }
            4 => {
                // #addr: forward, backward, or outside the bank
                let here = cursor[cur] / unit;
                let target = match t.weighted(&[4, 3, 1, 1]) {
                    0 => here + t.urange(0, 4),
                    1 => {
                        info.backward_addr = true;
                        here.saturating_sub(t.urange(1, 4))
                    }
                    2 => defs.get(cur).and_then(|d| d.size).unwrap_or(40) + t.urange(0, 1),
                    _ => 0,
                };
                let base = addr_of(cur, &defs);
                let a = if t.chance(1, 12) { base - 1 } else { base + target as i64 };
                if a >= base {
                    cursor[cur] = (a - base) as usize * unit;
                }
                let e = if a < 0 { E::Un(UnOp::Neg, Box::new(lit_of((-a) as u64))) } else { lit_of(a as u64) };
                items.push(Item::Addr(e));
            }
            _ => {
                cur = t.below(nb);
                items.push(Item::Bank(defs[cur].name.clone()));
            }
        }
    }
    (Program { isa: Default::default(), items }, info)
}
