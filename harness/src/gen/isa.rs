//! G-ISA: generated instruction sets.  `size_static = true` keeps every group of rules that can
//! match the same text at one common size (guard (c) of DESIGN section 5).

use crate::engine::Tape;
use crate::gen::expr::lit_of;
use crate::model::expr::*;
use crate::model::isa::*;
use num_bigint::BigInt;
use std::collections::HashMap;

pub const MNEMONICS: &[&str] = &["ld", "ldi", "ldq", "ld.b", "ld.w", "add", "adc", "mov", "jmp", "jr", "nop", "st", "stq", "push", "inc"];
pub const REGS: &[&str] = &["a", "b", "c", "x", "sp", "r0", "r1", "r2", "r10"];
pub const SUBNAMES: &[&str] = &["reg", "cond", "idx"];
pub const WIDTHS: &[usize] = &[1, 3, 4, 8, 8, 12, 16];

pub fn sized_lit(v: u64, bits: usize) -> E {
    // binary or hex literal of exactly `bits` bits (bits >= 1)
    let val = BigInt::from(v) % pow2(bits);
    if bits % 4 == 0 {
        let text = format!("0x{:0>w$}", val.to_str_radix(16), w = bits / 4);
        E::Lit { text, v: val, size: Some(bits) }
    } else {
        let text = format!("0b{:0>w$}", val.to_str_radix(2), w = bits);
        E::Lit { text, v: val, size: Some(bits) }
    }
}

pub fn concat_all(mut parts: Vec<E>) -> E {
    let mut e = parts.remove(0);
    for p in parts {
        e = E::Bin(BinOp::Concat, Box::new(e), Box::new(p));
    }
    e
}

fn var(n: &str) -> E {
    E::Var(n.to_string())
}

/// a production fragment using parameter `p`; returns (expr, size)
fn param_fragment(t: &mut Tape, p: &str, ty: PType, isa: &Isa) -> (E, usize) {
    match ty {
        PType::Sub(si) => (var(p), isa.subrules[si].alts[0].size),
        PType::Untyped => {
            let n = *t.pick(&[4usize, 8, 8, 16]);
            match t.weighted(&[4, 2, 2]) {
                0 => (E::SliceShort(Box::new(var(p)), Box::new(lit_of(n as u64))), n),
                1 => (E::Slice(Box::new(var(p)), Box::new(lit_of(n as u64 - 1)), Box::new(lit_of(0))), n),
                _ => (
                    E::SliceShort(Box::new(E::Bin(BinOp::Sub, Box::new(var(p)), Box::new(var("$")))), Box::new(lit_of(n as u64))),
                    n,
                ),
            }
        }
        PType::U(n) | PType::S(n) | PType::I(n) => {
            let choice = t.weighted(&[6, 2, 2, 2, 1]);
            match choice {
                1 if n >= 2 => {
                    // split into two slices, swapped
                    let k = t.urange(1, n - 1);
                    let hi = E::Slice(Box::new(var(p)), Box::new(lit_of(n as u64 - 1)), Box::new(lit_of(k as u64)));
                    let lo = E::Slice(Box::new(var(p)), Box::new(lit_of(k as u64 - 1)), Box::new(lit_of(0)));
                    (E::Bin(BinOp::Concat, Box::new(lo), Box::new(hi)), n)
                }
                2 if n % 8 == 0 && n > 0 => (E::Call("le".into(), vec![var(p)]), n),
                3 => {
                    let m = *t.pick(&[4usize, 8, 16]);
                    (E::SliceShort(Box::new(E::Bin(BinOp::Sub, Box::new(var(p)), Box::new(var("$")))), Box::new(lit_of(m as u64))), m)
                }
                4 => {
                    let m = *t.pick(&[2usize, 8, 20]);
                    (E::SliceShort(Box::new(E::Bin(BinOp::Add, Box::new(var(p)), Box::new(lit_of(1)))), Box::new(lit_of(m as u64))), m)
                }
                _ => (var(p), n),
            }
        }
    }
}

fn pad_to(parts: &mut Vec<E>, size: &mut usize, target: usize) {
    if *size < target {
        let d = target - *size;
        if d <= 16 {
            parts.push(sized_lit(0, d));
        } else {
            parts.push(E::SliceShort(Box::new(lit_of(0)), Box::new(lit_of(d as u64))));
        }
        *size = target;
    }
}

pub struct IsaGen {
    pub size_static: bool,
    /// rules may carry assert(...) constraints on operands or on the position
    pub asserts: bool,
}

impl IsaGen {
    pub fn gen(&self, t: &mut Tape) -> Isa {
        let mut isa = Isa::default();
        // sub-rules
        let nsub = t.weighted(&[3, 3, 1]);
        for si in 0..nsub {
            let size = *t.pick(&[2usize, 3, 4, 8]);
            let nalt = t.urange(2, 4);
            let mut alts = Vec::new();
            let start = t.below(REGS.len());
            for a in 0..nalt {
                let w = REGS[(start + a * 2) % REGS.len()];
                if alts.iter().any(|x: &SubAlt| matches!(&x.op, POp::Lit(l) if l == w)) {
                    continue;
                }
                alts.push(SubAlt { op: POp::Lit(w.to_string()), prod: sized_lit(a as u64 + 1, size), size });
            }
            if t.chance(1, 3) {
                // an alternative that takes an expression
                let ty = if t.flip() { PType::U(size) } else { PType::Untyped };
                let prod = match ty {
                    PType::Untyped => E::SliceShort(Box::new(var("v")), Box::new(lit_of(size as u64))),
                    _ => var("v"),
                };
                alts.push(SubAlt { op: POp::Param { name: "v".into(), ty }, prod, size });
                if t.chance(1, 2) {
                    // a second expression alternative with an overlapping range: both match the same text
                    let ty2 = if matches!(ty, PType::U(_)) { PType::S(size) } else { PType::U(size) };
                    alts.push(SubAlt { op: POp::Param { name: "v".into(), ty: ty2 }, prod: var("v"), size });
                }
            }
            if crate::engine::gen_version() >= 2 && si > 0 && t.chance(1, 3) {
                // v2: an alternative that is itself an operand of an EARLIER sub-rule (nested sub-rules)
                let sj = t.below(si);
                let size_j = isa.subrules[sj].alts[0].size;
                let q = var("q");
                let prod = if size_j == size {
                    q
                } else if size_j < size {
                    concat_all(vec![sized_lit(t.draw(2) as u64, size - size_j), q])
                } else {
                    E::SliceShort(Box::new(q), Box::new(lit_of(size as u64)))
                };
                alts.push(SubAlt { op: POp::Param { name: "q".into(), ty: PType::Sub(sj) }, prod, size });
            }
            isa.subrules.push(SubRule { name: SUBNAMES[si].to_string(), alts });
        }
        // rules
        let nmn = t.urange(2, 7);
        let mstart = t.below(MNEMONICS.len());
        let mns: Vec<&str> = (0..nmn).map(|i| MNEMONICS[(mstart + i) % MNEMONICS.len()]).collect();
        let nrules = t.urange(3, 14);
        let nblocks = t.urange(1, 4).min(nrules);
        let mut rules: Vec<Rule> = Vec::new();
        let mut group_size: HashMap<(String, usize), usize> = HashMap::new();
        for ri in 0..nrules {
            let variant = !rules.is_empty() && t.chance(1, 4);
            let (mn, mut ops) = if variant {
                let base = rules[t.below(rules.len())].clone();
                (base.mnemonic.clone(), base.ops.clone())
            } else {
                let mn = t.pick(&mns).to_string();
                let nops = t.weighted(&[2, 4, 4, 1]);
                let mut ops = Vec::new();
                for k in 0..nops {
                    ops.push(self.gen_op(t, &isa, k));
                }
                (mn, ops)
            };
            if variant && !ops.is_empty() {
                let k = t.below(ops.len());
                ops[k] = self.gen_op(t, &isa, k);
                if t.chance(1, 4) {
                    let k2 = t.below(ops.len());
                    ops[k2] = self.gen_op(t, &isa, k2);
                }
            }
            // avoid exact duplicates of an earlier pattern most of the time (they tie on every input)
            for _ in 0..3 {
                let dup = rules.iter().any(|r| {
                    r.mnemonic == mn
                        && r.ops.len() == ops.len()
                        && r.ops.iter().zip(ops.iter()).all(|(a, b)| {
                            a.wrap == b.wrap
                                && match (&a.op, &b.op) {
                                    (POp::Lit(x), POp::Lit(y)) => x == y,
                                    (POp::Param { ty: x, .. }, POp::Param { ty: y, .. }) => x == y,
                                    _ => false,
                                }
                        })
                });
                if !dup || t.chance(1, 8) {
                    break;
                }
                if ops.is_empty() || t.flip() {
                    ops.push(self.gen_op(t, &isa, 0));
                } else {
                    let k = t.below(ops.len());
                    ops[k] = self.gen_op(t, &isa, k);
                }
            }
            // unique parameter names
            for (k, o) in ops.iter_mut().enumerate() {
                if let POp::Param { name, .. } = &mut o.op {
                    *name = format!("p{}", k);
                }
            }
            // production
            let opc_bits = *t.pick(&[4usize, 8, 8]);
            let mut parts = vec![sized_lit(ri as u64 * 7 + 1 + t.draw(3) as u64, opc_bits)];
            let mut size = opc_bits;
            let mut asserts: Vec<E> = Vec::new();
            for o in &ops {
                if let POp::Param { name, ty } = &o.op {
                    let (e, s) = param_fragment(t, name, *ty, &isa);
                    if t.flip() {
                        parts.push(e);
                    } else {
                        parts.insert(1.min(parts.len()), e);
                    }
                    size += s;
                    if self.asserts && !matches!(ty, PType::Sub(_)) && t.chance(1, 8) {
                        let bound = lit_of(*t.pick(&[0u64, 1, 8, 100, 128]));
                        let op = *t.pick(&[BinOp::Lt, BinOp::Ge, BinOp::Ne]);
                        asserts.push(E::Call("assert".into(), vec![E::Bin(op, Box::new(var(name)), Box::new(bound))]));
                    }
                }
            }
            if self.size_static {
                let key = (mn.to_ascii_lowercase(), ops.len());
                match group_size.get(&key) {
                    Some(&g) if g >= size => pad_to(&mut parts, &mut size, g),
                    Some(&g) => {
                        // too large for its group: fall back to an opcode-only production of the group size
                        parts = vec![E::SliceShort(Box::new(lit_of(ri as u64 + 1)), Box::new(lit_of(g as u64)))];
                        size = g;
                        asserts.clear();
                    }
                    None => {
                        group_size.insert(key, size);
                    }
                }
            }
            let mut prod = concat_all(parts);
            if !asserts.is_empty() {
                asserts.push(prod);
                prod = E::Block(asserts);
            }
            rules.push(Rule { mnemonic: mn, ops, prod, size });
        }
        // rules whose production has no parameter but asserts something about the position
        // (or about a global symbol): their constraint can only be judged with final addresses
        let npos = if self.asserts { t.weighted(&[3, 2, 1]) } else { 0 };
        for k in 0..npos {
            let mn = t.pick(&mns).to_string();
            let cond = match t.draw(5) {
                0 => E::Bin(BinOp::Eq, Box::new(E::Bin(BinOp::Mod, Box::new(var("$")), Box::new(lit_of(*t.pick(&[2u64, 4]))))), Box::new(lit_of(0))),
                1 => E::Bin(BinOp::Lt, Box::new(var("$")), Box::new(lit_of(*t.pick(&[4u64, 8, 16, 32])))),
                2 => E::Bin(BinOp::Ge, Box::new(var("$")), Box::new(lit_of(*t.pick(&[1u64, 2, 4, 8])))),
                3 => E::Bin(BinOp::Ne, Box::new(E::Bin(BinOp::And, Box::new(var("$")), Box::new(lit_of(1)))), Box::new(lit_of(1))),
                _ => E::Bin(BinOp::Lt, Box::new(var("g0")), Box::new(lit_of(*t.pick(&[4u64, 8, 16])))),
            };
            let bits = *t.pick(&[8usize, 8, 16]);
            let lit = sized_lit(0xa5 + k as u64, bits);
            let mut ops = Vec::new();
            if t.chance(1, 3) {
                ops.push(PatOp { wrap: Wrap::None, op: POp::Lit(t.pick(REGS).to_string()) });
            }
            let key = (mn.to_ascii_lowercase(), ops.len());
            let mut size = bits;
            let mut parts = vec![lit];
            if self.size_static {
                match group_size.get(&key) {
                    Some(&g) if g >= size => pad_to(&mut parts, &mut size, g),
                    Some(&g) => {
                        parts = vec![E::SliceShort(Box::new(lit_of(0x55 + k as u64)), Box::new(lit_of(g as u64)))];
                        size = g;
                    }
                    None => {
                        group_size.insert(key, size);
                    }
                }
            }
            rules.push(Rule { mnemonic: mn, ops, prod: E::Block(vec![E::Call("assert".into(), vec![cond]), concat_all(parts)]), size });
        }
        if !self.size_static && t.chance(1, 2) {
            // a production whose size depends on the operand through a conditional
            let mn = t.pick(&mns).to_string();
            let k1 = *t.pick(&[4u64, 8, 16, 128]);
            let short = concat_all(vec![sized_lit(0x1, 4), E::SliceShort(Box::new(var("p0")), Box::new(lit_of(4)))]);
            let long = concat_all(vec![sized_lit(0x2, 4), E::SliceShort(Box::new(var("p0")), Box::new(lit_of(12)))]);
            rules.push(Rule {
                mnemonic: mn,
                ops: vec![PatOp { wrap: Wrap::None, op: POp::Param { name: "p0".into(), ty: PType::Untyped } }],
                prod: E::Tern(Box::new(E::Bin(BinOp::Lt, Box::new(var("p0")), Box::new(lit_of(k1)))), Box::new(short), Box::new(long)),
                size: 16,
            });
        }
        if !self.size_static {
            // G-CASC: families of rules with the same pattern, different sizes, selected by typed
            // widths or assert ranges (disjoint or overlapping)
            let nfam = t.urange(1, 3);
            for f in 0..nfam {
                let mn = t.pick(&mns).to_string();
                let with_reg = t.chance(1, 3);
                let reg = t.pick(REGS).to_string();
                let mk_ops = |ty: PType| -> Vec<PatOp> {
                    let mut v = vec![PatOp { wrap: Wrap::None, op: POp::Param { name: "p0".into(), ty } }];
                    if with_reg {
                        v.insert(0, PatOp { wrap: Wrap::None, op: POp::Lit(reg.clone()) });
                    }
                    v
                };
                let opc = |k: usize| sized_lit((f * 5 + k + 1) as u64, 4);
                let p = || var("p0");
                let rel = || E::Bin(BinOp::Sub, Box::new(var("p0")), Box::new(var("$")));
                match t.draw(4) {
                    0 => {
                        // typed widths, overlapping ranges: the smallest that fits wins
                        let ws: Vec<usize> = match t.draw(3) {
                            0 => vec![4, 8],
                            1 => vec![3, 8, 16],
                            _ => vec![4, 12],
                        };
                        for (k, w) in ws.iter().enumerate() {
                            let ty = if t.chance(1, 4) { PType::S(*w) } else { PType::U(*w) };
                            rules.push(Rule { mnemonic: mn.clone(), ops: mk_ops(ty), prod: concat_all(vec![opc(k), p()]), size: 4 + w });
                        }
                    }
                    1 => {
                        // disjoint assert ranges on an untyped operand
                        let k1 = *t.pick(&[2u64, 4, 8, 16]);
                        let k2 = k1 * *t.pick(&[4u64, 16]);
                        let lt = |a: E, b: u64| E::Bin(BinOp::Lt, Box::new(a), Box::new(lit_of(b)));
                        let ge = |a: E, b: u64| E::Bin(BinOp::Ge, Box::new(a), Box::new(lit_of(b)));
                        let blk = |c: E, w: usize, k: usize| E::Block(vec![E::Call("assert".into(), vec![c]), concat_all(vec![opc(k), E::SliceShort(Box::new(p()), Box::new(lit_of(w as u64)))])]);
                        rules.push(Rule { mnemonic: mn.clone(), ops: mk_ops(PType::Untyped), prod: blk(E::Bin(BinOp::LazyAnd, Box::new(ge(p(), 0)), Box::new(lt(p(), k1))), 4, 0), size: 8 });
                        rules.push(Rule {
                            mnemonic: mn.clone(),
                            ops: mk_ops(PType::Untyped),
                            prod: blk(E::Bin(BinOp::LazyAnd, Box::new(ge(p(), k1)), Box::new(lt(p(), k2))), 12, 1),
                            size: 16,
                        });
                        if t.flip() {
                            rules.push(Rule { mnemonic: mn.clone(), ops: mk_ops(PType::Untyped), prod: blk(ge(p(), k2), 20, 2), size: 24 });
                        }
                    }
                    2 => {
                        // overlapping: short form under an assert, long form always
                        let k1 = *t.pick(&[4u64, 8, 16, 32]);
                        let lt = E::Bin(BinOp::Lt, Box::new(p()), Box::new(lit_of(k1)));
                        rules.push(Rule {
                            mnemonic: mn.clone(),
                            ops: mk_ops(PType::Untyped),
                            prod: E::Block(vec![E::Call("assert".into(), vec![lt]), concat_all(vec![opc(0), E::SliceShort(Box::new(p()), Box::new(lit_of(4)))])]),
                            size: 8,
                        });
                        rules.push(Rule { mnemonic: mn.clone(), ops: mk_ops(PType::Untyped), prod: concat_all(vec![opc(1), E::SliceShort(Box::new(p()), Box::new(lit_of(12)))]), size: 16 });
                    }
                    _ => {
                        // position-relative: short branch within +-k, long otherwise
                        let k1 = *t.pick(&[2u64, 4, 8]);
                        let c = E::Bin(
                            BinOp::LazyAnd,
                            Box::new(E::Bin(BinOp::Lt, Box::new(rel()), Box::new(lit_of(k1)))),
                            Box::new(E::Bin(BinOp::Ge, Box::new(rel()), Box::new(E::Un(UnOp::Neg, Box::new(lit_of(k1)))))),
                        );
                        rules.push(Rule {
                            mnemonic: mn.clone(),
                            ops: mk_ops(PType::Untyped),
                            prod: E::Block(vec![E::Call("assert".into(), vec![c]), concat_all(vec![opc(0), E::SliceShort(Box::new(rel()), Box::new(lit_of(4)))])]),
                            size: 8,
                        });
                        rules.push(Rule { mnemonic: mn.clone(), ops: mk_ops(PType::Untyped), prod: concat_all(vec![opc(1), E::SliceShort(Box::new(p()), Box::new(lit_of(20)))]), size: 24 });
                    }
                }
            }
        }
        if crate::engine::gen_version() >= 2 && t.chance(1, 4) {
            // v2: a conditional production with a decidable condition whose arms have one size but different
            // dependencies: one arm only reads the operand, the other reads the position (or a global symbol)
            let k1 = *t.pick(&[4u64, 8, 16, 128]);
            let dep = match t.draw(3) {
                0 => var("$"),
                1 => E::Bin(BinOp::Add, Box::new(var("$")), Box::new(var("p0"))),
                _ => E::Bin(BinOp::Sub, Box::new(var("p0")), Box::new(var("$"))),
            };
            let plain = concat_all(vec![sized_lit(0x5, 4), E::SliceShort(Box::new(var("p0")), Box::new(lit_of(12)))]);
            let reads_pos = concat_all(vec![sized_lit(0x6, 4), E::SliceShort(Box::new(dep), Box::new(lit_of(12)))]);
            let cond = E::Bin(if t.flip() { BinOp::Lt } else { BinOp::Ge }, Box::new(var("p0")), Box::new(lit_of(k1)));
            let (x, y) = if t.flip() { (plain, reads_pos) } else { (reads_pos, plain) };
            rules.push(Rule {
                mnemonic: "tq".to_string(),
                ops: vec![PatOp { wrap: Wrap::None, op: POp::Param { name: "p0".into(), ty: PType::Untyped } }],
                prod: E::Tern(Box::new(cond), Box::new(x), Box::new(y)),
                size: 16,
            });
        }
        // partition into blocks
        let mut blocks: Vec<RuleBlock> = (0..nblocks).map(|b| RuleBlock { name: if t.flip() { Some(format!("blk{}", b)) } else { None }, rules: vec![] }).collect();
        for (i, r) in rules.into_iter().enumerate() {
            let b = if i < nblocks { i } else { t.below(nblocks) };
            blocks[b].rules.push(r);
        }
        isa.blocks = blocks;
        isa
    }

    fn gen_op(&self, t: &mut Tape, isa: &Isa, _k: usize) -> PatOp {
        let wrap = match t.weighted(&[14, 2, 2, 2]) {
            0 => Wrap::None,
            1 => Wrap::Bracket,
            2 => Wrap::Paren,
            _ => Wrap::Hash,
        };
        let kind = t.weighted(&[6, 3, 7, if isa.subrules.is_empty() { 0 } else { 4 }]);
        let op = match kind {
            0 => POp::Lit(t.pick(REGS).to_string()),
            1 => POp::Param { name: "p".into(), ty: PType::Untyped },
            2 => {
                let n = *t.pick(WIDTHS);
                let ty = match t.draw(3) {
                    0 => PType::U(n),
                    1 => PType::S(n),
                    _ => PType::I(n),
                };
                POp::Param { name: "p".into(), ty }
            }
            _ => POp::Param { name: "p".into(), ty: PType::Sub(t.below(isa.subrules.len())) },
        };
        // a sub-rule slot inside a wrapper is fine; a literal inside `#` as well
        PatOp { wrap, op }
    }
}
