//! G-PROG: programs over a generated instruction set.

use crate::engine::Tape;
use crate::gen::expr::{lit_of, string_lit};
use crate::gen::isa::*;
use crate::model::expr::*;
use crate::model::isa::*;
use crate::model::program::*;
use num_bigint::BigInt;
use num_traits::Signed;

pub const GLOBALS: &[&str] = &["g0", "g1", "g2", "g3", "g4", "g5", "g6", "g7", "g8", "g9"];
pub const LOCALS: &[&str] = &["l0", "l1", "l2"];
pub const CONSTS: &[&str] = &["k0", "k1", "k2", "k3", "k4", "k5"];

pub fn int_expr(v: &BigInt, t: &mut Tape) -> E {
    let mag = v.abs();
    let e = match t.weighted(&[5, 3, 1]) {
        0 => E::Lit { text: mag.to_str_radix(10), v: mag.clone(), size: None },
        1 => {
            let text = format!("0x{}", mag.to_str_radix(16));
            let size = Some((text.len() - 2) * 4);
            E::Lit { text, v: mag.clone(), size }
        }
        _ => {
            let text = format!("0b{}", mag.to_str_radix(2));
            let size = Some(text.len() - 2);
            E::Lit { text, v: mag.clone(), size }
        }
    };
    if v.is_negative() {
        E::Un(UnOp::Neg, Box::new(e))
    } else {
        e
    }
}

/// values around every boundary of an N-bit typed parameter
pub fn boundary_value(t: &mut Tape, n: usize) -> BigInt {
    let b = match t.weighted(&[4, 2, 2, 2, 2]) {
        0 => BigInt::from(0),
        1 => pow2(n),
        2 => -pow2(n),
        3 => pow2(n.saturating_sub(1)),
        _ => -pow2(n.saturating_sub(1)),
    };
    b + BigInt::from(t.range(-1, 1))
}

pub struct ProgGen {
    pub max_items: usize,
    pub allow_banks: bool,
    pub allow_faults: bool,
    /// prefer rules whose size depends on the operand value, and label operands (G-CASC)
    pub family_bias: bool,
}

#[derive(Default, Clone, Debug)]
pub struct ProgInfo {
    pub fault: Option<&'static str>,
    pub n_instr: usize,
    pub symbol_operands: usize,
    pub forward_refs: bool,
    pub nested_labels: bool,
    pub banks: usize,
    pub boundary_values: usize,
}

struct Names {
    globals: Vec<String>,        // declared (planned) global labels
    locals: Vec<(String, String)>, // (parent, local)
    consts: Vec<String>,
}

impl ProgGen {
    /// expression for an operand of the given parameter type
    fn operand_expr(&self, t: &mut Tape, ty: PType, names: &Names, info: &mut ProgInfo, cur_global: &Option<String>) -> E {
        let n = match ty {
            PType::U(n) | PType::S(n) | PType::I(n) => n,
            _ => 8,
        };
        let w: [u32; 5] = if self.family_bias { [2, 1, 8, 1, 2] } else { [5, 4, 2, 2, 1] };
        match t.weighted(&w) {
            0 => {
                // small value in range for most types
                let v = BigInt::from(t.draw(1 << n.min(4)));
                int_expr(&v, t)
            }
            1 => {
                info.boundary_values += 1;
                let v = boundary_value(t, n);
                int_expr(&v, t)
            }
            2 if !names.globals.is_empty() => {
                info.symbol_operands += 1;
                let g = t.pick(&names.globals).clone();
                match t.weighted(&[4, 2, 2]) {
                    0 => E::Var(g),
                    1 => E::Bin(BinOp::Add, Box::new(E::Var(g)), Box::new(lit_of(t.draw(4) as u64))),
                    _ => E::Bin(BinOp::Sub, Box::new(E::Var(g)), Box::new(E::Var("$".into()))),
                }
            }
            3 if !names.consts.is_empty() => {
                info.symbol_operands += 1;
                E::Var(t.pick(&names.consts).clone())
            }
            4 if !names.locals.is_empty() => {
                info.symbol_operands += 1;
                let (p, l) = t.pick(&names.locals).clone();
                if cur_global.as_deref() == Some(&p) && t.flip() {
                    E::Var(format!(".{}", l))
                } else {
                    E::Var(format!("{}.{}", p, l))
                }
            }
            _ => int_expr(&BigInt::from(t.draw(16)), t),
        }
    }

    fn canon(e: E) -> IOp {
        // a bare identifier is a word (it may equally be read as a symbol by an expression slot)
        match &e {
            E::Var(n) if !n.contains('.') && n != "$" => IOp::Word(n.clone()),
            _ => IOp::Expr(e),
        }
    }

    fn instr_for(&self, t: &mut Tape, isa: &Isa, r: &Rule, names: &Names, info: &mut ProgInfo, cur_global: &Option<String>) -> Instr {
        let mut ops = Vec::new();
        for p in &r.ops {
            let mut wrap = p.wrap;
            let op = match &p.op {
                POp::Lit(w) => IOp::Word(w.clone()),
                POp::Param { ty: PType::Sub(si), .. } => {
                    // descend through nested sub-rules until a literal or an expression alternative is chosen
                    let mut si = *si;
                    loop {
                        let sr = &isa.subrules[si];
                        let alt = &sr.alts[t.below(sr.alts.len())];
                        match &alt.op {
                            POp::Lit(w) => break IOp::Word(w.clone()),
                            POp::Param { ty: PType::Sub(sj), .. } => si = *sj,
                            POp::Param { ty, .. } => {
                                // v2: inside a sub-rule operand, a symbol named like a parameter of the ENCLOSING rule
                                // (the text of the line is evaluated in the caller's context, not the rule's)
                                let shadow: Vec<&String> = names.globals.iter().filter(|g| r.ops.iter().any(|o| matches!(&o.op, POp::Param { name, .. } if name == *g))).collect();
                                if crate::engine::gen_version() >= 2 && !shadow.is_empty() && t.chance(1, 2) {
                                    info.symbol_operands += 1;
                                    break Self::canon(E::Var(shadow[t.below(shadow.len())].clone()));
                                }
                                break Self::canon(self.operand_expr(t, *ty, names, info, cur_global));
                            }
                        }
                    }
                }
                POp::Param { ty, .. } => {
                    if wrap == Wrap::None && t.chance(1, 12) {
                        wrap = Wrap::Paren; // `(e)` offered to a bare slot
                    }
                    // a symbol that happens to be named like one of the rule's parameters
                    let shadow: Vec<&String> = names.globals.iter().filter(|g| r.ops.iter().any(|o| matches!(&o.op, POp::Param { name, .. } if name == *g))).collect();
                    if !shadow.is_empty() && t.chance(1, 2) {
                        info.symbol_operands += 1;
                        Self::canon(E::Var(shadow[t.below(shadow.len())].clone()))
                    } else {
                        Self::canon(self.operand_expr(t, *ty, names, info, cur_global))
                    }
                }
            };
            ops.push(InsOp { wrap, op });
        }
        Instr { mnemonic: r.mnemonic.clone(), ops }
    }

    pub fn gen(&self, t: &mut Tape, isa: Isa) -> (Program, ProgInfo) {
        let mut info = ProgInfo::default();
        let mut items: Vec<Item> = Vec::new();
        let n_items = t.urange(3, self.max_items);

        // plan the symbols first so that forward references are possible
        let n_glob = t.urange(0, 5).min(n_items);
        let mut names = Names { globals: vec![], locals: vec![], consts: vec![] };
        let gstart = t.below(GLOBALS.len());
        for i in 0..n_glob {
            names.globals.push(GLOBALS[(gstart + i) % GLOBALS.len()].to_string());
        }
        if n_glob > 0 && t.chance(1, 6) {
            // deliberate overlap: a global label named like a rule parameter
            let k = t.below(n_glob);
            names.globals[k] = t.pick(&["p0", "p1"]).to_string();
        }
        let n_const = t.weighted(&[3, 3, 2, 1]);
        for i in 0..n_const {
            names.consts.push(CONSTS[i].to_string());
        }
        if t.chance(1, 10) {
            // deliberate overlap: a constant named like a register
            names.consts.push(t.pick(REGS).to_string());
        }
        if crate::engine::gen_version() >= 2 && t.chance(1, 6) {
            // v2, deliberate overlap: a GLOBAL constant named like a nested label (`l0 = 3` beside `g1.l0:`):
            // `.l0` and `l0` are different symbols
            names.consts.push(t.pick(LOCALS).to_string());
        }

        // constants at the top: literals and chains
        for (i, c) in names.consts.clone().iter().enumerate() {
            let e = if i > 0 && t.chance(1, 3) {
                E::Bin(*t.pick(&[BinOp::Add, BinOp::Mul]), Box::new(E::Var(names.consts[t.below(i)].clone())), Box::new(lit_of(t.draw(5) as u64)))
            } else {
                let n = *t.pick(&[3usize, 4, 8]);
                let v = if t.flip() { BigInt::from(t.draw(20)) } else { boundary_value(t, n) };
                int_expr(&v, t)
            };
            items.push(Item::Const { dots: 0, name: c.clone(), e, noemit: false });
        }

        // v3: constants wider than a machine word whose lower words have leading zero digits (they are only declared
        // and listed, never used as operands)
        if crate::engine::gen_version() >= 3 && t.chance(1, 6) {
            let texts = ["0x1_0000_0000_0000_0001", "0x0123456789abcdef_0011223344556677", "0x1_0000_0000_0000_0000", "0xff_0000_0000_0fff_ffff", "18446744073709551617"];
            let k = t.below(texts.len());
            let text = texts[k];
            let clean: String = text.chars().filter(|c| *c != '_').collect();
            let (v, size) = if let Some(h) = clean.strip_prefix("0x") { (BigInt::parse_bytes(h.as_bytes(), 16).unwrap(), Some(h.len() * 4)) } else { (BigInt::parse_bytes(clean.as_bytes(), 10).unwrap(), None) };
            items.push(Item::Const { dots: 0, name: format!("kw{}", k), e: E::Lit { text: text.to_string(), v, size }, noemit: false });
        }

        // v2: a constant whose value is a conditional with a decided condition; the arm that is taken may read a
        // label declared later (so the constant is NOT known before addresses are), the other arm is a literal
        if crate::engine::gen_version() >= 2 && !names.globals.is_empty() && t.chance(1, 5) {
            let g = E::Var(t.pick(&names.globals).clone());
            let lbl_arm = if t.flip() { g } else { E::Bin(BinOp::Add, Box::new(g), Box::new(lit_of(t.draw(4) as u64))) };
            let lit_arm = lit_of(t.draw(9) as u64);
            let (av, bv) = (1 + t.draw(3) as u64, t.draw(3) as u64);
            // the condition av > bv is decided by its literals; pick which arm is taken
            let cond = E::Bin(BinOp::Gt, Box::new(lit_of(av)), Box::new(lit_of(bv)));
            let taken_is_label = t.chance(3, 4);
            let truth = av > bv;
            let e = if truth == taken_is_label { E::Tern(Box::new(cond), Box::new(lbl_arm), Box::new(lit_arm)) } else { E::Tern(Box::new(cond), Box::new(lit_arm), Box::new(lbl_arm)) };
            names.consts.push("kt".to_string());
            items.push(Item::Const { dots: 0, name: "kt".to_string(), e, noemit: false });
        }

        // v2: a constant whose SIZE (and sometimes only its size) depends on an address, emitted by `#d` in front
        // of everything: `ks = g > K ? 0x00 : 0x0000` / `#d ks`
        if crate::engine::gen_version() >= 2 && self.family_bias && !names.globals.is_empty() && t.chance(1, 5) {
            let g = E::Var(t.pick(&names.globals).clone());
            let k = lit_of(*t.pick(&[1u64, 2, 3, 4, 6, 8, 12, 16]));
            let v1 = t.draw(3) as u64;
            let v2 = if t.chance(2, 3) { v1 } else { t.draw(3) as u64 };
            let (s1, s2) = *t.pick(&[(8usize, 16usize), (16, 8), (4, 8), (8, 8)]);
            let cond = E::Bin(*t.pick(&[BinOp::Gt, BinOp::Lt, BinOp::Ge]), Box::new(g), Box::new(k));
            names.consts.push("ks".to_string());
            // one in three: the constant is a BOOLEAN computed from the address, its reader picks a value by it
            let boolean = t.chance(1, 3);
            let (decl, user) = if boolean {
                names.consts.pop();
                (
                    Item::Const { dots: 0, name: "kbool".to_string(), e: cond, noemit: false },
                    Item::Data { width: Some(8), elems: vec![E::Tern(Box::new(E::Var("kbool".to_string())), Box::new(lit_of(0xff)), Box::new(lit_of(0x11 + v1)))] },
                )
            } else {
                (
                    Item::Const { dots: 0, name: "ks".to_string(), e: E::Tern(Box::new(cond), Box::new(sized_lit(v1, s1)), Box::new(sized_lit(v2, s2))), noemit: false },
                    Item::Data { width: None, elems: vec![E::Var("ks".to_string())] },
                )
            };
            // the reader usually stands BEFORE the declaration (it then sees the value of the previous pass)
            if t.chance(3, 4) {
                items.push(user);
                items.push(decl);
            } else {
                items.push(decl);
                items.push(user);
            }
        }

        // v2: a constant that is a later label (+n), declared somewhere BEHIND its first uses: operands naming it
        // settle one pass later than operands naming the label itself
        let mut planned_kfwd: Option<Item> = None;
        if crate::engine::gen_version() >= 2 && self.family_bias && !names.globals.is_empty() && t.chance(1, 3) {
            let g = E::Var(t.pick(&names.globals).clone());
            let e = if t.flip() { g } else { E::Bin(BinOp::Add, Box::new(g), Box::new(lit_of(t.draw(3) as u64))) };
            names.consts.push("kfwd".to_string());
            planned_kfwd = Some(Item::Const { dots: 0, name: "kfwd".to_string(), e, noemit: false });
        }

        // banks
        let mut banks: Vec<BankDef> = Vec::new();
        if self.allow_banks && t.chance(2, 5) {
            let nb = t.urange(1, 3);
            let mut outp = 0usize;
            for b in 0..nb {
                let bits = *t.pick(&[8usize, 8, 8, 16, 4, 32]);
                let size_units = *t.pick(&[16usize, 32, 64, 256]);
                let last = b + 1 == nb;
                let has_size = !last || t.flip();
                let def = BankDef {
                    name: format!("bank{}", b),
                    bits: if bits == 8 && t.flip() { None } else { Some(bits) },
                    addr: if t.flip() { None } else { Some(*t.pick(&[0i64, 0x10, 0x100, 0x8000])) },
                    size: if has_size { Some(size_units) } else { None },
                    outp: Some(outp),
                    fill: false,
                    // v3: some banks ask for aligned (top-level) labels
                    labelalign: if crate::engine::gen_version() >= 3 && t.chance(1, 6) { Some(*t.pick(&[16usize, 32, 64])) } else { None },
                };
                outp += size_units * bits + if t.chance(1, 4) { 8 * t.draw(4) as usize } else { 0 };
                banks.push(def);
            }
            info.banks = nb;
            for b in &banks {
                items.push(Item::BankDef(b.clone()));
            }
            if nb > 1 {
                items.push(Item::Bank(banks[0].name.clone()));
            }
        }
        let unit_of = |name: &Option<String>, banks: &Vec<BankDef>| -> usize {
            match name {
                Some(n) => banks.iter().find(|b| &b.name == n).and_then(|b| b.bits).unwrap_or(8),
                None => 8,
            }
        };
        let mut cur_bank: Option<String> = banks.first().map(|b| b.name.clone());
        let all_rules: Vec<&Rule> = isa.blocks.iter().flat_map(|b| b.rules.iter()).collect();
        // rules that share mnemonic and operand count with a rule of another size
        let cascading: Vec<&Rule> = all_rules
            .iter()
            .filter(|r| all_rules.iter().any(|q| q.mnemonic == r.mnemonic && q.ops.len() == r.ops.len() && q.size != r.size))
            .cloned()
            .collect();
        let mut cur_global: Option<String> = None;
        let mut next_global = 0usize;
        let mut est_bits: usize = 0; // upper bound of the cursor of the current bank (for forward #addr)
        let fault_at = if self.allow_faults && t.chance(1, 5) { Some(t.below(n_items)) } else { None };
        let mut used_locals: Vec<(String, String)> = Vec::new();
        // locals are planned lazily: declare under the current global, reference afterwards or before (forward)
        for gi in 0..names.globals.len() {
            if t.chance(1, 2) {
                let l = t.pick(LOCALS).to_string();
                names.locals.push((names.globals[gi].clone(), l));
            }
        }
        let mut pending_locals: Vec<(String, String)> = names.locals.clone();

        for k in 0..n_items {
            let unit = unit_of(&cur_bank, &banks);
            // declare the next global label at roughly even spacing
            if next_global < names.globals.len() && (t.chance(1, 3) || n_items - k <= names.globals.len() - next_global) {
                // locals of the global that is being left must be declared before the scope changes
                if let Some(g) = &cur_global {
                    while let Some(pos) = pending_locals.iter().position(|(p, _)| p == g) {
                        let (p, l) = pending_locals.remove(pos);
                        if est_bits % unit != 0 {
                            items.push(Item::Align(lit_of(unit.max(8) as u64)));
                            est_bits += unit.max(8);
                        }
                        items.push(Item::Label { dots: 1, name: l.clone() });
                        used_locals.push((p, l));
                        info.nested_labels = true;
                    }
                }
                if est_bits % unit != 0 || t.chance(1, 6) {
                    items.push(Item::Align(lit_of(unit.max(8) as u64)));
                    est_bits += unit.max(8);
                }
                let g = names.globals[next_global].clone();
                items.push(Item::Label { dots: 0, name: g.clone() });
                cur_global = Some(g);
                next_global += 1;
                continue;
            }
            if let Some(g) = &cur_global {
                if let Some(pos) = pending_locals.iter().position(|(p, _)| p == g) {
                    if t.chance(1, 2) {
                        let (p, l) = pending_locals.remove(pos);
                        if est_bits % unit != 0 {
                            items.push(Item::Align(lit_of(unit.max(8) as u64)));
                            est_bits += unit.max(8);
                        }
                        items.push(Item::Label { dots: 1, name: l.clone() });
                        if crate::engine::gen_version() >= 2 && t.chance(1, 3) {
                            // v2: a third nesting level (same address), sometimes a fourth
                            items.push(Item::Label { dots: 2, name: "dd".to_string() });
                            if t.chance(1, 3) {
                                items.push(Item::Label { dots: 3, name: "ee".to_string() });
                            }
                        }
                        used_locals.push((p, l));
                        info.nested_labels = true;
                        continue;
                    }
                }
            }
            let inject = fault_at == Some(k);
            match t.weighted(&[12, 3, 1, 1, 1, if banks.len() > 1 { 1 } else { 0 }, 1]) {
                0 if !all_rules.is_empty() => {
                    let mut r = all_rules[t.below(all_rules.len())];
                    if self.family_bias && !cascading.is_empty() && t.chance(3, 5) {
                        r = cascading[t.below(cascading.len())];
                    }
                    let mut ins = self.instr_for(t, &isa, r, &names, &mut info, &cur_global);
                    // steer away from instructions that the rules reject on their own (ties, no candidate):
                    // keep a quarter of them as negative cases, regenerate the rest (at most twice)
                    for _ in 0..2 {
                        let probe = Program { isa: isa.clone(), items: vec![Item::Instr(ins.clone())] };
                        let rejected = matches!(
                            crate::model::refasm::assemble(&probe),
                            crate::model::refasm::RefResult::Reject { class: "tie" | "no-candidate" | "production-error" | "argument-error", .. }
                        );
                        if !rejected || t.chance(1, 4) {
                            break;
                        }
                        r = all_rules[t.below(all_rules.len())];
                        ins = self.instr_for(t, &isa, r, &names, &mut info, &cur_global);
                    }
                    if inject {
                        match t.draw(4) {
                            0 => {
                                ins.mnemonic = "zzz".to_string();
                                info.fault = Some("unknown-mnemonic");
                            }
                            1 => {
                                if ins.ops.is_empty() {
                                    ins.ops.push(InsOp { wrap: Wrap::None, op: IOp::Expr(lit_of(1)) });
                                } else {
                                    ins.ops.pop();
                                }
                                info.fault = Some("operand-count");
                            }
                            2 => {
                                if let Some(o) = ins.ops.iter_mut().find(|o| matches!(o.op, IOp::Expr(_))) {
                                    o.op = IOp::Word("undefined_sym".into());
                                    info.fault = Some("undefined-symbol");
                                }
                            }
                            _ => {
                                if let Some(o) = ins.ops.first_mut() {
                                    o.wrap = if o.wrap == Wrap::Bracket { Wrap::Hash } else { Wrap::Bracket };
                                    info.fault = Some("wrapper");
                                }
                            }
                        }
                    }
                    info.n_instr += 1;
                    est_bits += r.size;
                    items.push(Item::Instr(ins));
                }
                1 => {
                    // data
                    let width = match t.weighted(&[3, 3, 2, 2]) {
                        0 => Some(8usize),
                        1 => Some(*t.pick(&[16usize, 32, 64])),
                        2 => Some(t.urange(1, 64)),
                        _ => None,
                    };
                    let ne = t.urange(1, 3);
                    let mut elems = Vec::new();
                    for _ in 0..ne {
                        let e = match width {
                            Some(w) => match t.weighted(&[5, 2, 1]) {
                                0 => {
                                    let v = if t.flip() { BigInt::from(t.draw(1 << w.min(8))) } else { boundary_value(t, w) };
                                    int_expr(&v, t)
                                }
                                1 if !names.globals.is_empty() => {
                                    // v2: sometimes a nested label of the current scope, spelled relatively
                                    let here: Vec<&(String, String)> = names.locals.iter().filter(|(p, _)| Some(p) == cur_global.as_ref()).collect();
                                    if crate::engine::gen_version() >= 2 && !here.is_empty() && t.flip() {
                                        E::Var(format!(".{}", here[t.below(here.len())].1))
                                    } else {
                                        E::Var(t.pick(&names.globals).clone())
                                    }
                                }
                                _ => E::Var("$".into()),
                            },
                            None => match t.weighted(&[3, 2, 1]) {
                                0 => sized_lit(t.draw(1 << 16) as u64, *t.pick(&[4usize, 8, 12, 16])),
                                1 => string_lit(t, false, true),
                                _ => {
                                    let g = if names.globals.is_empty() { lit_of(5) } else { E::Var(t.pick(&names.globals).clone()) };
                                    E::SliceShort(Box::new(g), Box::new(lit_of(16)))
                                }
                            },
                        };
                        est_bits += width.unwrap_or(32);
                        elems.push(e);
                    }
                    items.push(Item::Data { width, elems });
                }
                2 => {
                    let k = t.draw(5) as u64;
                    est_bits += k as usize * unit;
                    // v2: the amount behind an assertion (holding, or - with faults allowed - failing)
                    if crate::engine::gen_version() >= 2 && t.chance(1, 8) {
                        let holds = !(self.allow_faults && t.chance(1, 3));
                        let c = E::Bin(BinOp::Eq, Box::new(lit_of(1)), Box::new(lit_of(if holds { 1 } else { 2 })));
                        items.push(Item::Res(E::Block(vec![E::Call("assert".into(), vec![c]), lit_of(k)])));
                    } else {
                        items.push(Item::Res(lit_of(k)));
                    }
                }
                3 => {
                    let a = *t.pick(&[8u64, 16, 32, 64]);
                    est_bits += a as usize;
                    if crate::engine::gen_version() >= 2 && t.chance(1, 8) {
                        let holds = !(self.allow_faults && t.chance(1, 3));
                        let c = E::Bin(BinOp::Eq, Box::new(lit_of(1)), Box::new(lit_of(if holds { 1 } else { 2 })));
                        items.push(Item::Align(E::Block(vec![E::Call("assert".into(), vec![c]), lit_of(a)])));
                    } else {
                        items.push(Item::Align(lit_of(a)));
                    }
                }
                4 => {
                    // forward #addr: beyond everything emitted so far in this bank
                    let base = cur_bank.as_ref().and_then(|n| banks.iter().find(|b| &b.name == n)).and_then(|b| b.addr).unwrap_or(0);
                    let units = est_bits / unit + 1 + t.draw(4) as usize;
                    est_bits = units * unit;
                    items.push(Item::Addr(lit_of((base as usize + units) as u64)));
                }
                5 => {
                    let b = &banks[t.below(banks.len())];
                    cur_bank = Some(b.name.clone());
                    // conservative: a re-entered bank continues after everything estimated so far
                    items.push(Item::Bank(b.name.clone()));
                }
                _ => {
                    // address-dependent constant
                    if !names.globals.is_empty() && names.consts.len() < 8 {
                        let nm = format!("kk{}", k);
                        let g = t.pick(&names.globals).clone();
                        items.push(Item::Const {
                            dots: 0,
                            name: nm.clone(),
                            e: E::Bin(BinOp::Add, Box::new(E::Var(g)), Box::new(lit_of(t.draw(8) as u64))),
                            noemit: t.chance(1, 4),
                        });
                        // declaring a global symbol resets the scope, like a label
                        cur_global = None;
                    }
                }
            }
        }
        // planned globals that were never declared would make every reference undefined: declare the rest
        while next_global < names.globals.len() {
            items.push(Item::Align(lit_of(unit_of(&cur_bank, &banks).max(8) as u64)));
            items.push(Item::Label { dots: 0, name: names.globals[next_global].clone() });
            cur_global = Some(names.globals[next_global].clone());
            next_global += 1;
            if let Some(pos) = pending_locals.iter().position(|(p, _)| Some(p) == cur_global.as_ref()) {
                let (_, l) = pending_locals.remove(pos);
                items.push(Item::Label { dots: 1, name: l });
            }
        }
        if let Some(decl) = planned_kfwd {
            // a global constant resets the scope: it may only stand right in front of a global label, or at the end
            let mut spots: Vec<usize> = (0..items.len()).filter(|&i| matches!(items[i], Item::Label { dots: 0, .. })).collect();
            spots.push(items.len());
            let at = spots[t.below(spots.len())];
            items.insert(at, decl);
        }
        info.forward_refs = true;
        (Program { isa, items }, info)
    }
}
