pub mod corpus;
pub mod mutate;
pub mod expr;
