pub mod corpus;
pub mod mutate;
pub mod expr;
pub mod isa;
pub mod program;
pub mod banks;
pub mod render;
