pub mod corpus;
pub mod mutate;
