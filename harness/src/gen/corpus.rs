//! G-CORPUS: every `.asm` under /repo/tests (read from the *current* tree) with its directory
//! as file set and its `; command:` line if any.

use std::path::Path;

#[derive(Clone, Debug)]
pub struct CorpusEntry {
    pub name: String,                   // e.g. "driver/ok_define_if1/main.asm"
    pub root: String,                   // root file name inside the set
    pub files: Vec<(String, Vec<u8>)>,  // the directory of the test, names relative to it
    pub command: Option<Vec<String>>,   // args after the program name, [file] substituted
}

fn walk(dir: &Path, rel: &str, out: &mut Vec<(String, Vec<u8>)>) {
    let mut entries: Vec<_> = match std::fs::read_dir(dir) {
        Ok(e) => e.filter_map(|e| e.ok()).collect(),
        Err(_) => return,
    };
    entries.sort_by_key(|e| e.file_name());
    for e in entries {
        let p = e.path();
        let name = format!("{}{}", rel, e.file_name().to_string_lossy());
        if p.is_file() {
            if let Ok(c) = std::fs::read(&p) {
                out.push((name, c));
            }
        } else if p.is_dir() {
            walk(&p, &format!("{}/", name), out);
        }
    }
}

fn collect(dir: &Path, rel: &str, out: &mut Vec<CorpusEntry>) {
    let mut entries: Vec<_> = match std::fs::read_dir(dir) {
        Ok(e) => e.filter_map(|e| e.ok()).collect(),
        Err(_) => return,
    };
    entries.sort_by_key(|e| e.file_name());
    let mut set: Option<Vec<(String, Vec<u8>)>> = None;
    for e in &entries {
        let p = e.path();
        let fname = e.file_name().to_string_lossy().to_string();
        if p.is_file() && fname.ends_with(".asm") {
            let files = set.get_or_insert_with(|| {
                let mut v = Vec::new();
                walk(dir, "", &mut v);
                v
            });
            let text = String::from_utf8_lossy(&std::fs::read(&p).unwrap_or_default()).to_string();
            let mut command = None;
            for line in text.lines() {
                if let Some(pos) = line.find("; command: ") {
                    let args: Vec<String> = line[pos + "; command: ".len()..]
                        .split(' ')
                        .map(|s| s.trim().to_string())
                        .map(|a| if a == "[file]" { fname.clone() } else { a })
                        .collect();
                    command = Some(args);
                }
            }
            out.push(CorpusEntry { name: format!("{}{}", rel, fname), root: fname.clone(), files: files.clone(), command });
        }
    }
    for e in &entries {
        let p = e.path();
        if p.is_dir() {
            collect(&p, &format!("{}{}/", rel, e.file_name().to_string_lossy()), out);
        }
    }
}

pub fn corpus() -> &'static Vec<CorpusEntry> {
    static C: std::sync::OnceLock<Vec<CorpusEntry>> = std::sync::OnceLock::new();
    C.get_or_init(|| {
        let mut out = Vec::new();
        collect(&crate::repo_dir().join("tests"), "", &mut out);
        collect(&crate::repo_dir().join("examples"), "examples/", &mut out);
        out
    })
}
