//! Alternative renderings of a structured program (C07): recasing, extra blanks and tabs,
//! comments, rule permutation / re-partitioning, consistent label renaming.

use crate::engine::Tape;
use crate::model::expr::*;
use crate::model::isa::*;
use crate::model::program::*;
use std::collections::HashMap;

#[derive(Clone, Copy, Debug, Default)]
pub struct Variant {
    pub recase: bool,
    pub spacing: bool,
    pub comments: bool,
    pub permute_rules: bool,
    pub rename_labels: bool,
}

impl Variant {
    pub fn kinds(&self) -> usize {
        self.recase as usize + self.spacing as usize + self.comments as usize + self.permute_rules as usize + self.rename_labels as usize
    }
}

fn recase(t: &mut Tape, s: &str) -> String {
    s.chars().map(|c| if t.flip() { c.to_ascii_uppercase() } else { c.to_ascii_lowercase() }).collect()
}

/// for each operand of the instruction: is it read literally by EVERY surviving rule?
pub fn literal_positions(isa: &Isa, ins: &Instr) -> Vec<bool> {
    let surv = survivors(isa, ins);
    let mut lit = vec![!surv.is_empty(); ins.ops.len()];
    for m in &surv {
        let r = rule_of(isa, m);
        let mut bi = 0;
        for (k, p) in r.ops.iter().enumerate() {
            match &p.op {
                POp::Lit(_) => {}
                POp::Param { ty: PType::Sub(_), .. } => {
                    match m.args.get(bi) {
                        Some(ArgBinding::Sub { inner: None, .. }) => {}
                        _ => lit[k] = false,
                    }
                    bi += 1;
                }
                POp::Param { .. } => {
                    lit[k] = false;
                    bi += 1;
                }
            }
        }
    }
    lit
}

pub fn rename_name(n: &str, map: &HashMap<String, String>) -> String {
    let k = n.chars().take_while(|c| *c == '.').count();
    let parts: Vec<String> = n[k..].split('.').map(|p| map.get(p).cloned().unwrap_or_else(|| p.to_string())).collect();
    format!("{}{}", ".".repeat(k), parts.join("."))
}

pub fn rename_e(e: &E, map: &HashMap<String, String>) -> E {
    let r = |x: &E| Box::new(rename_e(x, map));
    match e {
        E::Var(n) => E::Var(rename_name(n, map)),
        E::Un(o, a) => E::Un(*o, r(a)),
        E::Bin(o, a, b) => E::Bin(*o, r(a), r(b)),
        E::Tern(a, b, c) => E::Tern(r(a), r(b), r(c)),
        E::Slice(a, b, c) => E::Slice(r(a), r(b), r(c)),
        E::SliceShort(a, b) => E::SliceShort(r(a), r(b)),
        E::Call(n, args) => E::Call(n.clone(), args.iter().map(|a| rename_e(a, map)).collect()),
        E::Block(es) => E::Block(es.iter().map(|a| rename_e(a, map)).collect()),
        other => other.clone(),
    }
}

fn gap(t: &mut Tape, v: &Variant, must_have_blank: bool) -> String {
    // a token boundary: optional extra blanks / tabs / block comment. If the rule text has a blank
    // here, a blank must come first (a whitespace pattern part wants a whitespace token next).
    let mut s = String::new();
    if v.spacing && crate::engine::gen_version() >= 2 && must_have_blank {
        // v2: the additional blanks/tabs may stand BEFORE the blank the rule text asks for (`ld<TAB> 5`)
        for _ in 0..t.draw(3) {
            s.push(if t.chance(1, 2) { '\t' } else { ' ' });
        }
    }
    // v3: a block comment may stand directly behind the previous token, BEFORE the blank the rule text asks for
    // (`ld;* c *; 5`): a comment between two tokens changes nothing
    if v.comments && must_have_blank && crate::engine::gen_version() >= 3 && t.chance(1, 6) {
        s.push_str(";* c *;");
    }
    if must_have_blank {
        s.push(' ');
    }
    if v.spacing {
        for _ in 0..t.draw(3) {
            s.push(if t.chance(1, 3) { '\t' } else { ' ' });
        }
    }
    if v.comments && t.chance(1, 4) {
        if s.is_empty() {
            s.push(' ');
        }
        s.push_str(";* c , [x] *; ");
    }
    s
}

pub fn instr_variant(t: &mut Tape, v: &Variant, isa: &Isa, ins: &Instr, map: &HashMap<String, String>) -> String {
    let lits = if v.recase { literal_positions(isa, ins) } else { vec![false; ins.ops.len()] };
    let mut s = if v.recase { recase(t, &ins.mnemonic) } else { ins.mnemonic.clone() };
    for (k, o) in ins.ops.iter().enumerate() {
        if k == 0 {
            s.push_str(&gap(t, v, true));
        } else {
            s.push_str(&gap(t, v, false));
            s.push(',');
            s.push_str(&gap(t, v, true));
        }
        s.push_str(o.wrap.open());
        if o.wrap != Wrap::None {
            s.push_str(&gap(t, v, false));
        }
        match &o.op {
            IOp::Word(w) => {
                if v.recase && lits[k] {
                    s.push_str(&recase(t, w));
                } else if v.rename_labels {
                    s.push_str(&rename_name(w, map));
                } else {
                    s.push_str(w);
                }
            }
            IOp::Expr(e) => {
                let e = if v.rename_labels { rename_e(e, map) } else { e.clone() };
                s.push_str(&print(&e, false));
            }
        }
        if o.wrap != Wrap::None {
            s.push_str(&gap(t, v, false));
        }
        s.push_str(o.wrap.close());
    }
    if v.comments && t.chance(1, 3) {
        s.push_str(" ; trailing, comment [1]");
    }
    s
}

pub fn render_variant(t: &mut Tape, v: &Variant, p: &Program) -> String {
    // label renaming map
    let mut map: HashMap<String, String> = HashMap::new();
    if v.rename_labels {
        let mut k = 0;
        for it in &p.items {
            if let Item::Label { name, .. } = it {
                if !map.contains_key(name) {
                    map.insert(name.clone(), format!("zq{}_{}", k, name.len()));
                    k += 1;
                }
            }
        }
    }
    // rule blocks
    let mut isa = p.isa.clone();
    if v.permute_rules {
        let mut rules: Vec<Rule> = isa.blocks.iter().flat_map(|b| b.rules.iter().cloned()).collect();
        for i in (1..rules.len()).rev() {
            let j = t.below(i + 1);
            rules.swap(i, j);
        }
        let nb = t.urange(1, 4).min(rules.len().max(1));
        let mut blocks: Vec<RuleBlock> = (0..nb).map(|b| RuleBlock { name: if t.flip() { Some(format!("rb{}", b)) } else { None }, rules: vec![] }).collect();
        for (i, r) in rules.into_iter().enumerate() {
            let b = if i < nb { i } else { t.below(nb) };
            blocks[b].rules.push(r);
        }
        isa.blocks = blocks;
    }
    if v.recase {
        // the rule definitions themselves may be written in any case
        for b in &mut isa.blocks {
            for r in &mut b.rules {
                r.mnemonic = recase(t, &r.mnemonic);
                for o in &mut r.ops {
                    if let POp::Lit(w) = &mut o.op {
                        *w = recase(t, w);
                    }
                }
            }
        }
        for sr in &mut isa.subrules {
            for a in &mut sr.alts {
                if let POp::Lit(w) = &mut a.op {
                    *w = recase(t, w);
                }
            }
        }
    }
    if v.rename_labels {
        // productions may name global symbols
        for b in &mut isa.blocks {
            for r in &mut b.rules {
                // parameters shadow symbols inside a production: do not rename them
                let mut m2 = map.clone();
                for o in &r.ops {
                    if let POp::Param { name, .. } = &o.op {
                        m2.remove(name);
                    }
                }
                r.prod = rename_e(&r.prod, &m2);
            }
        }
    }
    // the spacing variant also re-draws which rule patterns carry the optional blank behind their commas
    let salt = if v.spacing && crate::engine::gen_version() >= 2 { 1 + t.draw(1 << 20) as u64 } else { 0 };
    crate::model::isa::TIGHT_SALT.with(|c| c.set(salt));
    let mut s = isa_text(&isa);
    crate::model::isa::TIGHT_SALT.with(|c| c.set(0));
    for it in &p.items {
        let line = match it {
            Item::Instr(ins) => instr_variant(t, v, &p.isa, ins, &map),
            Item::Label { dots, name } => {
                let n = if v.rename_labels { map.get(name).cloned().unwrap_or_else(|| name.clone()) } else { name.clone() };
                format!("{}{}:", ".".repeat(*dots), n)
            }
            Item::Const { dots, name, e, noemit } => {
                let e = if v.rename_labels { rename_e(e, &map) } else { e.clone() };
                // a constant that shares its bare name with a label is renamed along with it (every occurrence of
                // the name is rewritten, so the renaming stays consistent)
                let n = if v.rename_labels { map.get(name).cloned().unwrap_or_else(|| name.clone()) } else { name.clone() };
                item_text(&Item::Const { dots: *dots, name: n, e, noemit: *noemit })
            }
            Item::Data { width, elems } => {
                let elems = if v.rename_labels { elems.iter().map(|e| rename_e(e, &map)).collect() } else { elems.clone() };
                item_text(&Item::Data { width: *width, elems })
            }
            other => item_text(other),
        };
        s.push_str(&line);
        s.push('\n');
    }
    s
}
