//! casverif: property-based verification harness for hlorenzi/customasm.
//!   casverif check <ID> [--tier quick|thorough]      (VERIF_SEED, VERIF_TIER honoured)
//!   casverif replay <ID> <file>
//!   casverif worker ... / replay-raw ...              (internal)

use casverif::engine::runner::{self, Tier};
use casverif::{engine, props};
use std::path::PathBuf;

fn with_big_stack<F: FnOnce() -> i32 + Send + 'static>(f: F) -> i32 {
    std::thread::Builder::new()
        .stack_size(512 << 20)
        .spawn(f)
        .unwrap()
        .join()
        .unwrap_or(2)
}

fn main() {
    let args: Vec<String> = std::env::args().collect();
    let cmd = args.get(1).map(|s| s.as_str()).unwrap_or("");
    let code = match cmd {
        "check" => {
            let id = args.get(2).cloned().unwrap_or_default();
            let mut tier = Tier::parse(&std::env::var("VERIF_TIER").unwrap_or_default());
            let mut i = 3;
            while i < args.len() {
                if args[i] == "--tier" && i + 1 < args.len() {
                    tier = Tier::parse(&args[i + 1]);
                    i += 1;
                }
                i += 1;
            }
            let seed: u64 = std::env::var("VERIF_SEED").ok().and_then(|s| s.parse().ok()).unwrap_or(1);
            match props::by_id(&id) {
                Some(p) => runner::check_main(p.as_ref(), tier, seed),
                None => {
                    println!("BROKEN-CHECK unknown property {}", id);
                    2
                }
            }
        }
        "worker" => {
            // worker <ID> <tier> <seed> <w> <n> <out>
            let id = args[2].clone();
            let tier = Tier::parse(&args[3]);
            let seed: u64 = args[4].parse().unwrap();
            let w: usize = args[5].parse().unwrap();
            let n: usize = args[6].parse().unwrap();
            let out = PathBuf::from(&args[7]);
            with_big_stack(move || {
                let p = props::by_id(&id).expect("property");
                runner::worker_main(p.as_ref(), tier, seed, w, n, &out);
                0
            })
        }
        "replay-raw" => {
            let id = args[2].clone();
            let file = PathBuf::from(&args[3]);
            with_big_stack(move || {
                let p = props::by_id(&id).expect("property");
                runner::replay_raw_main(p.as_ref(), &file)
            })
        }
        "replay" => {
            let id = args.get(2).cloned().unwrap_or_default();
            let file = PathBuf::from(args.get(3).cloned().unwrap_or_default());
            match props::by_id(&id) {
                Some(p) => {
                    if let Err(e) = p.setup(Tier::Quick) {
                        println!("BROKEN-CHECK property={} setup failed: {}", id, e);
                        std::process::exit(2);
                    }
                    runner::replay_main(p.as_ref(), &file)
                }
                None => 2,
            }
        }
        "render" => {
            // development aid: print the case a replay file denotes
            let id = args[2].clone();
            let file = PathBuf::from(&args[3]);
            with_big_stack(move || {
                let p = props::by_id(&id).expect("property");
                let _ = p.setup(Tier::Quick);
                engine::sut::install_panic_hook();
                let v: serde_json::Value = serde_json::from_slice(&std::fs::read(&file).expect("read")).expect("json");
                let (verdict, r) = runner::run_replay_value_rendered(p.as_ref(), &v, true);
                println!("{}", serde_json::to_string_pretty(&r).unwrap());
                println!("{:?}", verdict);
                0
            })
        }
        "build-sut" => match engine::realbin::build(false).and_then(|_| engine::realbin::build(true)) {
            Ok(p) => {
                println!("built {}", p.display());
                0
            }
            Err(e) => {
                println!("BROKEN-CHECK {}", e);
                2
            }
        },
        "describe" => {
            // machine-readable description of every check (source of DESIGN.md appendix A)
            let mut out = Vec::new();
            for p in props::all() {
                out.push(serde_json::json!({
                    "id": p.id(),
                    "level": p.level(),
                    "rule": p.rule(),
                    "assumptions": p.assumptions(),
                    "random_cases": [p.random_cases(Tier::Quick), p.random_cases(Tier::Thorough)],
                    "enumerated": [p.enumerated(Tier::Quick), p.enumerated(Tier::Thorough)],
                    "exhaustive": [p.exhaustive(Tier::Quick), p.exhaustive(Tier::Thorough)],
                    "tape_len": p.tape_len(Tier::Quick),
                    "workers": p.workers(Tier::Quick),
                    "fuzz_runs_per_job": p.fuzz_runs(Tier::Thorough),
                    "fuzz_mode": if p.fuzz_runs(Tier::Thorough) == 0 { "none" } else if p.fuzz_raw() { "raw" } else { "tape" },
                    "crash_is_violation": p.crash_is_violation(),
                }));
            }
            println!("{}", serde_json::to_string_pretty(&out).unwrap());
            0
        }
        "list" => {
            for p in props::all() {
                println!("{}", p.id());
            }
            0
        }
        _ => {
            eprintln!("usage: casverif check <ID> [--tier quick|thorough] | replay <ID> <file> | list");
            2
        }
    };
    std::process::exit(code);
}
