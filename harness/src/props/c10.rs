//! C10 — assembly is a deterministic function of its inputs.

use crate::engine::realbin;
use crate::engine::sut::{self, MemFs};
use crate::engine::{CaseCtx, Property, Tape, Tier, Verdict};
use crate::props::c08::{gen_job, job_json, Job};
use serde_json::json;

pub struct C10;

pub const FORMAT_SETS: &[&[&str]] = &[
    &["binary", "annotated", "symbols", "intelhex", "addrspan"],
    &["hexdump", "mesen-mlb", "tcgame", "annotated,base:2,group:3", "mif"],
    &["symbols", "hexc", "logisim16", "bindump", "annotatedbin"],
    // invalid ones: the diagnostic must be the same every time
    &["hexstr,foo,bar"],
    &["annotated,zeta:1,alpha:2,mid:3"],
    &["intelhex,addr_unit:7,q:1"],
];

pub fn args_for(job: &Job, set: &[&str], extra: &[String]) -> Vec<String> {
    let mut a = vec!["-q".to_string(), job.root.clone()];
    // v3: further input files of the command line (pseudo-file `@inputs`, one name per line), in this order
    for (n, b) in &job.files {
        if n == "@inputs" {
            a.extend(String::from_utf8_lossy(b).lines().map(|l| l.to_string()));
        }
    }
    a.extend(extra.iter().cloned());
    for (k, f) in set.iter().enumerate() {
        if k > 0 {
            a.push("--".into());
        }
        a.push("-f".into());
        a.push(f.to_string());
        a.push("-o".into());
        a.push(format!("out{}.txt", k));
    }
    a
}

/// the full observable record of one in-process run
pub fn record(job: &Job, args: &[String]) -> String {
    let mut fs = MemFs::from_files(&job.files);
    fs.add_std();
    match sut::drive(&mut fs, args) {
        Err(p) => format!("panic {}", p),
        Ok(o) => {
            let mut s = format!("ok={} printed={:?}\n", o.ok, o.printed);
            for (n, d) in &o.writes {
                s.push_str(&format!("file {} {} bytes fnv {:016x}\n", n, d.len(), crate::engine::fnv(d)));
            }
            s
        }
    }
}

/// v2: a root file that includes 2-4 files with the SAME byte layout (names of equal length at equal offsets,
/// global and nested labels, constants), so that anything keyed on a byte range without the file, or on an
/// equal value, ties across files; observed through the symbol-table formats.
pub fn gen_twins(t: &mut Tape) -> Job {
    let n = t.urange(2, 4);
    let mut files: Vec<(String, Vec<u8>)> = Vec::new();
    let mut root = String::new();
    let banked = t.flip();
    if banked {
        root.push_str("#bankdef prg\n{\n    #addr 0x8000\n    #size 0x4000\n    #outp 8 * 0x10\n}\n");
    }
    let shape = t.draw(3);
    let order: Vec<usize> = {
        let mut v: Vec<usize> = (0..n).collect();
        for i in (1..v.len()).rev() {
            let j = t.below(i + 1);
            v.swap(i, j);
        }
        v
    };
    for &i in &order {
        let dir = if t.chance(1, 3) { "lib/" } else { "" };
        let name = format!("{}unit{}.asm", dir, i);
        root.push_str(&format!("#include \"{}\"\n", name));
        let text = match shape {
            0 => format!("m{i}_init:\n#d8 {i}\nm{i}_send:\n#d8 {i}, {i}\n.loop:\n#d8 0\n", i = i),
            1 => format!("c{i}_base = 0x10\nc{i}_size = 0x10\nt{i}:\n#d16 c{i}_base\n.x:\n..y:\n#d8 {i}\n", i = i),
            _ => format!("v{i}:\n#d8 {i}\n#d8 {i}\nw{i}:\n.a = {i}\n.b = {i}\n#d8 0xff\n", i = i),
        };
        files.push((name, text.into_bytes()));
    }
    root.push_str("main:\n#d8 0xee\n");
    files.push(("main.asm".to_string(), root.into_bytes()));
    Job { origin: "twins".into(), files, root: "main.asm".into(), generated: true }
}

/// v2: rules that reach the same instruction text from DIFFERENT prefix buckets of the matcher index
/// (`j{c: cond} {a}` beside `jl {a}`, a rule starting with a parameter beside one starting with a literal),
/// used by lines that tie or fail every candidate, so that the order of candidates shows in the diagnostics.
pub fn gen_buckets(t: &mut Tape) -> Job {
    let mut src = String::from(
        "#subruledef cond\n{\n    l => 0x1\n    e => 0x2\n    le => 0x3\n}\n#subruledef reg\n{\n    a => 0x1\n    b => 0x2\n}\n#ruledef\n{\n",
    );
    let mut rules = vec![
        "    j{c: cond} {a: u8} => 0x10 @ c`8 @ a",
        "    jl {a: u8} => 0x20 @ 0x00 @ a",
        "    jle {a: u8} => 0x21 @ 0x00 @ a",
        "    {r: reg}.set {v: u8} => 0x30 @ r`8 @ v",
        "    a.set {v: u8} => 0x31 @ 0x01 @ v",
        "    b.set {v: u4} => 0x32 @ 0x1 @ v",
    ];
    for i in (1..rules.len()).rev() {
        let j = t.below(i + 1);
        rules.swap(i, j);
    }
    for r in &rules {
        src.push_str(r);
        src.push('\n');
    }
    src.push_str("}\n");
    let lines = ["jl 5", "jle 7", "a.set 7", "b.set 3", "je 1", "jl 300", "jle 999", "a.set 256", "b.set 16", "b.set 200"];
    let n = t.urange(1, 5);
    for _ in 0..n {
        let l: &str = lines[t.below(lines.len())];
        src.push_str(l);
        src.push('\n');
    }
    Job { origin: "buckets".into(), files: vec![("main.asm".into(), src.into_bytes())], root: "main.asm".into(), generated: true }
}

/// v2: a program that reads data files through the inclusion functions; the file NAMES are always the same, the
/// contents come from the tape (so that two jobs of one history differ only in what the files hold; one content in
/// eight holds a character that is no digit)
pub fn gen_incfile(t: &mut Tape) -> Job {
    let hex: String = (0..2 * t.urange(1, 6)).map(|_| *t.pick(&['0', '1', '2', '7', '9', 'a', 'c', 'f', 'F'])).collect();
    let hex = if t.chance(1, 8) { format!("{}zz", hex) } else { hex };
    let bin: String = (0..8 * t.urange(1, 3)).map(|_| if t.flip() { '1' } else { '0' }).collect();
    let raw: Vec<u8> = (0..t.urange(1, 5)).map(|_| t.draw(256) as u8).collect();
    let src = "#d8 0xa0\n#d inchexstr(\"t.txt\")\nafter_t:\n#d incbinstr(\"b.txt\")\nafter_b:\n#d incbin(\"d.bin\")\nafter_d:\n#d8 after_t, after_b, after_d\nk = inchexstr(\"t.txt\") + 1\n";
    Job {
        origin: "incfile".into(),
        files: vec![("main.asm".into(), src.as_bytes().to_vec()), ("t.txt".into(), hex.into_bytes()), ("b.txt".into(), bin.into_bytes()), ("d.bin".into(), raw)],
        root: "main.asm".into(),
        generated: true,
    }
}

/// v3: two to four input files on one command line; each contributes rules/data/labels, so the order in which the
/// files are assembled shows in bytes, addresses and listings
pub fn gen_multi_input(t: &mut Tape) -> Job {
    let n = t.urange(2, 4);
    let mut files: Vec<(String, Vec<u8>)> = Vec::new();
    let mut extra = String::new();
    for k in 0..n {
        let name = format!("in{}.asm", k);
        let mut s = String::new();
        if k == 0 {
            s.push_str("#ruledef\n{\n    ld {x: u8} => 0x11 @ x\n    jmp {a} => 0x22 @ a`8\n}\n");
        }
        s.push_str(&format!("part{}:\n", k));
        for _ in 0..t.urange(1, 3) {
            match t.draw(3) {
                0 => s.push_str(&format!("ld {}\n", t.draw(200))),
                1 => s.push_str(&format!("jmp part{}\n", t.below(n))),
                _ => s.push_str(&format!("#d8 {}\n", t.draw(200))),
            }
        }
        s.push_str(&format!(".end{}:\n", k));
        if k > 0 {
            extra.push_str(&format!("{}\n", name));
        }
        files.push((name, s.into_bytes()));
    }
    files.push(("@inputs".into(), extra.into_bytes()));
    Job { origin: "multi-input".into(), files, root: "in0.asm".into(), generated: true }
}

pub const TWIN_SET: &[&str] = &["symbols", "mesen-mlb", "addrspan", "annotated"];

/// v4: programs that are identical up to and including an asm-block rule and differ in the rules BEHIND it (so that
/// the inner instruction of the block - same place, same text after substitution - names other rules by index and
/// type in each of them): one is the job, the others are assembled on the same thread just BEFORE it
pub fn gen_asm_sibling(t: &mut Tape) -> String {
    let pool = ["raw {v} => 0x11 @ v`8", "nop => 0x00", "raw {v: u4} => 0x2 @ v", "raw {v}, {w} => 0x33 @ v`8 @ w`8", "rbw {v} => 0x44 @ v`8", "raw {v: u16} => 0x55 @ v", "raw {v: s8} => 0x66 @ v"];
    let mut order: Vec<usize> = (0..pool.len()).collect();
    for i in (1..order.len()).rev() {
        let j = t.below(i + 1);
        order.swap(i, j);
    }
    let k = t.urange(1, pool.len());
    let mut s = String::from("#ruledef\n{\n    mac {x} => asm { raw {x} }\n    mac2 {x}, {y} => asm\n    {\n        raw {x}\n        raw {y}\n    }\n");
    let split = t.chance(1, 3);
    for (n, i) in order.iter().take(k).enumerate() {
        if split && n == k / 2 {
            s.push_str("}\n#ruledef\n{\n");
        }
        s.push_str(&format!("    {}\n", pool[*i]));
    }
    s.push_str("}\nmac 0x12\nmac 3\nmac2 0x7, 0x1234\nmac -1\n");
    s
}

/// v5: one construct that answers with SEVERAL diagnostics at once: a `#bankdef` block whose field list carries 2-5
/// names the block does not know (between, before and behind valid fields), sometimes two such blocks; the order of
/// the diagnostics is part of the result
pub fn gen_multi_diag(t: &mut Tape) -> String {
    let unknown = ["base", "length", "fillbyte", "origin", "width", "align", "pad", "offset", "end", "unit", "outsize", "bit"];
    let valid = ["bits = 8", "addr = 0x8000", "size = 0x100", "outp = 0", "fill = true", "labelalign = 8", "addr_end = 0x9000"];
    let mut s = String::new();
    let blocks = t.urange(1, 2);
    for b in 0..blocks {
        let mut fields: Vec<String> = Vec::new();
        let nv = t.urange(0, 3);
        let mut vi: Vec<usize> = (0..valid.len()).collect();
        for i in (1..vi.len()).rev() {
            let j = t.below(i + 1);
            vi.swap(i, j);
        }
        for i in vi.into_iter().take(nv) {
            // size and addr_end exclude each other
            if valid[i].starts_with("addr_end") && fields.iter().any(|f| f.starts_with("size")) {
                continue;
            }
            if valid[i].starts_with("size") && fields.iter().any(|f| f.starts_with("addr_end")) {
                continue;
            }
            fields.push(valid[i].to_string());
        }
        let nu = t.urange(2, 5);
        let mut ui: Vec<usize> = (0..unknown.len()).collect();
        for i in (1..ui.len()).rev() {
            let j = t.below(i + 1);
            ui.swap(i, j);
        }
        for i in ui.into_iter().take(nu) {
            let at = t.below(fields.len() + 1);
            fields.insert(at, format!("{} = {}", unknown[i], t.below(300)));
        }
        let hash = t.flip();
        s.push_str(&format!("#bankdef bk{}\n{{\n", b));
        for f in fields {
            s.push_str(&format!("    {}{}\n", if hash { "#" } else { "" }, if hash { f.replacen(" =", "", 1) } else { f }));
        }
        s.push_str("}\n");
    }
    s.push_str("start:\n#d8 1, 2, 3\n");
    s
}

fn first_difference(a: &str, b: &str) -> String {
    for (la, lb) in a.lines().zip(b.lines()) {
        if la != lb {
            return format!("{:?} vs {:?}", la.chars().take(300).collect::<String>(), lb.chars().take(300).collect::<String>());
        }
    }
    format!("lengths {} vs {}", a.len(), b.len())
}

impl Property for C10 {
    fn id(&self) -> &'static str {
        "C10"
    }
    fn rule(&self) -> String {
        "each case = one job (generated size-static or cascading program with many sibling symbols and rules, corpus program, mutated corpus program, or - one in six - a root file including 2-4 files with the same byte layout so that equal byte ranges and equal values tie across files, or - one in eight - an instruction set whose rules reach the same text from different prefix buckets of the matcher index, with lines that tie or fail every candidate, or - one in eight - two to four input files on one command line, or - one in eight - a program that reads three data files through incbin / incbinstr / inchexstr, whose history consists of the same program over other file contents under the same names, or - (v5) one in eight - a `#bankdef` block (or two) whose field list carries 2-5 unknown field names among valid ones, so that one construct answers with several diagnostics whose order is part of the result; failing programs included) x one \
         command line with up to 5 output groups drawn from fixed format sets (incl. symbols, mesen-mlb, annotated, addrspan, and command lines with several invalid format parameters) run \
         4 times in one process: on the worker thread, on a fresh thread, and on both again after a random history of 1-3 other jobs; every 40th case additionally runs the real binary 3 \
         times in fresh processes (stdout, stderr, exit status, files) and compares the files with the in-process run. Oracle: the full record - success flag, printed diagnostics, every \
         written file - is byte-identical. Rust re-seeds every HashMap, so repeated runs already vary the iteration order. (v4) asm siblings, one case in eight: programs identical up to and including an asm-block rule that differ in the rules BEHIND it; 1-3 siblings are assembled on the worker's thread just before the job, whose record is then compared with a run on a fresh thread. Non-trivial = the program declares >= 8 symbols, or fails \
         with >= 2 diagnostics, or the command line has >= 2 invalid format parameters; distinct by hash of files + arguments."
            .to_string()
    }
    fn assumptions(&self) -> Vec<String> {
        vec!["hash seeds and histories are sampled; a leak that needs one particular seed can be missed (exploration, not proof)".into()]
    }
    fn setup(&self, _tier: Tier) -> Result<(), String> {
        realbin::build(false).map(|_| ())
    }
    fn tape_len(&self, _t: Tier) -> usize {
        700
    }
    fn random_cases(&self, tier: Tier) -> u64 {
        tier.pick(25_000, 150_000)
    }
    fn run(&self, t: &mut Tape, ctx: &mut CaseCtx) -> Verdict {
        let twins = crate::engine::gen_version() >= 2 && t.chance(1, 6);
        let buckets = crate::engine::gen_version() >= 2 && !twins && t.chance(1, 8);
        let incfile = crate::engine::gen_version() >= 2 && !twins && !buckets && t.chance(1, 8);
        let multi = crate::engine::gen_version() >= 3 && !twins && !buckets && !incfile && t.chance(1, 8);
        let siblings = crate::engine::gen_version() >= 4 && !twins && !buckets && !incfile && !multi && t.chance(1, 8);
        let multidiag = crate::engine::gen_version() >= 5 && !twins && !buckets && !incfile && !multi && !siblings && t.chance(1, 8);
        let job = if multidiag {
            ctx.label("multi-diagnostic-block");
            Job { origin: "multi-diag".into(), files: vec![("main.asm".into(), gen_multi_diag(t).into_bytes())], root: "main.asm".into(), generated: true }
        } else if siblings {
            ctx.label("asm-siblings");
            // the siblings run first, on this thread; the job itself is then compared with a run on a fresh thread
            for _ in 0..t.urange(1, 3) {
                let sib = Job { origin: "asm-sibling".into(), files: vec![("main.asm".into(), gen_asm_sibling(t).into_bytes())], root: "main.asm".into(), generated: true };
                let sa = args_for(&sib, FORMAT_SETS[0], &[]);
                let _ = record(&sib, &sa);
            }
            Job { origin: "asm-sibling".into(), files: vec![("main.asm".into(), gen_asm_sibling(t).into_bytes())], root: "main.asm".into(), generated: true }
        } else if twins {
            gen_twins(t)
        } else if multi {
            ctx.label("multi-input");
            gen_multi_input(t)
        } else if incfile {
            ctx.label("incfile");
            gen_incfile(t)
        } else if buckets {
            ctx.label("buckets");
            gen_buckets(t)
        } else if t.chance(1, 2) {
            let (prog, _) = crate::props::c02::gen_cascade(t, 24);
            let (src, _) = crate::model::program::render(&prog);
            Job { origin: "cascade".into(), files: vec![("main.asm".into(), src.into_bytes())], root: "main.asm".into(), generated: true }
        } else {
            gen_job(t)
        };
        let set = if twins { TWIN_SET } else { FORMAT_SETS[t.weighted(&[4, 4, 4, 1, 1, 1])] };
        if twins {
            ctx.label("twins");
        }
        let extra: Vec<String> = match t.weighted(&[6, 1, 1]) {
            0 => vec![],
            1 => vec!["-t3".into()],
            _ => vec!["-dzeta=1".into(), "-dalpha=2".into()],
        };
        let args = args_for(&job, set, &extra);
        let mut h = crate::engine::fnv(args.join(" ").as_bytes());
        for f in &job.files {
            h = crate::engine::mix(h, crate::engine::fnv(&f.1));
        }
        ctx.hash = h;
        let r0 = record(&job, &args);
        ctx.evals += 1;
        let text = job.files.iter().find(|f| f.0 == job.root).map(|f| String::from_utf8_lossy(&f.1).to_string()).unwrap_or_default();
        let nsym = text.lines().filter(|l| l.trim_end().ends_with(':') || l.contains(" = ")).count();
        let ndiag = r0.matches("error:").count();
        ctx.nontrivial = nsym >= 8 || ndiag >= 2 || set.len() == 1 || twins || buckets || incfile || multi || siblings || multidiag;
        ctx.label(if r0.starts_with("ok=true") { "succeeds" } else { "fails" });
        ctx.render(|| json!({"job": job_json(&job), "args": args}));
        let fail = |ctx: &mut CaseCtx, how: &str, a: &str, b: &str| -> Verdict {
            ctx.want_render = true;
            ctx.render(|| json!({"job": job_json(&job), "args": args}));
            Verdict::fail(format!("nondeterministic:{}", how), format!("two runs of the same job differ: {}", first_difference(a, b)))
        };
        // fresh thread
        let r1 = std::thread::scope(|s| s.spawn(|| record(&job, &args)).join().unwrap_or_else(|_| "thread panicked".into()));
        ctx.evals += 1;
        if r1 != r0 {
            return fail(ctx, "other-thread", &r0, &r1);
        }
        // after a history of other jobs
        let nh = t.urange(1, 3);
        for _ in 0..nh {
            // (for a job that reads data files: the same program over other file contents under the same names)
            let other = if incfile {
                gen_incfile(t)
            } else if siblings {
                Job { origin: "asm-sibling".into(), files: vec![("main.asm".into(), gen_asm_sibling(t).into_bytes())], root: "main.asm".into(), generated: true }
            } else {
                gen_job(t)
            };
            let oa = args_for(&other, FORMAT_SETS[t.below(3)], &[]);
            let _ = record(&other, &oa);
        }
        let r2 = record(&job, &args);
        ctx.evals += 1;
        if r2 != r0 {
            return fail(ctx, "after-history", &r0, &r2);
        }
        let r3 = std::thread::scope(|s| s.spawn(|| record(&job, &args)).join().unwrap_or_else(|_| "thread panicked".into()));
        ctx.evals += 1;
        if r3 != r0 {
            return fail(ctx, "other-thread-after-history", &r0, &r3);
        }
        // fresh processes of the real binary
        if t.chance(1, 40) {
            ctx.label("real-binary");
            let bin = realbin::bin_path(false);
            let mut recs: Vec<String> = Vec::new();
            for _ in 0..3 {
                let dir = realbin::scratch("c10");
                realbin::materialize(&dir, &job.files);
                let before: std::collections::HashSet<String> = realbin::snapshot(&dir).into_iter().map(|f| f.0).collect();
                let r = realbin::run(&bin, &dir, &args, &realbin::Limits::default());
                let mut s = format!("code={:?} signal={:?}\nstdout={:?}\nstderr={:?}\n", r.code, r.signal, String::from_utf8_lossy(&r.stdout), String::from_utf8_lossy(&r.stderr));
                for (n, d) in realbin::snapshot(&dir) {
                    if !before.contains(&n) {
                        s.push_str(&format!("file {} {} bytes fnv {:016x}\n", n, d.len(), crate::engine::fnv(&d)));
                    }
                }
                let _ = std::fs::remove_dir_all(&dir);
                recs.push(s);
                ctx.evals += 1;
            }
            if recs[1] != recs[0] {
                return fail(ctx, "fresh-process", &recs[0], &recs[1]);
            }
            if recs[2] != recs[0] {
                return fail(ctx, "fresh-process", &recs[0], &recs[2]);
            }
            // the files of the process must be the files of the in-process run
            let inproc: Vec<&str> = r0.lines().filter(|l| l.starts_with("file ")).collect();
            let proc: Vec<&str> = recs[0].lines().filter(|l| l.starts_with("file ")).collect();
            if inproc != proc {
                ctx.want_render = true;
                ctx.render(|| json!({"job": job_json(&job), "args": args}));
                return Verdict::fail("process-differs-from-library", format!("in-process files {:?} ; real binary files {:?}", inproc, proc));
            }
        }
        Verdict::Pass
    }
}
