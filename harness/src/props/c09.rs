//! C09 — the iteration budget decides whether a program assembles, never to what.

use crate::engine::sut::{AsmOutcome, Opts};
use crate::engine::{CaseCtx, Property, Tape, Tier, Verdict};
use crate::props::c08::{full_key, gen_job, job_json, run_job, Job};
use crate::model::program::render;

pub struct C09;

pub const BUDGETS: &[usize] = &[1, 2, 3, 4, 5, 10, 11, 30];

/// v4: a directive whose amount stands behind an assertion that is false for good, false only once a forward label is
/// known, or true - in a program that is otherwise stable after one or two passes. Whatever the budget, a false
/// assertion must fail the run; a true one must give the same output for every budget that succeeds.
pub fn gen_asserted_directive(t: &mut Tape) -> Job {
    let mut s = String::new();
    for k in 0..t.draw(4) {
        s.push_str(&format!("#d8 {}\n", k + 1));
    }
    let cond = *t.pick(&["1 == 2", "fwdq < 1", "fwdq > 1", "$ > 100", "fwdq == 0", "kq != kq", "fwdq - fwdq != 0"]);
    let amount = *t.pick(&["0", "1", "4", "8"]);
    let dir = *t.pick(&["#res", "#align", "#addr", "#res"]);
    let amount = if dir == "#addr" { "0x20" } else if dir == "#align" && amount == "0" { "8" } else { amount };
    s.push_str("kq = 3\n");
    s.push_str(&format!("{} {{ assert({}), {} }}\n", dir, cond, amount));
    s.push_str("#d8 0xbb\nfwdq:\n#d8 fwdq`8\n");
    Job { origin: "asserted-directive".into(), files: vec![("main.asm".into(), s.into_bytes())], root: "main.asm".into(), generated: true }
}

pub fn gen_job9(t: &mut Tape) -> Job {
    if crate::engine::gen_version() >= 4 && t.chance(1, 10) {
        return gen_asserted_directive(t);
    }
    if t.chance(1, 2) {
        let (prog, _) = crate::props::c02::gen_cascade(t, 22);
        let (src, _) = render(&prog);
        Job { origin: "cascade".into(), files: vec![("main.asm".into(), src.into_bytes())], root: "main.asm".into(), generated: true }
    } else {
        gen_job(t)
    }
}

impl Property for C09 {
    fn id(&self) -> &'static str {
        "C09"
    }
    fn rule(&self) -> String {
        "each case = one job (cascading generated program, size-static generated program, corpus program incl. asm blocks and #assert, or token-mutated corpus program) \
         assembled under budgets {1,2,3,4,5,10,11,30}. Oracle: the set S of succeeding budgets is upward closed, all members of S have identical bits and symbols, and \
         iterations_taken <= budget for each member. (v4) one job in ten is a short program with `#res / #align / #addr { assert(C), n }` where C is false for good, false once a forward label is known, or true. Non-trivial = the smallest succeeding budget is >= 3, or the program contains an asm block or an assertion and succeeds \
         somewhere; distinct by hash of the file set."
            .to_string()
    }
    fn tape_len(&self, _t: Tier) -> usize {
        460
    }
    fn fuzz_runs(&self, _tier: Tier) -> u64 {
        40_000
    }
    fn random_cases(&self, tier: Tier) -> u64 {
        tier.pick(100_000, 500_000)
    }
    fn run(&self, t: &mut Tape, ctx: &mut CaseCtx) -> Verdict {
        let job = gen_job9(t);
        let mut h = 0u64;
        for f in &job.files {
            h = crate::engine::mix(h, crate::engine::fnv(&f.1));
        }
        ctx.hash = h;
        ctx.label(format!("src:{}", job.origin.split(':').next().unwrap_or("")));
        let mut results: Vec<(usize, Option<(String, usize)>, String)> = Vec::new();
        for &b in BUDGETS {
            let o = run_job(&job, &Opts { max_iterations: b, ..Opts::default() });
            ctx.evals += 1;
            match &o {
                AsmOutcome::Ok(ok) => results.push((b, Some((full_key(&o), ok.iterations)), o.brief())),
                AsmOutcome::Err(_) => results.push((b, None, o.brief())),
                other => {
                    ctx.want_render = true;
                    ctx.render(|| job_json(&job));
                    return Verdict::fail(format!("abnormal:{}", other.brief().split(':').next().unwrap_or("")), format!("budget {}: {}", b, other.brief()));
                }
            }
        }
        ctx.render(|| job_json(&job));
        let first_ok = results.iter().position(|r| r.1.is_some());
        if let Some(f) = first_ok {
            let (fb, fk, _) = &results[f];
            let fk = fk.as_ref().unwrap();
            for (b, k, brief) in &results[f..] {
                match k {
                    None => {
                        ctx.want_render = true;
                        ctx.render(|| job_json(&job));
                        return Verdict::fail("larger-budget-fails", format!("assembles with budget {} but fails with budget {}: {}", fb, b, brief));
                    }
                    Some((key, iters)) => {
                        if key != &fk.0 {
                            ctx.want_render = true;
                            ctx.render(|| job_json(&job));
                            return Verdict::fail("budget-changes-output", format!("budget {} -> {} ; budget {} -> {}", fb, results[f].2, b, brief));
                        }
                        if *iters > *b {
                            ctx.want_render = true;
                            ctx.render(|| job_json(&job));
                            return Verdict::fail("passes-exceed-budget", format!("budget {} reports {} passes", b, iters));
                        }
                    }
                }
            }
            let text = job.files.iter().find(|f| f.0 == job.root).map(|f| String::from_utf8_lossy(&f.1).to_string()).unwrap_or_default();
            ctx.nontrivial = *fb >= 3 || text.contains("asm") || text.contains("#assert");
            ctx.label(format!("min-budget:{}", fb));
        } else {
            ctx.label("never-succeeds");
        }
        Verdict::Pass
    }
}
