//! C06 — output layout is safe: no overlap, nothing leaves its bank, gaps are zero.

use crate::engine::sut::{self, AsmOutcome, Opts};
use crate::engine::{CaseCtx, Property, Tape, Tier, Verdict};
use crate::gen::banks::gen_bank_program;
use crate::model::invariants::check_layout;
use crate::model::program::render;
use crate::model::refasm::{self, RefResult};
use serde_json::json;

pub struct C06;

/// compare the assembler's spans with the model's (same order: labels, data elements)
fn compare_spans(m: &refasm::RefOk, ok: &sut::AsmOk) -> Option<(String, String)> {
    if m.spans.len() != ok.spans.len() {
        return Some(("span-count".into(), format!("model lists {} items, assembler {}", m.spans.len(), ok.spans.len())));
    }
    for (a, b) in m.spans.iter().zip(ok.spans.iter()) {
        if a.offset != b.offset || a.size != b.size || a.addr != b.addr {
            return Some((
                "item-position".into(),
                format!(
                    "item {}: model offset {:?} size {} address {:#x}; assembler offset {:?} size {} address {:#x}",
                    a.item, a.offset, a.size, a.addr, b.offset, b.size, b.addr
                ),
            ));
        }
    }
    None
}

impl Property for C06 {
    fn id(&self) -> &'static str {
        "C06"
    }
    fn rule(&self) -> String {
        "PART 1 (model agreement): each case = 0-5 banks (address units 1,3,4,7,8,12,16,32; sizes none/0/1/2..16/32..256 units; output offsets sequential, with gaps, absent or overlapping \
         the previous window; fill; labelalign 0/4/8/16/32; start addresses up to 0xfffffff0; definition order sometimes shuffled) x 1-14 items (#dN sized to land exactly on, one short of \
         and one past the end of the bank, labels, #res, #align, forward/backward/out-of-bank #addr, bank switches with re-entry, data reading labels and $). Oracle = R-LAYOUT: the \
         reference predicts success or rejection and, on success, every item's output position, size and address, every bit, the output length and every label. \
         PART 2 (invariant monitor), on every success of these programs AND of the size-static and cascading instruction programs of C01/C02 and of the test corpus and its token-level mutants (half of the cases): no two items share a bit, \
         each item lies inside the window of a bank with output at the position its address dictates (offset = outp + (a - addr) x unit + k, k < unit), every unwritten bit is zero, \
         the length is the last written bit or the end of the last filled bank. Non-trivial = (>= 2 banks or a unit != 8) and (an item within one unit of a bank boundary, or a backward #addr, or fill); distinct by hash of source."
            .to_string()
    }
    fn tape_len(&self, _t: Tier) -> usize {
        460
    }
    fn fuzz_runs(&self, _tier: Tier) -> u64 {
        40_000
    }
    fn random_cases(&self, tier: Tier) -> u64 {
        tier.pick(800_000, 4_000_000)
    }
    fn run(&self, t: &mut Tape, ctx: &mut CaseCtx) -> Verdict {
        let which = t.weighted(&[4, 1, 1, 2]);
        if which == 3 {
            // invariant monitor on the test corpus and its token-level mutants
            let job = crate::props::c08::gen_job(t);
            let mut h = 0u64;
            for f in &job.files {
                h = crate::engine::mix(h, crate::engine::fnv(&f.1));
            }
            ctx.hash = h;
            ctx.label("monitor:corpus");
            ctx.render(|| crate::props::c08::job_json(&job));
            let out = crate::props::c08::run_job(&job, &Opts::default());
            ctx.evals += 1;
            if let AsmOutcome::Ok(ok) = &out {
                ctx.nontrivial = ok.banks.len() > 2;
                if let Some((c, d)) = check_layout(ok) {
                    ctx.want_render = true;
                    ctx.render(|| crate::props::c08::job_json(&job));
                    return Verdict::fail(format!("invariant:{}", c), d);
                }
            }
            return Verdict::Pass;
        }
        if which > 0 {
            // invariant monitor on the other generators
            let prog = if which == 1 { crate::props::c01::gen_case(t, 20, true, false).0 } else { crate::props::c02::gen_cascade(t, 20).0 };
            let (src, _) = render(&prog);
            ctx.set_hash_str(&src);
            ctx.label(if which == 1 { "monitor:static" } else { "monitor:cascade" });
            ctx.render(|| json!({"source": src, "part": "invariant monitor"}));
            let out = sut::assemble_src(&src, &Opts::default());
            ctx.evals += 1;
            if let AsmOutcome::Ok(ok) = &out {
                ctx.nontrivial = ok.banks.len() > 2;
                if let Some((c, d)) = check_layout(ok) {
                    ctx.want_render = true;
                    ctx.render(|| json!({"source": src, "part": "invariant monitor"}));
                    return Verdict::fail(format!("invariant:{}", c), d);
                }
            }
            return Verdict::Pass;
        }
        let (prog, info) = gen_bank_program(t);
        let (src, _) = render(&prog);
        ctx.set_hash_str(&src);
        let model = refasm::assemble(&prog);
        ctx.render(|| crate::props::c01::render_json(&prog, &model));
        match &model {
            RefResult::Invalid(w) => {
                ctx.excluded.push(format!("outside-model:{}", w.chars().take(40).collect::<String>()));
                return Verdict::Pass;
            }
            RefResult::Ok(_) => ctx.label("model:ok"),
            RefResult::Reject { class, .. } => ctx.label(format!("model:reject:{}", class)),
        }
        ctx.nontrivial = (info.n_banks >= 2 || info.non8) && (info.near_boundary || info.backward_addr || info.fill);
        for (l, f) in [("fill", info.fill), ("labelalign", info.labelalign), ("backward-addr", info.backward_addr), ("near-boundary", info.near_boundary), ("size-0-or-1", info.zero_or_one_size), ("unit!=8", info.non8)] {
            if f {
                ctx.label(l);
            }
        }
        ctx.label(format!("banks:{}", info.n_banks));
        let out = sut::assemble_src(&src, &Opts::default());
        ctx.evals += 1;
        let mut fail = crate::props::c01::compare(&model, &out);
        if fail.is_none() {
            if let (RefResult::Ok(m), AsmOutcome::Ok(ok)) = (&model, &out) {
                fail = compare_spans(m, ok).or_else(|| check_layout(ok).map(|(c, d)| (format!("invariant:{}", c), d)));
            }
        }
        match fail {
            None => Verdict::Pass,
            Some((clause, detail)) => {
                // input predicates for signatures
                let pred = if info.fill { "fill" } else if info.zero_or_one_size { "tiny-bank" } else { "plain" };
                ctx.want_render = true;
                ctx.render(|| crate::props::c01::render_json(&prog, &model));
                Verdict::fail(format!("{}|{}", pred, clause), detail)
            }
        }
    }
}
