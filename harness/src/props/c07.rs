//! C07 — instruction matching ignores case, extra spacing, comments and rule order.

use crate::engine::sut::{self, AsmOutcome, Opts};
use crate::engine::{CaseCtx, Property, Tape, Tier, Verdict};
use crate::gen::render::{render_variant, Variant};
use crate::model::isa::survivors;
use crate::model::program::{render, Item};
use serde_json::json;

pub struct C07;

fn key(o: &AsmOutcome) -> String {
    match o {
        AsmOutcome::Ok(ok) => format!("ok {} bits {}", ok.bits.len(), ok.bits.iter().map(|b| if *b { '1' } else { '0' }).collect::<String>()),
        AsmOutcome::Err(_) => "error".into(),
        AsmOutcome::Inconsistent { detail, .. } => format!("inconsistent {}", detail),
        AsmOutcome::Panic(p) => format!("panic {}", sut::panic_site(p)),
    }
}

/// Literal letters glued behind a parameter (`wt {n}ms`, `lq {x}b`, `sf {a}x{b}`): the one place where the
/// look-ahead character of a pattern is a letter, so its case handling matters. These rules live outside the
/// structural model (the oracle here is purely metamorphic): a block of rules plus instruction lines appended
/// to the base text and, re-cased / re-spaced / re-ordered, to every variant.
pub struct Glued {
    rules: Vec<String>,
    /// (mnemonic, operand text): letters of the operand are suffix letters or hex digits, never symbol names
    lines: Vec<(String, String)>,
}

pub fn gen_glued(t: &mut Tape) -> Option<Glued> {
    if !t.chance(1, 3) {
        return None;
    }
    let mut rules = Vec::new();
    let mut lines = Vec::new();
    let n = t.urange(1, 3);
    for _ in 0..n {
        match if crate::engine::gen_version() >= 3 { t.draw(7) } else if crate::engine::gen_version() >= 2 { t.draw(6) } else { t.draw(4) } {
            6 => {
                // v3: SUB-RULE operands separated by an operator character, with and without a competing rule that
                // reads the whole text as one operand; \u{1} marks the boundary between the first operand and the
                // separator (a blank in the base text, possibly a block comment in the comment variants)
                rules.push("@pre:#subruledef valq\n{\n    {v: u8} => v\n    r{n: u4} => 0xf @ n\n}".to_string());
                rules.push("sbq {a: valq} - {b: valq} => 0x61 @ a @ b".to_string());
                if t.flip() {
                    rules.push("sbq {a: valq} => 0x62 @ a @ 0x00".to_string());
                }
                rules.push("ldq {a: valq}, [{b: valq} + {c: valq}] => 0x63 @ a @ b @ c".to_string());
                if t.flip() {
                    lines.push(("sbq".to_string(), format!("{}\u{1}- {}", *t.pick(&["7", "r1", "0x10", "(9)"]), t.draw(9))));
                } else {
                    lines.push(("ldq".to_string(), format!("r1, [{}\u{1}+ r{}]", *t.pick(&["4", "0x3", "r2"]), t.draw(9))));
                }
            }
            4 => {
                // v2: mnemonics that start with a digit (one Number token with letters in it: `2dup`)
                rules.push("2dup => 0x58".to_string());
                rules.push("2drop {x} => 0x59 @ x`8".to_string());
                rules.push("1up {x} => 0x5a @ x`8".to_string());
                match t.draw(3) {
                    0 => lines.push(("2dup".to_string(), String::new())),
                    1 => lines.push(("2drop".to_string(), t.draw(200).to_string())),
                    _ => lines.push(("1up".to_string(), t.draw(200).to_string())),
                }
            }
            5 => {
                // v2: a dotted suffix that starts with a digit (`b.8h`)
                rules.push("b.8h {x} => 0x5b @ x`8".to_string());
                rules.push("b.16b {x} => 0x5c @ x`8".to_string());
                lines.push((if t.flip() { "b.8h" } else { "b.16b" }.to_string(), t.draw(200).to_string()));
            }
            0 => {
                rules.push("wt {n}ms => 0x51 @ n`8".to_string());
                if t.flip() {
                    rules.push("wt {n} => 0x52 @ n`8".to_string());
                }
                lines.push(("wt".to_string(), format!("{}ms", *t.pick(&["10", "0x1a", "7", "255", "0b101"]))));
            }
            1 => {
                rules.push("lq {x}b => 0x54 @ x`8".to_string());
                if t.flip() {
                    rules.push("lq {x} => 0x55 @ x`8".to_string());
                }
                lines.push(("lq".to_string(), format!("{}b", *t.pick(&["7", "0x1", "0x1b", "12", "0xa"]))));
            }
            2 => {
                rules.push("sf {a}x{b} => 0x53 @ a`4 @ b`4".to_string());
                lines.push(("sf".to_string(), format!("{}x{}", t.draw(10), t.draw(10))));
            }
            _ => {
                // two expression parameters separated by an operator character: the look-ahead must find the
                // separating `-` / `+`, not one that belongs to the first operand (`-1 - 2`, `(1 - 2) - 3`)
                rules.push("sb {x} - {y} => 0x56 @ x`8 @ y`8".to_string());
                rules.push("sa {x} + {y} => 0x57 @ x`8 @ y`8".to_string());
                let m = if t.flip() { "sb" } else { "sa" };
                let sep = if m == "sb" { "-" } else { "+" };
                let first = *t.pick(&["5", "-1", "(1 - 2)", "0x10", "-(3)", "(2 + 2)"]);
                lines.push((m.to_string(), format!("{} {} {}", first, sep, t.draw(9))));
            }
        }
    }
    rules.dedup();
    Some(Glued { rules, lines })
}

impl Glued {
    pub fn render(&self, t: &mut Tape, v: &Variant) -> String {
        let mut rules = self.rules.clone();
        if v.permute_rules {
            for i in (1..rules.len()).rev() {
                let j = t.below(i + 1);
                rules.swap(i, j);
            }
        }
        let mut s = String::new();
        for r in rules.iter().filter_map(|r| r.strip_prefix("@pre:")) {
            s.push_str(r);
            s.push('\n');
        }
        s.push_str("#ruledef\n{\n");
        for r in rules.iter().filter(|r| !r.starts_with("@pre:")) {
            s.push_str("    ");
            s.push_str(r);
            s.push('\n');
        }
        s.push_str("}\n");
        for (m, op) in &self.lines {
            let recase = |t: &mut Tape, w: &str| -> String {
                // the `x` of a 0x / the `b` of a 0b prefix keeps its case (a number prefix, not a literal letter)
                let cs: Vec<char> = w.chars().collect();
                cs.iter()
                    .enumerate()
                    .map(|(i, c)| {
                        let prefix = i >= 1 && cs[i - 1] == '0' && (*c == 'x' || *c == 'b') && (i < 2 || !cs[i - 2].is_ascii_alphanumeric());
                        if v.recase && !prefix && t.flip() {
                            c.to_ascii_uppercase()
                        } else {
                            *c
                        }
                    })
                    .collect()
            };
            s.push_str(&recase(t, m));
            s.push(' ');
            if v.spacing {
                for _ in 0..t.draw(3) {
                    s.push(if t.chance(1, 3) { '\t' } else { ' ' });
                }
            }
            if v.comments && t.flip() {
                s.push_str(";* c *; ");
            }
            let op_text = recase(t, op);
            let op_text = if v.comments && op_text.contains('\u{1}') && t.flip() { op_text.replace('\u{1}', " ;* c *; ") } else { op_text.replace('\u{1}', " ") };
            s.push_str(&op_text);
            if v.comments && t.flip() {
                s.push_str(" ; trailing");
            }
            s.push('\n');
        }
        s
    }
}

impl Property for C07 {
    fn id(&self) -> &'static str {
        "C07"
    }
    fn rule(&self) -> String {
        "each case = a size-static generated instruction set and program (as in C01, incl. constants named like registers = literal-versus-expression overlaps, and injected faults) rendered \
         as a base text and 6 variants: (1) random re-casing of mnemonics and of operands that every surviving rule reads literally, (2) extra blanks/tabs at token boundaries (after the \
         mnemonic, around commas, inside [ ] ( ) and after #; blanks are only added, never removed, never inside a word; the optional blank behind the commas of the RULE PATTERNS is re-drawn too - instruction lines always carry that blank), (3) block comments at those boundaries - also directly behind a token, in front of the blank the rule asks for (`ld;* c *; 5`) - and trailing ; comments, \
         (4) rules shuffled and re-partitioned into 1-4 named/unnamed blocks, (5) labels (and constants sharing a bare name with one) consistently renamed, (6) all of these together. One case in three additionally carries a block of rules with literal letters glued behind a parameter \
         (`wt {n}ms`, `lq {x}b` beside `lq {x}`, `sf {a}x{b}`), with operator-separated parameters (`sb {x} - {y}`), or with mnemonics that start with a digit or carry a digit-led dotted suffix (`2dup`, `2drop {x}`, `1up {x}`, `b.8h {x}`), and lines using them (`wt 10ms`, `lq 0x1b`, `sf 3x4`, `2DUP`), re-cased / re-spaced / commented / re-ordered in the variants. Metamorphic oracle: every variant has the same \
         success/failure as the base and, on success, identical output bits. Non-trivial = the program has an instruction with >= 2 syntactic matches before the literal-count filter or \
         >= 2 surviving rules, and the base assembles; distinct by hash of the base text."
            .to_string()
    }
    fn assumptions(&self) -> Vec<String> {
        vec!["a blank in a rule pattern requires a blank in the instruction (documented behaviour), so blanks are only ever added; blanks inside a mnemonic/literal word are excluded (listed finding of C08)".into()]
    }
    fn tape_len(&self, _t: Tier) -> usize {
        700
    }
    fn fuzz_runs(&self, _tier: Tier) -> u64 {
        40_000
    }
    fn random_cases(&self, tier: Tier) -> u64 {
        tier.pick(100_000, 500_000)
    }
    fn run(&self, t: &mut Tape, ctx: &mut CaseCtx) -> Verdict {
        let (prog, _info) = crate::props::c01::gen_case(t, 18, true, true);
        let (mut base, _) = render(&prog);
        let glued = if crate::engine::gen_version() >= 2 { gen_glued(t) } else { None };
        if let Some(g) = &glued {
            base.push_str(&g.render(t, &Variant::default()));
            ctx.label("glued-suffix-rules");
        }
        ctx.set_hash_str(&base);
        let b = sut::assemble_src(&base, &Opts::default());
        ctx.evals += 1;
        let bk = key(&b);
        let multi = prog.items.iter().any(|it| match it {
            Item::Instr(ins) => survivors(&prog.isa, ins).len() >= 2,
            _ => false,
        });
        ctx.nontrivial = b.ok().is_some() && (multi || crate::props::c01::isa_has_overlap(&prog.isa));
        ctx.label(if b.ok().is_some() { "base:ok" } else { "base:error" });
        if glued.is_some() && b.ok().is_some() {
            ctx.label("glued-suffix-rules:base-ok");
        }
        ctx.render(|| json!({"base": base}));
        let variants = [
            ("recase", Variant { recase: true, ..Default::default() }),
            ("spacing", Variant { spacing: true, ..Default::default() }),
            ("comments", Variant { comments: true, ..Default::default() }),
            ("rule-order", Variant { permute_rules: true, ..Default::default() }),
            ("rename-labels", Variant { rename_labels: true, ..Default::default() }),
            ("all", Variant { recase: true, spacing: true, comments: true, permute_rules: true, rename_labels: true }),
        ];
        for (name, v) in variants {
            let mut text = render_variant(t, &v, &prog);
            if let Some(g) = &glued {
                text.push_str(&g.render(t, &v));
            }
            let o = sut::assemble_src(&text, &Opts::default());
            ctx.evals += 1;
            let k = key(&o);
            if k != bk {
                ctx.want_render = true;
                ctx.render(|| json!({"base": base, "variant_kind": name, "variant": text}));
                return Verdict::fail(format!("variant-differs:{}", name), format!("base: {} ; {} variant: {}", b.brief(), name, o.brief()));
            }
        }
        Verdict::Pass
    }
}
