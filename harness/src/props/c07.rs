//! C07 — instruction matching ignores case, extra spacing, comments and rule order.

use crate::engine::sut::{self, AsmOutcome, Opts};
use crate::engine::{CaseCtx, Property, Tape, Tier, Verdict};
use crate::gen::render::{render_variant, Variant};
use crate::model::isa::survivors;
use crate::model::program::{render, Item};
use serde_json::json;

pub struct C07;

fn key(o: &AsmOutcome) -> String {
    match o {
        AsmOutcome::Ok(ok) => format!("ok {} bits {}", ok.bits.len(), ok.bits.iter().map(|b| if *b { '1' } else { '0' }).collect::<String>()),
        AsmOutcome::Err(_) => "error".into(),
        AsmOutcome::Inconsistent { detail, .. } => format!("inconsistent {}", detail),
        AsmOutcome::Panic(p) => format!("panic {}", sut::panic_site(p)),
    }
}

impl Property for C07 {
    fn id(&self) -> &'static str {
        "C07"
    }
    fn rule(&self) -> String {
        "each case = a size-static generated instruction set and program (as in C01, incl. constants named like registers = literal-versus-expression overlaps, and injected faults) rendered \
         as a base text and 6 variants: (1) random re-casing of mnemonics and of operands that every surviving rule reads literally, (2) extra blanks/tabs at token boundaries (after the \
         mnemonic, around commas, inside [ ] ( ) and after #; blanks are only added, never removed, never inside a word), (3) block comments at those boundaries and trailing ; comments, \
         (4) rules shuffled and re-partitioned into 1-4 named/unnamed blocks, (5) labels consistently renamed, (6) all of these together. Metamorphic oracle: every variant has the same \
         success/failure as the base and, on success, identical output bits. Non-trivial = the program has an instruction with >= 2 syntactic matches before the literal-count filter or \
         >= 2 surviving rules, and the base assembles; distinct by hash of the base text."
            .to_string()
    }
    fn assumptions(&self) -> Vec<String> {
        vec!["a blank in a rule pattern requires a blank in the instruction (documented behaviour), so blanks are only ever added; blanks inside a mnemonic/literal word are excluded (listed finding of C08)".into()]
    }
    fn tape_len(&self, _t: Tier) -> usize {
        700
    }
    fn fuzz_runs(&self, _tier: Tier) -> u64 {
        40_000
    }
    fn random_cases(&self, tier: Tier) -> u64 {
        tier.pick(15_000, 200_000)
    }
    fn run(&self, t: &mut Tape, ctx: &mut CaseCtx) -> Verdict {
        let (prog, _info) = crate::props::c01::gen_case(t, 18, true, true);
        let (base, _) = render(&prog);
        ctx.set_hash_str(&base);
        let b = sut::assemble_src(&base, &Opts::default());
        ctx.evals += 1;
        let bk = key(&b);
        let multi = prog.items.iter().any(|it| match it {
            Item::Instr(ins) => survivors(&prog.isa, ins).len() >= 2,
            _ => false,
        });
        ctx.nontrivial = b.ok().is_some() && (multi || crate::props::c01::isa_has_overlap(&prog.isa));
        ctx.label(if b.ok().is_some() { "base:ok" } else { "base:error" });
        ctx.render(|| json!({"base": base}));
        let variants = [
            ("recase", Variant { recase: true, ..Default::default() }),
            ("spacing", Variant { spacing: true, ..Default::default() }),
            ("comments", Variant { comments: true, ..Default::default() }),
            ("rule-order", Variant { permute_rules: true, ..Default::default() }),
            ("rename-labels", Variant { rename_labels: true, ..Default::default() }),
            ("all", Variant { recase: true, spacing: true, comments: true, permute_rules: true, rename_labels: true }),
        ];
        for (name, v) in variants {
            let text = render_variant(t, &v, &prog);
            let o = sut::assemble_src(&text, &Opts::default());
            ctx.evals += 1;
            let k = key(&o);
            if k != bk {
                ctx.want_render = true;
                ctx.render(|| json!({"base": base, "variant_kind": name, "variant": text}));
                return Verdict::fail(format!("variant-differs:{}", name), format!("base: {} ; {} variant: {}", b.brief(), name, o.brief()));
            }
        }
        Verdict::Pass
    }
}
