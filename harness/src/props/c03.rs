//! C03 — failure is always loud and success always clean; the assembler never crashes.

use crate::engine::sut::{self, MemFs, Msg};
use crate::engine::{CaseCtx, Property, Tape, Tier, Verdict};
use crate::gen::{corpus, mutate};
use serde_json::json;

pub struct C03;

pub const FORMATS: &[&str] = &[
    "binary", "annotated", "annotatedhex", "annotatedbin", "binstr", "hexstr", "bindump", "hexdump", "mif", "intelhex",
    "deccomma", "hexcomma", "decspace", "hexspace", "decc", "hexc", "c", "logisim8", "logisim16", "addrspan", "tcgame",
    "tcgamebin", "symbols", "mesen-mlb", "annotated,base:2,group:3", "annotated,base:128", "intelhex,addr_unit:16",
    "intelhex,addr_unit:32", "tcgame,base:2,group:4", "annotated,base:3", "nosuchformat", "annotated,group:0",
    "binary,x:1",
];

pub struct Case {
    pub seed_name: String,
    pub files: Vec<(String, Vec<u8>)>,
    pub args: Vec<String>,
    pub edits: usize,
    pub kinds: Vec<&'static str>,
    pub n_groups: usize,
    pub from_corpus_command: bool,
}

pub fn build_case(t: &mut Tape) -> Case {
    let corp = corpus::corpus();
    let generated = t.chance(1, 4);
    let gen_entry;
    let e = if generated {
        // a generated program (size-static or cascading, with banks and faults) as the seed text
        let feature_mix = crate::engine::gen_version() >= 2 && t.chance(1, 4);
        let src = if feature_mix {
            feature_mix_program(t)
        } else {
            let prog = if t.flip() { crate::props::c01::gen_case(t, 18, true, true).0 } else { crate::props::c02::gen_cascade(t, 18).0 };
            crate::model::program::render(&prog).0
        };
        let (src, _) = (src, ());
        gen_entry = corpus::CorpusEntry { name: "generated".into(), root: "main.asm".into(), files: vec![("main.asm".into(), src.into_bytes())], command: None };
        &gen_entry
    } else {
        &corp[t.below(corp.len())]
    };
    let mut files = e.files.clone();
    // mutate the root file (and sometimes one other .asm of the set)
    let others: Vec<String> = (0..3)
        .map(|_| {
            let o = &corp[t.below(corp.len())];
            o.files.iter().find(|f| f.0 == o.root).map(|f| String::from_utf8_lossy(&f.1).to_string()).unwrap_or_default()
        })
        .collect();
    let others_ref: Vec<&str> = others.iter().map(|s| s.as_str()).collect();
    let mut edits = 0;
    let mut kinds = Vec::new();
    let root_idx = files.iter().position(|f| f.0 == e.root).unwrap();
    {
        let text = String::from_utf8_lossy(&files[root_idx].1).to_string();
        let m = mutate::mutate(t, &text, &others_ref, if generated { 3 } else { 8 });
        edits += m.edits;
        kinds.extend(m.kinds);
        files[root_idx].1 = m.bytes;
    }
    if files.len() > 1 && t.chance(1, 5) {
        let i = t.below(files.len());
        if i != root_idx && files[i].0.ends_with(".asm") {
            let text = String::from_utf8_lossy(&files[i].1).to_string();
            let m = mutate::mutate(t, &text, &others_ref, 3);
            edits += m.edits;
            kinds.extend(m.kinds);
            files[i].1 = m.bytes;
        }
    }

    // v2: inclusion functions on awkward files and ranges (an empty file, a range at the end of the machine word)
    if crate::engine::gen_version() >= 2 && t.chance(1, 12) {
        files.push(("zz_empty.bin".to_string(), Vec::new()));
        files.push(("zz_three.bin".to_string(), b"abc".to_vec()));
        let f = *t.pick(&["incbin", "incbinstr", "inchexstr"]);
        let file = *t.pick(&["zz_empty.bin", "zz_three.bin"]);
        let args_txt = *t.pick(&["", ", 0", ", 1", ", 0, 0", ", 3", ", 1, 0xffff_ffff_ffff_ffff", ", 0xffff_ffff_ffff_ffff", ", 0, 3", ", 2, 2"]);
        let line = format!("#d {}(\"{}\"{})\n", f, file, args_txt);
        let mut text = String::from_utf8_lossy(&files[root_idx].1).to_string();
        if t.flip() {
            text.push('\n');
            text.push_str(&line);
        } else {
            text = format!("{}{}", line, text);
        }
        files[root_idx].1 = text.into_bytes();
        edits += 1;
        kinds.push("inclusion-function-on-awkward-file");
    }
    // command line
    let mut args: Vec<String> = Vec::new();
    let use_cmd = e.command.is_some() && t.chance(3, 4);
    let mut n_groups = 1;
    if use_cmd {
        args = e.command.clone().unwrap();
        if !args.iter().any(|a| a == "-q" || a == "--quiet") {
            args.insert(0, "-q".to_string());
        }
    } else {
        args.push("-q".to_string());
        args.push(e.root.clone());
        match t.weighted(&[6, 1, 1, 1, 1]) {
            0 => {}
            1 => args.push("-t1".to_string()),
            2 => args.push("-t2".to_string()),
            3 => args.push("-t3".to_string()),
            _ => args.push("--iters=30".to_string()),
        }
        if t.chance(1, 6) {
            args.push("--debug-no-optimize-static".to_string());
        }
        if t.chance(1, 6) {
            args.push("--debug-no-optimize-matcher".to_string());
        }
        let ndef = t.weighted(&[8, 1, 1]);
        for _ in 0..ndef {
            let d = *t.pick(&["x", "val=1", "val=0x10", "c=true", "c=false", "v=-3", "x=", "a=b=c", "nothere=1", "val=zz"]);
            args.push(format!("-d{}", d));
        }
        n_groups = t.weighted(&[2, 4, 2, 1]).max(1);
        let explicit = t.chance(3, 4);
        if explicit {
            for g in 0..n_groups {
                if g > 0 {
                    args.push("--".to_string());
                }
                let f = *t.pick(FORMATS);
                args.push("-f".to_string());
                args.push(f.to_string());
                match t.weighted(&[5, 2, 1]) {
                    0 => {
                        args.push("-o".to_string());
                        args.push(format!("out{}.x", g));
                    }
                    1 => args.push("-p".to_string()),
                    _ => {}
                }
            }
        }
    }
    // v4: the input file may be named in the LAST output group instead of the first
    if crate::engine::gen_version() >= 4 && !use_cmd && t.chance(1, 4) {
        let root = args.remove(1);
        args.push(root);
        kinds.push("input-file-named-last");
    }
    Case { seed_name: e.name.clone(), files, args, edits, kinds, n_groups, from_corpus_command: use_cmd }
}

pub fn phase_of(msgs: &[Msg]) -> &'static str {
    let Some(m) = msgs.iter().find(|m| m.kind == 'E') else { return "none" };
    let mut all = Vec::new();
    m.flatten(&mut all);
    let text: String = all.iter().map(|m| m.descr.as_str()).collect::<Vec<_>>().join(" / ");
    let has = |s: &str| text.contains(s);
    if has("no match") {
        "match"
    } else if has("did not converge") || has("unresolved") || has("out of range") || has("failed to resolve") || has("assertion") {
        "resolve"
    } else if has("overlap") || has("bank") || has("non-writable") {
        "output"
    } else if has("file not found") || has("could not") {
        "io"
    } else if has("expected") || has("unexpected") || has("invalid") || has("unknown directive") {
        "parse"
    } else if has("duplicate") || has("unknown symbol") || has("unknown") {
        "declare"
    } else if has("format") || has("argument") || has("define") {
        "cli"
    } else {
        "other"
    }
}

/// The outcome predicate of the property for one in-process run of the driver.
/// `fault`: None, or Some(("read"|"write", name)).
pub fn judge_run(
    files: &[(String, Vec<u8>)],
    args: &[String],
    fault: Option<(&str, &str)>,
) -> (Result<sut::DriveOutcome, String>, Option<(String, String)>) {
    let mut fs = MemFs::from_files(files);
    fs.add_std();
    if let Some((k, n)) = fault {
        if k == "read" {
            fs.unreadable.insert(n.to_string());
        } else {
            fs.unwritable.insert(n.to_string());
        }
    }
    let r = sut::drive(&mut fs, args);
    let requested: Vec<String> = fs.requested.borrow().clone();
    let _ = requested;
    let fail = match &r {
        Err(p) => Some((format!("panic {}", sut::panic_site(p)), format!("panic: {}", p))),
        Ok(o) if o.printed.is_err() => {
            let p = o.printed.as_ref().err().unwrap();
            Some((format!("panic-while-printing-diagnostics {}", sut::panic_site(p)), format!("printing the diagnostics panicked: {}", p)))
        }
        Ok(o) => {
            let any_err = sut::has_error(&o.msgs);
            if o.ok {
                if any_err {
                    Some((
                        "success-with-error-diagnostic".to_string(),
                        format!("drive returned Ok, {} file(s) written, but reported: {}", o.writes.len(), sut::first_error_text(&o.msgs)),
                    ))
                } else {
                    None
                }
            } else if !any_err {
                Some(("failure-without-error-diagnostic".to_string(), "drive returned Err with no error message".to_string()))
            } else if !o.writes.is_empty() && fault.map(|f| f.0) != Some("write") {
                Some((
                    "failure-but-output-written".to_string(),
                    format!("drive returned Err ({}) but wrote {:?}", sut::first_error_text(&o.msgs), o.writes.iter().map(|w| &w.0).collect::<Vec<_>>()),
                ))
            } else {
                None
            }
        }
    };
    (r, fail)
}

/// names a non-ASCII character outside comments and strings (input predicate for signatures)
pub fn nonascii_outside_comment(files: &[(String, Vec<u8>)]) -> bool {
    for (n, b) in files {
        if !n.ends_with(".asm") {
            continue;
        }
        let s = String::from_utf8_lossy(b);
        for line in s.lines() {
            let mut in_str = false;
            for c in line.chars() {
                if c == '"' {
                    in_str = !in_str;
                } else if c == ';' && !in_str {
                    break;
                } else if !c.is_ascii() && !in_str {
                    return true;
                }
            }
        }
    }
    false
}

pub fn any_nonascii(files: &[(String, Vec<u8>)]) -> bool {
    files.iter().any(|(n, b)| n.ends_with(".asm") && b.iter().any(|x| *x >= 0x80))
}

pub fn input_predicate(files: &[(String, Vec<u8>)]) -> &'static str {
    if nonascii_outside_comment(files) {
        "nonascii-outside-comment"
    } else if any_nonascii(files) {
        "nonascii-in-comment-or-string"
    } else {
        "ascii"
    }
}

/// every single permanent I/O fault of one run: each input the fault-free run requested made unreadable,
/// each output path it wrote made unwritable
pub fn fault_sweep(
    files: &[(String, Vec<u8>)],
    args: &[String],
    pred: &str,
    ctx: &mut CaseCtx,
    render: &dyn Fn(serde_json::Value) -> serde_json::Value,
) -> Option<Verdict> {
    let mut fs = MemFs::from_files(files);
    fs.add_std();
    let _ = sut::drive(&mut fs, args);
    let mut inputs: Vec<String> = fs.requested.borrow().iter().filter(|n| fs.has(n)).cloned().collect();
    inputs.sort();
    inputs.dedup();
    let outputs: Vec<String> = fs.writes.iter().map(|w| w.0.clone()).collect();
    for name in &inputs {
        let (r, fail) = judge_run(files, args, Some(("read", name)));
        ctx.evals += 1;
        ctx.label("fault:read");
        let fail = fail.or_else(|| match &r {
            Ok(o) if o.ok => Some(("unreadable-input-but-success".to_string(), format!("input `{}` unreadable, yet the run succeeded", name))),
            _ => None,
        });
        if let Some((clause, detail)) = fail {
            let clause = format!("{}|fault-read|{}", pred, clause);
            if let Some(v) = ctx.judge(clause, detail) {
                ctx.want_render = true;
                ctx.render(|| render(json!({"fault": ["read", name]})));
                return Some(v);
            }
        }
    }
    for (k, name) in outputs.iter().enumerate() {
        let (r, fail) = judge_run(files, args, Some(("write", name)));
        ctx.evals += 1;
        ctx.label("fault:write");
        let fail = fail.or_else(|| match &r {
            Ok(o) if o.ok => Some(("unwritable-output-but-success".to_string(), format!("output `{}` unwritable, yet the run succeeded", name))),
            Ok(o) if o.writes.len() > k => Some((
                "write-fault-later-groups-written".to_string(),
                format!("output `{}` (group {}) unwritable, but {} files were written", name, k, o.writes.len()),
            )),
            _ => None,
        });
        if let Some((clause, detail)) = fail {
            let clause = format!("{}|fault-write|{}", pred, clause);
            if let Some(v) = ctx.judge(clause, detail) {
                ctx.want_render = true;
                ctx.render(|| render(json!({"fault": ["write", name]})));
                return Some(v);
            }
        }
    }
    None
}

/// The property at process level: the real binary in a scratch directory ends by itself; exit status 0 <=> no
/// `error:` on stderr; on success every explicitly named output exists; on failure nothing new was written
/// (unless the failure is an output file that could not be created). Self-contained: not compared with the
/// in-memory run, so differences between the two file servers cannot raise an alarm.
pub fn real_binary_predicate(files: &[(String, Vec<u8>)], args: &[String]) -> Option<(String, String)> {
    use crate::engine::realbin;
    let dir = realbin::scratch("c03");
    realbin::materialize(&dir, files);
    let before: std::collections::HashSet<String> = realbin::snapshot(&dir).into_iter().map(|f| f.0).collect();
    let mut a: Vec<String> = vec!["--color=off".to_string()];
    a.extend(args.iter().cloned());
    let r = realbin::run(&realbin::bin_path(false), &dir, &a, &realbin::Limits::default());
    let after: Vec<String> = realbin::snapshot(&dir).into_iter().map(|f| f.0).filter(|n| !before.contains(n)).collect();
    let _ = std::fs::remove_dir_all(&dir);
    // diagnostics of a rejected command line are printed before --color is looked at: strip ANSI sequences
    let stderr = {
        let raw = String::from_utf8_lossy(&r.stderr).to_string();
        let mut out = String::new();
        let mut it = raw.chars().peekable();
        while let Some(c) = it.next() {
            if c == '\u{1b}' && it.peek() == Some(&'[') {
                for d in it.by_ref() {
                    if d.is_ascii_alphabetic() {
                        break;
                    }
                }
            } else {
                out.push(c);
            }
        }
        out
    };
    let has_error = stderr.lines().any(|l| l.trim_start().starts_with("error:"));
    if r.timed_out {
        return None; // hangs are C19's business; not judged here
    }
    if let Some(sig) = r.signal {
        if sig == 24 || sig == 9 {
            return None;
        }
        return Some((format!("killed-by-signal-{}", sig), format!("the binary died with signal {}: {}", sig, stderr.chars().take(300).collect::<String>())));
    }
    match r.code {
        Some(101) => Some(("panic-exit".into(), format!("exit status 101: {}", stderr.chars().take(400).collect::<String>()))),
        Some(0) => {
            if has_error {
                return Some(("exit-0-with-error-diagnostic".into(), format!("exit status 0, yet stderr has: {}", stderr.lines().find(|l| l.contains("error:")).unwrap_or(""))));
            }
            // explicitly named outputs of groups that do not print
            let mut groups: Vec<Vec<&String>> = vec![vec![]];
            for x in args {
                if x == "--" {
                    groups.push(vec![]);
                } else {
                    groups.last_mut().unwrap().push(x);
                }
            }
            for g in groups {
                let prints = g.iter().any(|x| *x == "-p" || *x == "--print");
                let mut name: Option<String> = None;
                for (i, x) in g.iter().enumerate() {
                    if *x == "-o" || *x == "--output" {
                        name = g.get(i + 1).map(|s| s.to_string());
                    } else if let Some(n) = x.strip_prefix("--output=") {
                        name = Some(n.to_string());
                    } else if x.starts_with("-o") && x.len() > 2 && !x.starts_with("--") {
                        name = Some(x[2..].to_string());
                    }
                }
                if let (false, Some(n)) = (prints, name) {
                    if !after.contains(&n) && !before.contains(&n) {
                        return Some(("exit-0-but-output-missing".into(), format!("exit status 0, but the requested output `{}` does not exist (new files: {:?})", n, after)));
                    }
                }
            }
            None
        }
        Some(_) => {
            if !has_error {
                return Some(("failure-without-error-diagnostic".into(), format!("exit status {:?} without an `error:` line: {}", r.code, stderr.chars().take(300).collect::<String>())));
            }
            if !after.is_empty() && !stderr.contains("could not create") && !stderr.contains("could not write") {
                return Some(("failure-but-output-written".into(), format!("exit status {:?} ({}), but new files appeared: {:?}", r.code, stderr.lines().find(|l| l.contains("error:")).unwrap_or(""), after)));
            }
            None
        }
        None => None,
    }
}

/// v2: small programs that MIX language features the other generators keep apart: user functions, conditional
/// arms that declare symbols, constants and data calling functions, asm blocks, nested labels, banks.
/// No model: the oracle of C03 is the outcome predicate.
pub fn feature_mix_program(t: &mut Tape) -> String {
    let mut s = String::new();
    let nfn = t.urange(0, 2);
    let mut arity: Vec<usize> = Vec::new();
    for k in 0..nfn {
        match t.draw(6) {
            5 => {
                // a function that guards its argument: a call with a large argument is a failed constraint
                s.push_str(&format!("#fn f{}(x) => {{ assert(x < 4), x }}\n", k));
                arity.push(1);
            }
            0 => {
                s.push_str(&format!("#fn f{}(x) => x + 1\n", k));
                arity.push(1);
            }
            1 => {
                s.push_str(&format!("#fn f{}(x, y) => x * 2 + y\n", k));
                arity.push(2);
            }
            2 => {
                s.push_str(&format!("#fn f{}(x) => $ + x\n", k));
                arity.push(1);
            }
            3 => {
                s.push_str(&format!("#fn f{}(x) => x + g1\n", k));
                arity.push(1);
            }
            _ => {
                s.push_str(&format!("#fn f{}() => 7\n", k));
                arity.push(0);
            }
        }
    }
    let has_rules = t.chance(3, 4);
    if has_rules {
        s.push_str("#subruledef reg\n{\n    a => 0x1\n    b => 0x2\n    [{v: u4}] => v\n}\n#subruledef opnd\n{\n    {r: reg} => 0x0 @ r`4\n    #{v: u8} => v\n}\n");
        s.push_str("#ruledef\n{\n    ld {x: u8} => 0x10 @ x\n    ld {x: s16} => 0x11 @ x\n    mv {o: opnd} => 0x30 @ o\n");
        s.push_str("    jmp {a} => { assert(a - $ < 8 && a - $ >= -8), 0x2 @ (a - $)`4 }\n    jmp {a} => 0x20 @ a`16\n");
        s.push_str("    two {a} => asm { ld {a}\n ld {a} + 1 }\n    far {a} => asm { jmp {a}\n .here:\n jmp .here }\n    halt => 0xff\n");
        if crate::engine::gen_version() >= 3 {
            // v3: rule-body locals (one of them spelled with the `__` prefix the hygiene scheme uses itself) handed to an
            // asm block by value; a function with such a parameter pair
            s.push_str("    hyg {a} => {\n        t = a + 1\n        __t = 0x30\n        asm { ld {t} }\n    }\n");
        }
        s.push_str("}\n");
        if crate::engine::gen_version() >= 3 {
            s.push_str("#fn hyf(value, __value) => asm { ld {value} }\n");
        }
    }
    let banked = t.chance(1, 4);
    if banked {
        s.push_str("#bankdef rom\n{\n    addr = 0x100\n    size = 0x80\n    outp = 0\n    fill\n}\n#bankdef ram\n{\n    addr = 0x8000\n    size = 0x10\n}\n#bank rom\n");
    }
    // names that the body may mention; whatever is mentioned but not declared by the body is declared at the end
    let mut used_g = [false; 4];
    let mut decl_g = [false; 4];
    let mut used_z = [false; 3];
    let mut decl_z = [false; 3];
    let mut used_cfg = false;
    let mut decl_cfg = false;
    let mut decl_pc = false;
    let mut have_global = false;
    let faulty = t.chance(1, 5); // one case in five may carry a deliberate fault
    let call = |t: &mut Tape, arity: &Vec<usize>, faulty: bool| -> String {
        if arity.is_empty() {
            return format!("{}", t.draw(9));
        }
        let k = t.below(arity.len());
        let n = if faulty && t.chance(1, 4) { (arity[k] + 1) % 3 } else { arity[k] };
        let args: Vec<String> = (0..n).map(|_| format!("{}", t.draw(6))).collect();
        format!("f{}({})", k, args.join(", "))
    };
    if arity.len() > 0 {
        used_g[1] = true; // f..(x) => x + g1 may be among them
    }
    let n = t.urange(2, 12);
    let mut sym = 0;
    let mut in_local_ok = |s: &mut String, have_global: &mut bool, decl_g: &mut [bool; 4]| {
        if !*have_global {
            s.push_str("g0:\n");
            decl_g[0] = true;
            *have_global = true;
        }
    };
    for _ in 0..n {
        match t.draw(18) {
            0 => {
                let cond = *t.pick(&["true", "false", "1 == 1", "cfgz == 2", "cfgz != 2", "!true", "cfgz > 1 && true"]);
                if cond.contains("cfgz") {
                    used_cfg = true;
                }
                s.push_str(&format!("#if {}\n{{\n", cond));
                for _ in 0..t.urange(0, 2) {
                    sym += 1;
                    match t.draw(6) {
                        0 => s.push_str(&format!("    y{} = {}\n", sym, t.draw(9))),
                        1 => s.push_str(&format!("    lb{}:\n", sym)),
                        2 => s.push_str(&format!("    y{} = {}\n", sym, call(t, &arity, faulty))),
                        3 if has_rules => {
                            let k = t.urange(1, 3);
                            used_g[k] = true;
                            s.push_str(&format!("    jmp g{}\n", k));
                        }
                        _ => s.push_str(&format!("    #d8 {}\n", t.draw(200))),
                    }
                }
                s.push_str("}\n");
                match t.draw(4) {
                    0 => s.push_str("#else\n{\n    #d8 0xee\n}\n"),
                    1 => {
                        used_cfg = true;
                        s.push_str("#elif cfgz == 2\n{\n    #d8 0xed\n}\n");
                    }
                    _ => {}
                }
                // an arm may have declared a global symbol: what follows must not rely on the scope before it
                have_global = false;
            }
            1 => {
                let k = t.below(3);
                if !decl_z[k] {
                    decl_z[k] = true;
                    s.push_str(&format!("z{} = {}\n", k, call(t, &arity, faulty)));
                    have_global = false;
                }
            }
            2 => s.push_str(&format!("#d8 {}\n", call(t, &arity, faulty))),
            3 | 4 => {
                let k = t.urange(1, 3);
                if !decl_g[k] {
                    decl_g[k] = true;
                    if !banked {
                        s.push_str("#align 8\n");
                    }
                    s.push_str(&format!("g{}:\n", k));
                    have_global = true;
                }
            }
            5 => {
                sym += 1;
                in_local_ok(&mut s, &mut have_global, &mut decl_g);
                s.push_str(&format!(".l{}:\n", sym));
            }
            6 if has_rules => s.push_str(&format!("ld {}\n", call(t, &arity, faulty))),
            7 if has_rules && crate::engine::gen_version() >= 3 => match t.draw(4) {
                0 => s.push_str(&format!("hyg {}\n", t.draw(9))),
                1 => s.push_str(&format!("#d hyf({}, 0xee)\n", t.draw(9))),
                _ => s.push_str(&format!("two {}\n", t.draw(9))),
            },
            7 if has_rules => s.push_str(&format!("two {}\n", t.draw(9))),
            8 => {
                if !decl_cfg {
                    decl_cfg = true;
                    s.push_str(&format!("cfgz = {}\n", *t.pick(&[2, 2, 1])));
                    have_global = false;
                }
            }
            9 => {
                let k = t.below(3);
                used_z[k] = true;
                s.push_str(&format!("#d8 z{}\n", k));
            }
            10 if has_rules => {
                let k = t.urange(1, 3);
                used_g[k] = true;
                s.push_str(&format!("jmp g{}\n", k));
            }
            11 if has_rules => {
                let k = t.urange(1, 3);
                used_g[k] = true;
                s.push_str(&format!("far g{}\n", k));
            }
            12 if has_rules => {
                let o = if faulty && t.chance(1, 3) { *t.pick(&["c", "#300", "[77]"]) } else { *t.pick(&["a", "b", "[3]", "#5", "#g1", "[z1]"]) };
                if o.contains("g1") {
                    used_g[1] = true;
                }
                if o.contains("z1") {
                    used_z[1] = true;
                }
                s.push_str(&format!("mv {}\n", o));
            }
            13 => s.push_str(&format!("#align {}\n", *t.pick(&[8, 16, 32]))),
            14 => s.push_str(&format!("#res {}\n", t.draw(4))),
            15 => {
                let guarded = format!("{} >= 0", call(t, &arity, faulty));
                let a: &str = if faulty && t.chance(1, 3) { *t.pick(&["1 == 2", "assert(1 == 2)", "{ assert(2 < 1), true }"]) } else if t.chance(1, 3) { guarded.as_str() } else { *t.pick(&["1 == 1", "$ >= 0", "cfgz >= 1", "g1 < 0x8000"]) };
                if a.contains("cfgz") {
                    used_cfg = true;
                }
                if a.contains("g1") {
                    used_g[1] = true;
                }
                s.push_str(&format!("#assert {}\n", a));
            }
            16 if t.flip() => s.push_str(&format!("#d \"s{}\", 0x0{}\n", sym, t.draw(9))),
            16 => {
                // a user constant spelled like the built-in `pc`, and uses of the name (which still mean the address)
                if !decl_pc {
                    decl_pc = true;
                    s.push_str(&format!("pc = {}\n", t.draw(9)));
                    have_global = false;
                }
                if has_rules {
                    s.push_str(*t.pick(&["jmp pc\n", "ld pc\n", "#d8 pc\n", "jmp pc + 2\n"]));
                } else {
                    s.push_str("#d8 pc\n");
                }
            }
            _ => {
                sym += 1;
                let k = t.urange(1, 3);
                used_g[k] = true;
                s.push_str(&format!("k{} = g{} + {}\n", sym, k, t.draw(4)));
                have_global = false;
            }
        }
    }
    // declare what was only mentioned (unless this is a faulty case that keeps an undefined name)
    let keep_undefined = faulty && t.chance(1, 3);
    if !keep_undefined {
        if used_cfg && !decl_cfg {
            s.push_str("cfgz = 2\n");
        }
        for k in 0..3 {
            if used_z[k] && !decl_z[k] {
                s.push_str(&format!("z{} = {}\n", k, t.draw(9)));
            }
        }
        for k in 1..4 {
            if used_g[k] && !decl_g[k] {
                if !banked {
                    s.push_str("#align 8\n");
                }
                s.push_str(&format!("g{}:\n", k));
            }
        }
    }
    s
}

impl Property for C03 {
    fn id(&self) -> &'static str {
        "C03"
    }
    fn level(&self) -> &'static str {
        "fault_enumeration"
    }
    fn rule(&self) -> String {
        "each case = one corpus test directory (read from /repo/tests, /repo/examples at run time; one case in four: a generated size-static or cascading program with banks and injected faults instead) whose .asm files get 0-8 token-level edits \
         (replace/insert dictionary token incl. every directive, operator, number form, 2/3/4-byte characters, NUL; delete; duplicate; swap; \
         splice a line of another file; truncate possibly inside a UTF-8 sequence) x a generated command line (its own `; command:` line or \
         budget 1/2/3/10/30, both debug switches, 0-2 defines valid/invalid, 1-3 output groups over every format name incl. invalid ones, -o/-p). \
         Oracle on driver::drive in-process: no panic; Ok => no error-kind message, Err => at least one error-kind message and no file written. \
         For a quarter of the cases EVERY single permanent I/O fault is then enumerated: each input file that the fault-free run requested made \
         unreadable, each output path it wrote made unwritable (writes of earlier groups are then allowed). (v4) a quarter of the generated command lines name the input file LAST; a successful run must have written exactly one file per `--` group that does not say -p (`success-but-requested-output-missing`). Non-trivial = the text differs from \
         its seed (>=1 edit applied) and the run either succeeds or fails after parsing (phase label != parse/cli/io); distinct by hash of files+args."
            .to_string()
    }
    fn assumptions(&self) -> Vec<String> {
        vec![
            "in-process driver::drive with an in-memory file server stands for the process; exit status = Result (src/main.rs maps Err to exit 1)".into(),
            "progress output on stdout is not inspected here (-q is always passed)".into(),
            "one case in 120 is also run through the real binary in a scratch directory with the process-level form of the predicate (exit status <=> error diagnostic <=> files), judged on its own, not compared with the in-memory run".into(),
        ]
    }
    fn tape_len(&self, _t: Tier) -> usize {
        520
    }
    fn random_cases(&self, tier: Tier) -> u64 {
        tier.pick(600_000, 4_000_000)
    }
    fn fuzz_runs(&self, _tier: Tier) -> u64 {
        120_000
    }
    fn fuzz_raw(&self) -> bool {
        true
    }
    fn fuzz_seeds(&self) -> Vec<Vec<u8>> {
        // every single-file test of the repository (<= 3000 bytes) behind two option bytes
        let mut out = Vec::new();
        for (k, e) in corpus::corpus().iter().enumerate() {
            let asm: Vec<&(String, Vec<u8>)> = e.files.iter().filter(|f| f.0.ends_with(".asm")).collect();
            if asm.len() == 1 && asm[0].1.len() <= 3000 {
                let mut d = vec![(k % 251) as u8, ((k * 7) % 256) as u8];
                d.extend_from_slice(&asm[0].1);
                out.push(d);
            }
            if out.len() >= 400 {
                break;
            }
        }
        out
    }
    /// raw mode (libFuzzer): byte 0 = output format, byte 1 = option bits, the rest is the text of main.asm
    fn run_raw(&self, data: &[u8], ctx: &mut CaseCtx) -> Verdict {
        if data.len() < 2 {
            ctx.skipped = true;
            return Verdict::Pass;
        }
        let fmt = FORMATS[data[0] as usize % FORMATS.len()];
        let fl = data[1];
        let files = vec![("main.asm".to_string(), data[2..].to_vec())];
        let mut args: Vec<String> = vec!["-q".into(), "main.asm".into()];
        match fl & 3 {
            1 => args.push("-t1".into()),
            2 => args.push("-t2".into()),
            3 => args.push("-t3".into()),
            _ => {}
        }
        if fl & 4 != 0 {
            args.push("--debug-no-optimize-static".into());
        }
        if fl & 8 != 0 {
            args.push("--debug-no-optimize-matcher".into());
        }
        if fl & 64 != 0 {
            args.push("-dval=1".into());
        }
        args.push("-f".into());
        args.push(fmt.to_string());
        if fl & 16 != 0 {
            args.push("-p".into());
        } else {
            args.push("-o".into());
            args.push("out0.x".into());
        }
        if fl & 32 != 0 {
            for a in ["--", "-f", "symbols", "-o", "out1.x"] {
                args.push(a.into());
            }
        }
        let render = |extra: serde_json::Value| json!({"args": args, "files": [{"name": "main.asm", "text": String::from_utf8_lossy(&data[2..])}], "extra": extra});
        let mut h = crate::engine::fnv(args.join(" ").as_bytes());
        h = crate::engine::mix(h, crate::engine::fnv(&data[2..]));
        ctx.hash = h;
        let pred = input_predicate(&files);
        let (r, fail) = judge_run(&files, &args, None);
        ctx.evals += 1;
        if let Some((clause, detail)) = fail {
            ctx.want_render = true;
            ctx.render(|| render(json!(null)));
            return Verdict::fail(format!("{}|{}", pred, clause), detail);
        }
        let o = r.unwrap();
        let phase = if o.ok { "ok" } else { phase_of(&o.msgs) };
        ctx.label(format!("phase:{}", phase));
        ctx.nontrivial = !matches!(phase, "parse" | "cli" | "io");
        ctx.render(|| render(json!({"phase": phase})));
        if fl & 128 != 0 {
            if let Some(v) = fault_sweep(&files, &args, pred, ctx, &render) {
                return v;
            }
        }
        Verdict::Pass
    }
    fn crash_is_violation(&self) -> bool {
        true
    }
    fn setup(&self, _tier: Tier) -> Result<(), String> {
        crate::engine::realbin::build(false).map(|_| ())
    }
    fn run(&self, t: &mut Tape, ctx: &mut CaseCtx) -> Verdict {
        let do_faults = t.chance(1, 4);
        let case = build_case(t);
        let render = |case: &Case, extra: serde_json::Value| {
            json!({
                "seed_file": case.seed_name,
                "args": case.args,
                "edits": case.kinds,
                "files": case.files.iter().filter(|f| f.0.ends_with(".asm")).map(|f| json!({"name": f.0, "text": String::from_utf8_lossy(&f.1)})).collect::<Vec<_>>(),
                "extra": extra,
            })
        };
        let mut h = crate::engine::fnv(case.args.join(" ").as_bytes());
        for f in &case.files {
            h = crate::engine::mix(h, crate::engine::fnv(&f.1));
        }
        ctx.hash = h;
        let pred = input_predicate(&case.files);
        if std::env::var("VERIF_RENDER_ONLY").is_ok() {
            eprintln!("{}", serde_json::to_string_pretty(&render(&case, json!(null))).unwrap());
            return Verdict::Pass;
        }
        let t0 = std::time::Instant::now();
        let (r, fail) = judge_run(&case.files, &case.args, None);
        ctx.evals += 1;
        if std::env::var("VERIF_SLOW").is_ok() && t0.elapsed().as_millis() > 100 {
            ctx.label(format!("slow:{}:{}ms", case.seed_name, t0.elapsed().as_millis() / 100 * 100));
            if t0.elapsed().as_millis() > 2000 {
                let _ = std::fs::write(format!("/tmp/slow-{:x}.json", ctx.hash), serde_json::to_vec_pretty(&render(&case, json!(null))).unwrap());
            }
        }
        if let Some((clause, detail)) = fail {
            let clause = format!("{}|{}", pred, clause);
            ctx.want_render = true;
            ctx.render(|| render(&case, json!(null)));
            return Verdict::fail(clause, detail);
        }
        let o = r.unwrap();
        // v4: "every requested output produced": on the command lines built here every `--`-separated group asks for one
        // output, written to a file unless the group says -p
        if crate::engine::gen_version() >= 4 && o.ok && !case.from_corpus_command {
            let want = case.args.split(|a| a == "--").filter(|g| !g.iter().any(|a| a == "-p")).count();
            if o.writes.len() != want {
                ctx.want_render = true;
                ctx.render(|| render(&case, json!(null)));
                return Verdict::fail(
                    format!("{}|success-but-requested-output-missing", pred),
                    format!("{} output group(s) ask for a file, the successful run wrote {:?}", want, o.writes.iter().map(|w| &w.0).collect::<Vec<_>>()),
                );
            }
            if case.args.last().map(|a| a.ends_with(".asm")).unwrap_or(false) && case.n_groups > 1 {
                ctx.label("success:input-file-named-last:several-groups");
            }
        }
        let phase = if o.ok { "ok" } else { phase_of(&o.msgs) };
        ctx.label(format!("phase:{}", phase));
        ctx.label(format!("edits:{}", case.edits.min(8)));
        ctx.nontrivial = (case.edits >= 1 || case.seed_name == "generated") && !matches!(phase, "parse" | "cli" | "io");
        if case.seed_name == "generated" {
            ctx.label("seed:generated");
        }
        ctx.render(|| render(&case, json!({"phase": phase})));

        if do_faults {
            if let Some(v) = fault_sweep(&case.files, &case.args, pred, ctx, &|extra| render(&case, extra)) {
                return v;
            }
        }
        // v2: the same predicate at process level, on the real binary, for a sample of the cases
        if crate::engine::gen_version() >= 2 && t.chance(1, 120) {
            ctx.label("real-binary");
            if let Some((clause, detail)) = real_binary_predicate(&case.files, &case.args) {
                ctx.evals += 1;
                let clause = format!("{}|real|{}", pred, clause);
                if let Some(v) = ctx.judge(clause, detail) {
                    ctx.want_render = true;
                    ctx.render(|| render(&case, json!({"real_binary": true})));
                    return v;
                }
            }
        }
        Verdict::Pass
    }
}
