//! C04 — typed arguments and sized data accept exactly their range, never truncating.

use crate::engine::sut::{self, AsmOutcome, Opts};
use crate::engine::{CaseCtx, Property, Tape, Tier, Verdict};
use crate::model::expr::{mod_pow2, pow2};
use num_bigint::BigInt;
use num_traits::{Signed, Zero};
use serde_json::json;

pub struct C04;

#[derive(Clone, Copy, Debug, PartialEq, Eq)]
pub enum Kind {
    U,
    S,
    I,
    D,
}

impl Kind {
    pub fn letter(self) -> &'static str {
        match self {
            Kind::U => "u",
            Kind::S => "s",
            Kind::I => "i",
            Kind::D => "d",
        }
    }
}

/// the closed-form ranges of the property statement
pub fn in_range(kind: Kind, n: usize, v: &BigInt) -> bool {
    let two = |k: usize| pow2(k);
    match kind {
        Kind::U => !v.is_negative() && *v < two(n),
        Kind::S => {
            if n == 0 {
                v.is_zero() // -2^-1 <= v < 2^-1 over the integers
            } else {
                *v >= -two(n - 1) && *v < two(n - 1)
            }
        }
        Kind::I | Kind::D => {
            if n == 0 {
                v.is_zero()
            } else {
                *v >= -two(n - 1) && *v < two(n)
            }
        }
    }
}

/// textual forms of a value: (optional constant declaration, operand text)
pub fn form(v: &BigInt, which: usize, uniq: usize) -> (Option<String>, String, &'static str) {
    let neg = v.is_negative();
    let mag = v.abs();
    let sign = if neg { "-" } else { "" };
    // round 11: bitwise operators between ONE sized and ONE unsized operand (the result of an operator has no size of
    // its own, so the value is judged by its magnitude, never by the width of the sized operand)
    match which {
        8 => return (None, format!("0x0 | {}", v), "sized-zero-or-unsized"),
        9 => return (None, format!("{} ^ 0b0", if neg { format!("({})", v) } else { v.to_string() }), "unsized-xor-sized-zero"),
        10 if !neg => {
            let digits = std::cmp::max(1, (v.bits() as usize + 3) / 4) + 1;
            return (None, format!("0x{} & {}", "f".repeat(digits), v), "sized-mask-and-unsized");
        }
        10 => return (None, format!("{} | 0x00", v), "unsized-or-sized-zero"),
        _ => {}
    }
    match which % 8 {
        7 if v.is_positive() => {
            // the value as the short slice of a NEGATIVE unsized operand that fits the slice width:
            // (0 - K)`W with W = bit length of v and K = 2^W - v is the W-bit pattern of v
            let w = v.bits();
            let k: BigInt = (BigInt::from(1) << (w as usize)) - v;
            (None, format!("(0 - {})`{}", k, w), "slice-of-negative")
        }
        7 => (None, format!("{}{}", sign, mag.to_str_radix(10)), "dec"),
        6 => {
            // the value as the bitwise NOT of a SIZED literal (the result of an operator has no size of its own)
            let inner: BigInt = -v - 1;
            if inner.is_negative() {
                (None, format!("!(-0x{})", inner.abs().to_str_radix(16)), "not-of-sized-literal")
            } else {
                (None, format!("!0x{}", inner.to_str_radix(16)), "not-of-sized-literal")
            }
        }
        0 => (None, format!("{}{}", sign, mag.to_str_radix(10)), "dec"),
        1 => (None, format!("{}0x{}", sign, mag.to_str_radix(16)), "hex"),
        2 => (None, format!("{}0b{}", sign, mag.to_str_radix(2)), "bin"),
        3 => (None, format!("({} + 1) - 1", v), "expr"),
        4 => {
            let name = format!("c{}", uniq);
            (Some(format!("{} = {}\n", name, v)), name, "const")
        }
        _ => (None, format!("{}0x00{}", sign, mag.to_str_radix(16)), "hex-leading-zeros"),
    }
}

#[derive(Clone, Debug)]
pub struct Chunk {
    pub kind: Kind,
    pub n: usize,
    pub values: Vec<BigInt>,
    pub sized_literals: bool,
}

fn header(kind: Kind, n: usize) -> String {
    match kind {
        Kind::D => String::new(),
        k => format!("#ruledef\n{{\n    t {{x: {}{}}} => x\n}}\n", k.letter(), n),
    }
}

fn line(kind: Kind, n: usize, text: &str) -> String {
    match kind {
        Kind::D => format!("#d{} {}\n", n, text),
        _ => format!("t {}\n", text),
    }
}

fn boundaries(n: usize) -> Vec<BigInt> {
    let mut b = vec![BigInt::zero(), pow2(n), -pow2(n)];
    if n >= 1 {
        b.push(pow2(n - 1));
        b.push(-pow2(n - 1));
    }
    b
}

fn near_boundary(n: usize, v: &BigInt) -> bool {
    boundaries(n).iter().any(|b| (v - b).abs() <= BigInt::from(4))
}

pub const CHUNK: usize = 1024;
pub const CHUNKS_PER_WIDTH: u64 = 130; // (2^17 + 9) / 1024 rounded up
pub const WIDTHS: u64 = 17;

fn values_for(tier: Tier, n: usize) -> Vec<BigInt> {
    let full_max = tier.pick(13, 16);
    if n <= full_max {
        let lo = -(1i64 << n) - 4;
        let hi = (1i64 << n) + 4;
        (lo..=hi).map(BigInt::from).collect()
    } else {
        let mut vs: Vec<BigInt> = Vec::new();
        for b in boundaries(n) {
            for d in -4..=4 {
                vs.push(&b + BigInt::from(d));
            }
        }
        vs.sort();
        vs.dedup();
        vs
    }
}

/// the enumerated index space is fixed (stable replay indices):
///   index < 4*17*130 : ((kind*17 + n) * 130 + chunk)   (chunks past the end of the value list are empty)
///   then 17 indices for the sized-literal tables of #dN
pub fn chunk_at(tier: Tier, index: u64) -> Option<Chunk> {
    let table = 4 * WIDTHS * CHUNKS_PER_WIDTH;
    if index >= table {
        let n = (index - table) as usize;
        if n > 16 {
            return None;
        }
        return Some(Chunk { kind: Kind::D, n, values: vec![], sized_literals: true });
    }
    let chunk = (index % CHUNKS_PER_WIDTH) as usize;
    let kn = index / CHUNKS_PER_WIDTH;
    let n = (kn % WIDTHS) as usize;
    let kind = [Kind::U, Kind::S, Kind::I, Kind::D][(kn / WIDTHS) as usize];
    let values = values_for(tier, n);
    let lo = chunk * CHUNK;
    if lo >= values.len() {
        return None;
    }
    let hi = (lo + CHUNK).min(values.len());
    let mut values = values[lo..hi].to_vec();
    if chunk == 0 {
        // round 14: values FAR outside every range whose low machine word lies inside it (2^64 + v, 2^65 + v, 3*2^64 + v,
        // 2^128 + v and their negatives, for v at the in-range landmarks): all must be rejected
        let mut lows = vec![BigInt::zero(), BigInt::from(1), pow2(n) - 1];
        if n >= 1 {
            lows.push(pow2(n - 1));
        }
        for base in [pow2(64), pow2(65), pow2(64) * 3, pow2(128)] {
            for l in &lows {
                values.push(&base + l);
                values.push(-(&base + l));
            }
        }
    }
    Some(Chunk { kind, n, values, sized_literals: false })
}

pub struct Failure {
    pub clause: String,
    pub detail: String,
}

fn pred(kind: Kind, n: usize) -> String {
    if n == 0 {
        format!("{}0", kind.letter())
    } else {
        format!("{}N", kind.letter())
    }
}

/// one failing line among in-range neighbours: must be an error located on its own line
fn check_rejected(kind: Kind, n: usize, decl: &Option<String>, text: &str, neighbours: (&str, &str), evals: &mut u64) -> Option<Failure> {
    let mut src = header(kind, n);
    if let Some(d) = decl {
        src.push_str(d);
    }
    let mut lines_before = src.matches('\n').count();
    if !neighbours.0.is_empty() {
        src.push_str(&line(kind, n, neighbours.0));
        lines_before += 1;
    }
    src.push_str(&line(kind, n, text));
    if !neighbours.1.is_empty() {
        src.push_str(&line(kind, n, neighbours.1));
    }
    *evals += 1;
    match sut::assemble_src(&src, &Opts::default()) {
        AsmOutcome::Err(msgs) => {
            // located on its own line?
            let bytes = src.as_bytes();
            let line_of = |off: usize| bytes[..off.min(bytes.len())].iter().filter(|b| **b == b'\n').count();
            let mut all = Vec::new();
            for m in &msgs {
                m.flatten(&mut all);
            }
            let on_line = all.iter().any(|m| m.kind == 'E' && m.loc.map(|l| line_of(l.0) == lines_before).unwrap_or(false));
            if on_line {
                None
            } else {
                Some(Failure {
                    clause: format!("{}|error-not-on-faulty-line", pred(kind, n)),
                    detail: format!("`{}` rejected, but no error is located on its line {}: {}", text, lines_before + 1, sut::first_error_text(&msgs)),
                })
            }
        }
        AsmOutcome::Panic(p) => Some(Failure { clause: format!("{}|panic {}", pred(kind, n), sut::panic_site(&p)), detail: format!("`{}`: panic {}", text, p) }),
        other => Some(Failure {
            clause: format!("{}|out-of-range-accepted", pred(kind, n)),
            detail: format!("{}{} operand `{}` is outside the range but was accepted: {}", kind.letter(), n, text, other.brief()),
        }),
    }
}

/// a batch of accepted lines: output must be the concatenation of the N-bit images
fn check_accepted(kind: Kind, n: usize, items: &[(Option<String>, String, BigInt)], evals: &mut u64) -> Option<Failure> {
    if items.is_empty() {
        return None;
    }
    let mut src = header(kind, n);
    for (d, _, _) in items {
        if let Some(d) = d {
            src.push_str(d);
        }
    }
    for (_, text, _) in items {
        src.push_str(&line(kind, n, text));
    }
    *evals += 1;
    let out = sut::assemble_src(&src, &Opts::default());
    match &out {
        AsmOutcome::Ok(ok) => {
            if ok.bits.len() != n * items.len() {
                return Some(Failure {
                    clause: format!("{}|output-length", pred(kind, n)),
                    detail: format!("{} operands of width {} produced {} bits", items.len(), n, ok.bits.len()),
                });
            }
            for (k, (_, text, v)) in items.iter().enumerate() {
                let want = mod_pow2(v, n);
                let mut got = BigInt::zero();
                for b in 0..n {
                    got = got * 2 + BigInt::from(ok.bits[k * n + b] as u8);
                }
                if got != want {
                    return Some(Failure {
                        clause: format!("{}|wrong-bits", pred(kind, n)),
                        detail: format!("{}{} operand `{}` (= {}) emitted {:#x}, expected {:#x}", kind.letter(), n, text, v, got, want),
                    });
                }
            }
            None
        }
        AsmOutcome::Panic(p) => Some(Failure { clause: format!("{}|panic {}", pred(kind, n), sut::panic_site(p)), detail: format!("panic {}", p) }),
        _ => {
            // find the culprit alone
            for (d, text, v) in items {
                let mut s = header(kind, n);
                if let Some(d) = d {
                    s.push_str(d);
                }
                s.push_str(&line(kind, n, text));
                *evals += 1;
                let o = sut::assemble_src(&s, &Opts::default());
                if o.ok().is_none() {
                    return Some(Failure {
                        clause: format!("{}|in-range-rejected", pred(kind, n)),
                        detail: format!("{}{} operand `{}` (= {}) is inside the range but was rejected: {}", kind.letter(), n, text, v, o.brief()),
                    });
                }
            }
            Some(Failure { clause: format!("{}|batch-rejected", pred(kind, n)), detail: format!("batch rejected, each line accepted alone: {}", out.brief()) })
        }
    }
}

pub fn run_values(kind: Kind, n: usize, values: &[BigInt], all_forms_at_boundaries: bool, ctx: &mut CaseCtx) -> Verdict {
    let mut accepted: Vec<(Option<String>, String, BigInt)> = Vec::new();
    let mut rejected: Vec<(Option<String>, String, BigInt)> = Vec::new();
    let mut uniq = 0;
    for (i, v) in values.iter().enumerate() {
        let forms: Vec<usize> = if all_forms_at_boundaries && near_boundary(n, v) { (0..11).collect() } else { vec![i % 6] };
        for f in forms {
            uniq += 1;
            let (decl, text, _fname) = form(v, f, uniq);
            // sized literal forms given to a data directive are judged by their width, not by this table
            if kind == Kind::D && f < 8 && (f % 6 == 1 || f % 6 == 2 || f % 6 == 5) {
                continue;
            }
            if in_range(kind, n, v) {
                accepted.push((decl, text, v.clone()));
            } else {
                rejected.push((decl, text, v.clone()));
            }
        }
    }
    ctx.label(format!("{}:accepted", kind.letter()));
    let mut evals = 0u64;
    let mut result = Verdict::Pass;
    let judge = |ctx: &mut CaseCtx, f: Failure| -> Option<Verdict> { ctx.judge(f.clause, f.detail) };
    // accepted values: in one batch
    let mut neighbours_usable = true;
    if let Some(f) = check_accepted(kind, n, &accepted, &mut evals) {
        neighbours_usable = false;
        if ctx.is_known(&f.clause) {
            // a known finding hides in the batch: judge every line alone so that nothing else hides behind it
            ctx.known_hits.push(f.clause.clone());
            for item in &accepted {
                if let Some(f) = check_accepted(kind, n, std::slice::from_ref(item), &mut evals) {
                    if let Some(v) = judge(ctx, f) {
                        result = v;
                        break;
                    }
                }
            }
        } else {
            result = Verdict::Fail { clause: f.clause, detail: f.detail };
        }
    }
    if result.is_pass() {
        let nb0 = accepted.first().map(|a| a.1.clone()).unwrap_or_default();
        let nb1 = accepted.last().map(|a| a.1.clone()).unwrap_or_default();
        // neighbours must not need a declaration
        let nb0 = if nb0.starts_with('c') || !neighbours_usable { String::new() } else { nb0 };
        let nb1 = if nb1.starts_with('c') || !neighbours_usable { String::new() } else { nb1 };
        for (decl, text, _v) in &rejected {
            if let Some(f) = check_rejected(kind, n, decl, text, (&nb0, &nb1), &mut evals) {
                if let Some(v) = judge(ctx, f) {
                    result = v;
                    break;
                }
            }
        }
    }
    ctx.evals += (accepted.len() + rejected.len()) as u64;
    let _ = evals;
    result
}

fn run_sized_literals(n: usize, ctx: &mut CaseCtx) -> Verdict {
    // #dN given sized literals of every width around N: accepted iff width <= N, zero-extended
    let mut accepted = Vec::new();
    let mut rejected = Vec::new();
    for w in 1..=(n + 9) {
        let patterns: Vec<BigInt> = vec![BigInt::zero(), BigInt::from(1), pow2(w) - 1, pow2(w - 1)];
        for p in patterns {
            let digits = format!("{:0>width$}", p.to_str_radix(2), width = w);
            let text = format!("0b{}", digits);
            if w <= n {
                accepted.push((None, text, p.clone()));
            } else {
                rejected.push((None, text, p.clone()));
            }
            if w % 4 == 0 {
                let digits = format!("{:0>width$}", p.to_str_radix(16), width = w / 4);
                let text = format!("0x{}", digits);
                if w <= n {
                    accepted.push((None, text, p.clone()));
                } else {
                    rejected.push((None, text, p));
                }
            }
        }
    }
    let mut evals = 0;
    ctx.evals += (accepted.len() + rejected.len()) as u64;
    if let Some(f) = check_accepted(Kind::D, n, &accepted, &mut evals) {
        let clause = f.clause.replace("|", "-sized|");
        if let Some(v) = ctx.judge(clause, f.detail) {
            return v;
        }
    }
    for (d, text, _) in &rejected {
        if let Some(f) = check_rejected(Kind::D, n, d, text, ("", ""), &mut evals) {
            let clause = f.clause.replace("|", "-sized|");
            if let Some(v) = ctx.judge(clause, f.detail) {
                return v;
            }
        }
    }
    Verdict::Pass
}

/// v2: "the result of an expression" that is only known once the layout has settled: the operand is a call of a
/// function that adds the address of a label, and that label moves by one after the first pass (an instruction of a
/// short/long family in front of it names a label far behind). The value that counts is the final one.
///     lag end / here: / t after(K) / end:        with #fn after(n) => n + here
/// (the first pass takes the long form of `lag`: here = 3; the layout settles with the short form: here = 2)
/// v3: the same idea for a data directive, in a program that needs FOUR passes: the element's value is the same in the
/// second and third pass and moves in the fourth (the second `lag` shrinks in pass 2, which lets the first one shrink
/// in pass 3, which moves the label):
///     lag far / after_first: / #d8 K - after_first / lag near / near: / #res 249 / far:
fn run_moving_data(t: &mut Tape, ctx: &mut CaseCtx) -> Verdict {
    let n = 8usize;
    let bs = boundaries(n);
    let v = t.pick(&bs).clone() + BigInt::from(t.range(-2, 2));
    // the label ends at 2 (3 in the passes before the last): value = K - after_first
    let k = &v + BigInt::from(2);
    let ktext = if k.is_negative() { format!("(0 - {})", -&k) } else { k.to_string() };
    let src = format!(
        "#ruledef\n{{\n    lag {{p}} => {{ assert(p < 0x100), 0x10 @ p`8 }}\n    lag {{p}} => 0x20 @ p`16\n}}\nlag far\nafter_first:\n#d8 {} - after_first\nlag near\nnear:\n#res 249\nfar:\n",
        ktext
    );
    ctx.nontrivial = true;
    ctx.set_hash_str(&src);
    ctx.label("moving-value:data-element-four-passes");
    ctx.render(|| json!({"source": src, "final_value": v.to_string()}));
    let inside = in_range(Kind::D, n, &v);
    ctx.evals += 1;
    let out = sut::assemble_src(&src, &Opts::default());
    let fail = |c: &str, d: String, ctx: &mut CaseCtx| {
        ctx.want_render = true;
        ctx.render(|| json!({"source": src, "final_value": v.to_string()}));
        Verdict::fail(format!("dN|moving-value|{}", c), d)
    };
    match (&out, inside) {
        (AsmOutcome::Panic(p), _) => fail(&format!("panic {}", sut::panic_site(p)), p.clone(), ctx),
        (AsmOutcome::Ok(ok), true) => {
            // lag far (short, 16 bits) + the element + lag near (16 bits)
            if ok.bits.len() < 40 {
                return fail("output-length", format!("{} bits", ok.bits.len()), ctx);
            }
            let want = mod_pow2(&v, n);
            let mut got = BigInt::zero();
            for b in 0..n {
                got = got * 2 + BigInt::from(ok.bits[16 + b] as u8);
            }
            if got != want {
                return fail("wrong-bits", format!("`#d8 {} - after_first` with after_first = 2 is {}: emitted {:#x}, expected {:#x}", ktext, v, got, want), ctx);
            }
            Verdict::Pass
        }
        (AsmOutcome::Ok(ok), false) => fail("out-of-range-accepted", format!("`#d8 {} - after_first` with after_first = 2 is {}, outside 8 bits: accepted, output {}", ktext, v, sut::bits_hex(&ok.bits[..ok.bits.len().min(48)])), ctx),
        (_, true) => fail("in-range-rejected", format!("`#d8 {} - after_first` with after_first = 2 is {}, inside 8 bits: {}", ktext, v, out.brief()), ctx),
        (_, false) => Verdict::Pass,
    }
}

/// v4: a value that has ALREADY been accepted by one typed parameter and is handed on, as a value, to a second one:
/// through a block-local variable of the outer rule (`y = x` + `asm { emit {y} }`), through a user function
/// (`pass(x)` with `#fn pass(q) => asm { emit {q} }`), through a sub-rule (`{x: sub}` with `{v: s8} => v` feeding an
/// outer production `emit`-ed via asm), or textually (`asm { emit {x} }`). The second parameter must judge the VALUE:
/// accepted iff inside both ranges, emitted as the inner type's two's-complement image.
fn run_handed_down(t: &mut Tape, ctx: &mut CaseCtx) -> Verdict {
    let k1 = *t.pick(&[Kind::S, Kind::I, Kind::U]);
    let n1 = *t.pick(&[4usize, 8, 12, 16]);
    let k2 = *t.pick(&[Kind::U, Kind::S, Kind::I]);
    let n2 = *t.pick(&[4usize, 8, 12, 16, 20]);
    // values at the boundaries of either type
    let mut bs = boundaries(n1);
    bs.extend(boundaries(n2));
    bs.push(BigInt::from(-1));
    bs.push(BigInt::from(-2));
    let v = t.pick(&bs).clone() + BigInt::from(t.range(-1, 1));
    let vtext = if v.is_negative() { if t.flip() { format!("-{}", -&v) } else { format!("(0 - {})", -&v) } } else if t.flip() { format!("{:#x}", v) } else { v.to_string() };
    let way = t.draw(4);
    let (outer, extra, wayname) = match way {
        0 => (format!("    neg {{x: {}{}}} =>\n    {{\n        y = x\n        asm {{ emit {{y}} }}\n    }}", k1.letter(), n1), String::new(), "block-local"),
        1 => (format!("    neg {{x: {}{}}} => pass(x)", k1.letter(), n1), "#fn pass(q) => asm { emit {q} }\n".to_string(), "function-argument"),
        2 => (format!("    neg {{x: {}{}}} => asm {{ emit {{x}} }}", k1.letter(), n1), String::new(), "textual"),
        _ => (
            format!("    neg {{x: {}{}}} =>\n    {{\n        y = x\n        z = y\n        asm {{ emit2 {{z}}, {{y}} }}\n    }}\n    emit2 {{a: {}{}}}, {{b}} => a", k1.letter(), n1, k2.letter(), n2),
            String::new(),
            "block-local-twice",
        ),
    };
    let src = format!("#ruledef\n{{\n    emit {{v: {}{}}} => v\n{}\n}}\n{}#d8 0x5a\nneg {}\n#d8 0xa5\n", k2.letter(), n2, outer, extra, vtext);
    ctx.nontrivial = true;
    ctx.set_hash_str(&src);
    ctx.label(format!("handed-down:{}", wayname));
    ctx.render(|| json!({"source": src, "value": v.to_string()}));
    let inside = in_range(k1, n1, &v) && in_range(k2, n2, &v);
    ctx.label(if inside { "handed-down:in-both-ranges" } else if in_range(k1, n1, &v) { "handed-down:outer-accepts-inner-must-reject" } else { "handed-down:outer-rejects" });
    ctx.evals += 1;
    let out = sut::assemble_src(&src, &Opts::default());
    let fail = |c: &str, d: String, ctx: &mut CaseCtx| {
        ctx.want_render = true;
        ctx.render(|| json!({"source": src, "value": v.to_string()}));
        Verdict::fail(format!("{}|handed-down-to-{}|{}", pred(k1, n1), pred(k2, n2), c), d)
    };
    match (&out, inside) {
        (AsmOutcome::Panic(p), _) => fail(&format!("panic {}", sut::panic_site(p)), p.clone(), ctx),
        (AsmOutcome::Ok(ok), true) => {
            if ok.bits.len() != 16 + n2 {
                return fail("output-length", format!("{} bits, expected {}", ok.bits.len(), 16 + n2), ctx);
            }
            let want = mod_pow2(&v, n2);
            let mut got = BigInt::zero();
            for b in 0..n2 {
                got = got * 2 + BigInt::from(ok.bits[8 + b] as u8);
            }
            if got != want {
                return fail("wrong-bits", format!("`neg {}` ({}): emitted {:#x}, expected {:#x}", vtext, wayname, got, want), ctx);
            }
            Verdict::Pass
        }
        (AsmOutcome::Ok(ok), false) => fail(
            "out-of-range-accepted",
            format!("`neg {}` ({}): {} is outside {}{} or {}{}: accepted, output {}", vtext, wayname, v, k1.letter(), n1, k2.letter(), n2, sut::bits_hex(&ok.bits)),
            ctx,
        ),
        (_, true) => fail("in-range-rejected", format!("`neg {}` ({}): {} is inside {}{} and {}{}: {}", vtext, wayname, v, k1.letter(), n1, k2.letter(), n2, out.brief()), ctx),
        (_, false) => Verdict::Pass,
    }
}

fn run_moving_value(t: &mut Tape, ctx: &mut CaseCtx) -> Verdict {
    if crate::engine::gen_version() >= 4 && t.chance(1, 3) {
        return run_handed_down(t, ctx);
    }
    if crate::engine::gen_version() >= 3 && t.chance(1, 3) {
        return run_moving_data(t, ctx);
    }
    let kind = *t.pick(&[Kind::U, Kind::S, Kind::I]);
    let n = *t.pick(&[8usize, 16, 24]);
    let bs = boundaries(n);
    let v = t.pick(&bs).clone() + BigInt::from(t.range(-2, 2));
    let k = &v - BigInt::from(2);
    let ktext = if k.is_negative() { format!("0 - {}", -&k) } else { k.to_string() };
    let via_fn = t.chance(2, 3);
    let operand = if via_fn { format!("after({})", ktext) } else { format!("({}) + here", ktext) };
    let src = format!(
        "#ruledef\n{{\n    t {{x: {}{}}} => x\n    lag {{p}} => {{ assert(p < 0x100), 0x10 @ p`8 }}\n    lag {{p}} => 0x20 @ p`16\n}}\n#fn after(n) => n + here\nlag end\nhere:\nt {}\nend:\n",
        kind.letter(),
        n,
        operand
    );
    ctx.nontrivial = true;
    ctx.set_hash_str(&src);
    ctx.label(if via_fn { "moving-value:function-of-a-label" } else { "moving-value:label-arithmetic" });
    ctx.render(|| json!({"source": src, "final_value": v.to_string()}));
    let inside = in_range(kind, n, &v);
    ctx.evals += 1;
    let out = sut::assemble_src(&src, &Opts::default());
    let fail = |c: &str, d: String, ctx: &mut CaseCtx| {
        ctx.want_render = true;
        ctx.render(|| json!({"source": src, "final_value": v.to_string()}));
        Verdict::fail(format!("{}|moving-value|{}", pred(kind, n), c), d)
    };
    match (&out, inside) {
        (AsmOutcome::Panic(p), _) => fail(&format!("panic {}", sut::panic_site(p)), p.clone(), ctx),
        (AsmOutcome::Ok(ok), true) => {
            if ok.bits.len() != 16 + n {
                return fail("output-length", format!("{} bits, expected {}", ok.bits.len(), 16 + n), ctx);
            }
            let want = mod_pow2(&v, n);
            let mut got = BigInt::zero();
            for b in 0..n {
                got = got * 2 + BigInt::from(ok.bits[16 + b] as u8);
            }
            if got != want {
                return fail("wrong-bits", format!("`t {}` with here = 2 is {}: emitted {:#x}, expected {:#x}", operand, v, got, want), ctx);
            }
            Verdict::Pass
        }
        (AsmOutcome::Ok(ok), false) => fail("out-of-range-accepted", format!("`t {}` with here = 2 is {}, outside {}{}: accepted, output {}", operand, v, kind.letter(), n, sut::bits_hex(&ok.bits)), ctx),
        (_, true) => fail("in-range-rejected", format!("`t {}` with here = 2 is {}, inside {}{}: {}", operand, v, kind.letter(), n, out.brief()), ctx),
        (_, false) => Verdict::Pass,
    }
}

impl Property for C04 {
    fn id(&self) -> &'static str {
        "C04"
    }
    fn rule(&self) -> String {
        "ENUMERATED: type in {uN, sN, iN, #dN} x N in 0..=16 x every v in [-2^N-4, 2^N+4] (quick: complete for N <= 13, the +-4 neighbourhood of every boundary \
         -2^N, -2^(N-1), 0, 2^(N-1), 2^N for N = 14..16; thorough: complete for N <= 16), written in rotating forms (decimal, 0x, 0b, (v+1)-1, constant reference, hex \
         with leading zeros; all of these plus the bitwise NOT of a sized literal, the short slice of a negative operand `(0 - K)`W` and the bitwise operators between one sized and one unsized operand - `0x0 | v`, `v ^ 0b0`, `0xff..f & v`, `v | 0x00` - within +-4 of a boundary); plus, per type and width, values far outside every range whose low machine word lies inside it (2^64 + v, 2^65 + v, 3*2^64 + v, 2^128 + v and their negatives at the in-range landmarks v); plus #dN with sized literals of every width 1..N+9. Oracle = the closed-form ranges of the \
         statement: all in-range values of a chunk are assembled in one program whose output must be the concatenation of the N-bit two's-complement images; each \
         out-of-range value is assembled between two in-range neighbours and must give an error located on its own line and no output. RANDOM part: N in 17..=256, values at each boundary +-0..4; one case in four is a MOVING value: `t after(K)` / `t (K) + here` with `#fn after(n) => n + here`, where the label `here` stands behind an instruction of a short/long family and moves by one after the first pass - the final value decides acceptance and the emitted bits. Every case is non-trivial (it is the boundary table itself); distinct = distinct (type, N, chunk). (v4) HANDED-DOWN values, a third of the moving cases: a value accepted by an outer typed parameter (s/i/u, 4-16 bits) reaches a second typed parameter (u/s/i, 4-20 bits) through a block-local (`y = x` / `asm { emit {y} }`), a function argument, two locals, or textually; accepted iff inside BOTH ranges, emitted as the inner type's image."
            .to_string()
    }
    fn assumptions(&self) -> Vec<String> {
        vec!["`x` as the whole production of `t {x: uN} => x` emits the N low-order bits of the argument".into()]
    }
    fn level(&self) -> &'static str {
        "exploration"
    }
    fn exhaustive(&self, _tier: Tier) -> bool {
        true
    }
    fn enumerated(&self, _tier: Tier) -> u64 {
        4 * WIDTHS * CHUNKS_PER_WIDTH + WIDTHS
    }
    fn run_enumerated(&self, index: u64, ctx: &mut CaseCtx) -> Verdict {
        let Some(c) = chunk_at(ctx.tier, index) else {
            ctx.skipped = true;
            return Verdict::Pass;
        };
        let c = &c;
        ctx.nontrivial = true;
        ctx.hash = crate::engine::mix(index, 0xc04);
        ctx.label(format!("N={}", c.n));
        ctx.render(|| {
            json!({"kind": c.kind.letter(), "N": c.n, "sized_literals": c.sized_literals,
            "values": format!("{} .. {} ({} values)", c.values.first().map(|v| v.to_string()).unwrap_or_default(), c.values.last().map(|v| v.to_string()).unwrap_or_default(), c.values.len())})
        });
        if c.sized_literals {
            run_sized_literals(c.n, ctx)
        } else {
            run_values(c.kind, c.n, &c.values, true, ctx)
        }
    }
    fn random_cases(&self, tier: Tier) -> u64 {
        tier.pick(200_000, 1_000_000)
    }
    fn tape_len(&self, _t: Tier) -> usize {
        32
    }
    fn run(&self, t: &mut Tape, ctx: &mut CaseCtx) -> Verdict {
        if crate::engine::gen_version() >= 2 && t.chance(1, 4) {
            return run_moving_value(t, ctx);
        }
        let kind = *t.pick(&[Kind::U, Kind::S, Kind::I, Kind::D]);
        let n = t.urange(17, 256);
        let bs = boundaries(n);
        let mut values = Vec::new();
        let k = t.urange(1, 6);
        for _ in 0..k {
            let b = t.pick(&bs).clone();
            let d = t.range(-4, 4);
            values.push(b + BigInt::from(d));
        }
        ctx.nontrivial = true;
        ctx.hash = crate::engine::fnv(format!("{:?}{}{:?}", kind, n, values).as_bytes());
        ctx.label("wide");
        ctx.render(|| json!({"kind": kind.letter(), "N": n, "values": values.iter().map(|v| v.to_string()).collect::<Vec<_>>()}));
        run_values(kind, n, &values, false, ctx)
    }
}
