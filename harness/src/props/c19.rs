//! C19 — resource limits are diagnosed, not crashed into.

use crate::engine::realbin::{self, Limits};
use crate::engine::{CaseCtx, Property, Tier, Verdict};
use serde_json::json;

pub struct C19;

pub const DEPTHS: &[u64] = &[1, 10, 49, 50, 51, 52, 100, 1_000, 10_000, 100_000];
pub const POWERS: &[u32] = &[7, 8, 15, 16, 31, 32, 33, 62, 63, 64, 65];

#[derive(Clone, Copy)]
pub struct Family {
    pub name: &'static str,
    pub nesting: bool,
    pub gen: fn(u64, &str) -> String, // (depth, or unused) / (magnitude as text)
}

fn rep(s: &str, n: u64) -> String {
    s.repeat(n as usize)
}

pub const FAMILIES: &[Family] = &[
    Family { name: "nest-paren", nesting: true, gen: |n, _| format!("x = {}1{}\n#d8 x\n", rep("(", n), rep(")", n)) },
    Family { name: "nest-block", nesting: true, gen: |n, _| format!("x = {}1{}\n#d8 x\n", rep("{", n), rep("}", n)) },
    Family { name: "nest-unary-minus", nesting: true, gen: |n, _| format!("x = {}1\n#d8 x`8\n", rep("-", n)) },
    Family { name: "nest-unary-not", nesting: true, gen: |n, _| format!("x = {}true ? 1 : 0\n#d8 x\n", rep("!", n)) },
    Family { name: "nest-ternary-else", nesting: true, gen: |n, _| format!("x = {}2\n#d8 x\n", rep("false ? 1 : ", n)) },
    Family { name: "nest-ternary-then", nesting: true, gen: |n, _| format!("x = {}2{}\n#d8 x\n", rep("true ? ", n), rep(" : 0", n)) },
    Family { name: "nest-ternary-cond", nesting: true, gen: |n, _| format!("x = {}true{}\n#d8 x ? 1 : 0\n", rep("(", n), rep(" ? true : false)", n)) },
    Family { name: "nest-call", nesting: true, gen: |n, _| format!("x = {}0x1234{}\n#d16 x\n", rep("le(", n), rep(")", n)) },
    Family { name: "nest-slice", nesting: true, gen: |n, _| format!("x = 0xff{}\n#d8 x\n", rep("[7:0]", 1).repeat(1) + &rep("", n)) },
    Family { name: "chain-add", nesting: true, gen: |n, _| format!("x = 0{}\n#d32 x\n", rep(" + 1", n)) },
    Family { name: "chain-concat", nesting: true, gen: |n, _| format!("x = 0b1{}\n#d8 sizeof(x) == {} ? 1 : 0\n", rep(" @ 0b1", n), n + 1) },
    Family { name: "chain-lazy-or", nesting: true, gen: |n, _| format!("x = false{}\n#d8 x ? 1 : 0\n", rep(" || false", n)) },
    Family { name: "chain-compare", nesting: true, gen: |n, _| format!("x = 1 == 1{}\n#d8 x ? 1 : 0\n", rep(" == true", n)) },
    Family { name: "nest-if", nesting: true, gen: |n, _| format!("{}#d8 1\n{}", rep("#if true\n{\n", n), rep("}\n", n)) },
    Family { name: "chain-elif", nesting: true, gen: |n, _| format!("#if false\n{{\n}}\n{}#else\n{{\n#d8 1\n}}\n", rep("#elif false\n{\n}\n", n)) },
    Family { name: "nest-asm-in-rule", nesting: true, gen: |n, _| format!("#ruledef\n{{\n    a => {}0x11{}\n}}\na\n", rep("asm { a2 } @ ", 0) + &rep("(", n), rep(")", n)) },
    Family { name: "long-data-list", nesting: true, gen: |n, _| format!("#d8 1{}\n", rep(", 1", n)) },
    Family { name: "many-labels", nesting: true, gen: |n, _| (0..n.min(20_000)).map(|i| format!("l{}:\n", i)).collect::<String>() + "#d8 1\n" },
    Family { name: "digits-decimal", nesting: true, gen: |n, _| format!("x = 1{}\n#d8 x`8\n", rep("0", n)) },
    Family { name: "digits-hex", nesting: true, gen: |n, _| format!("x = 0x1{}\n#d8 x`8\n", rep("0", n)) },
    // magnitudes
    Family { name: "shl-amount", nesting: false, gen: |_, k| format!("x = 1 << {}\n#d8 x`8\n", k) },
    Family { name: "shr-amount", nesting: false, gen: |_, k| format!("x = 1 >> {}\n#d8 x`8\n", k) },
    Family { name: "slice-hi", nesting: false, gen: |_, k| format!("x = 5[{}:0]\n#d8 x`8\n", k) },
    Family { name: "slice-hi-lo", nesting: false, gen: |_, k| format!("x = 5[{}:{}]\n#d8 x`8\n", k, k) },
    Family { name: "slice-neg-value", nesting: false, gen: |_, k| format!("x = (-5)[{}:0]\n#d8 x`8\n", k) },
    Family { name: "sliceshort-width", nesting: false, gen: |_, k| format!("x = 5`{}\n#d8 x`8\n", k) },
    Family { name: "data-width", nesting: false, gen: |_, k| format!("#d{} 1\n", k) },
    Family { name: "type-width", nesting: false, gen: |_, k| format!("#ruledef\n{{\n    t {{x: u{}}} => 0x1 @ x`4\n}}\nt 1\n", k) },
    Family { name: "res", nesting: false, gen: |_, k| format!("#res {}\n", k) },
    Family { name: "res-then-data", nesting: false, gen: |_, k| format!("#res {}\n#d8 1\n", k) },
    Family { name: "align", nesting: false, gen: |_, k| format!("#d8 1\n#align {}\n#d8 2\n", k) },
    Family { name: "addr", nesting: false, gen: |_, k| format!("#addr {}\n#d8 $`8\n", k) },
    Family { name: "bank-bits", nesting: false, gen: |_, k| format!("#bankdef a\n{{\n    bits = {}\n    outp = 0\n}}\n#d8 1\nl:\n", k) },
    Family { name: "bank-addr", nesting: false, gen: |_, k| format!("#bankdef a\n{{\n    addr = {}\n    outp = 0\n}}\n#d8 1\nl:\n#d8 $`8\n", k) },
    Family { name: "bank-size", nesting: false, gen: |_, k| format!("#bankdef a\n{{\n    size = {}\n    outp = 0\n}}\n#d8 1\n", k) },
    Family { name: "bank-size-bits", nesting: false, gen: |_, k| format!("#bankdef a\n{{\n    bits = {}\n    size = {}\n    outp = 0\n}}\n#d8 1\n", k, k) },
    Family { name: "bank-outp", nesting: false, gen: |_, k| format!("#bankdef a\n{{\n    outp = {}\n}}\n#d8 1\n", k) },
    Family { name: "bank-size-fill", nesting: false, gen: |_, k| format!("#bankdef a\n{{\n    size = {}\n    outp = 0\n    fill\n}}\n#d8 1\n", k) },
    Family { name: "bank-labelalign", nesting: false, gen: |_, k| format!("#bankdef a\n{{\n    labelalign = {}\n    outp = 0\n}}\n#d8 1\nl:\n#d8 2\n", k) },
    Family { name: "incbin-start", nesting: false, gen: |_, k| format!("#d incbin(\"data.bin\", {})\n", k) },
    Family { name: "incbin-size", nesting: false, gen: |_, k| format!("#d incbin(\"data.bin\", 1, {})\n", k) },
    Family { name: "inchexstr-size", nesting: false, gen: |_, k| format!("#d inchexstr(\"data.bin\", 1, {})\n", k) },
    Family { name: "mul-growth", nesting: false, gen: |_, k| format!("a = 1 << ({} & 0xfffff)\nb = a * a * a * a\n#d8 (b * b * b * b)`8\n", k) },
    Family { name: "iters", nesting: false, gen: |_, _| "#d8 1\n".to_string() },
    // added after the libFuzzer phase of C03 met `{a: u4444444444444449} => a @ b` (families are appended: indices stay stable)
    Family { name: "type-width-concat", nesting: false, gen: |_, k| format!("#ruledef\n{{\n    t {{x: u{}}} => x @ 0x1\n}}\nt 1\n", k) },
    Family { name: "type-width-whole", nesting: false, gen: |_, k| format!("#ruledef\n{{\n    t {{x: s{}}} => x\n}}\nt 1\n", k) },
    Family { name: "type-width-signed-concat", nesting: false, gen: |_, k| format!("#ruledef\n{{\n    t {{x: i{}}} => 0x1 @ x @ 0x1\n}}\nt -1\n", k) },
    Family { name: "concat-slices", nesting: false, gen: |_, k| format!("x = (1`{}) @ (1`{}) @ (1`{})\n#d8 x`8\n", k, k, k) },
    Family { name: "data-concat-slices", nesting: false, gen: |_, k| format!("#d (1`{}) @ (1`{})\n", k, k) },
    Family { name: "le-width", nesting: false, gen: |_, k| format!("x = le(1`({} & ~7))\n#d8 x`8\n", k) },
    // added after the libFuzzer phase of C03 met the left-recursive `#ruledef mode { {m: mode} => m }`
    Family { name: "subrule-cycle", nesting: true, gen: |n, _| {
        let mut s = String::new();
        for k in 0..n {
            s.push_str(&format!("#subruledef rr{}\n{{\n    {{m: rr{}}} => m\n}}\n", k, (k + 1) % n));
        }
        s.push_str("#ruledef\n{\n    ld {x: rr0} => x\n}\nld 5\n");
        s
    } },
    Family { name: "subrule-chain", nesting: true, gen: |n, _| {
        let mut s = String::new();
        for k in 0..n {
            s.push_str(&format!("#subruledef rr{}\n{{\n    {{m: rr{}}} => m\n}}\n", k, k + 1));
        }
        s.push_str(&format!("#subruledef rr{}\n{{\n    {{v: u8}} => v\n}}\n#ruledef\n{{\n    ld {{x: rr0}} => x\n}}\nld 5\n", n));
        s
    } },
    Family { name: "subrule-self-in-ruledef", nesting: true, gen: |n, _| format!("#ruledef mode\n{{\n    {{m: mode}} => m\n    j{{m: mode}} => 0x1 @ m\n}}\n{}jeq = 0xff\n", rep("nop\n", n.min(3))) },
    // added after round-4 seed C19-4: a bank with a non-zero output offset and no size, position near the top of the word
    Family { name: "addr-in-bank-with-outp", nesting: false, gen: |_, k| format!("#bankdef a\n{{\n    addr = 0\n    outp = 16\n}}\n#addr {}\n#d8 0xaa\n", k) },
    Family { name: "addr-then-instr-in-bank-with-outp", nesting: false, gen: |_, k| format!("#ruledef\n{{\n    nop => 0x00\n}}\n#bankdef a\n{{\n    outp = 8 * 0x10\n}}\n#addr {}\nnop\nl:\n", k) },
    Family { name: "res-in-bank-with-outp", nesting: false, gen: |_, k| format!("#bankdef a\n{{\n    outp = 24\n}}\n#res {}\n#d8 1\n", k) },
    Family { name: "type-width-subrule", nesting: false, gen: |_, k| format!("#subruledef r\n{{\n    {{v: u{}}} => v\n}}\n#ruledef\n{{\n    t {{a: r}} => a @ a\n}}\nt 1\n", k) },
    // added after round-5 seed C19-5: recursion cycles of length 1..4 (1 + depth % 4) through asm blocks and functions,
    // with and without parameters (a context without locals is the one a depth counter is most easily lost in)
    Family { name: "asm-cycle-noparam", nesting: true, gen: |n, _| {
        let l = 1 + n % 4;
        let mut s = "#ruledef\n{\n".to_string();
        for k in 0..l {
            s.push_str(&format!("    p{} => asm {{ p{} }}\n", k, (k + 1) % l));
        }
        s + "}\np0\n"
    } },
    Family { name: "asm-cycle-param", nesting: true, gen: |n, _| {
        let l = 1 + n % 4;
        let mut s = "#ruledef\n{\n".to_string();
        for k in 0..l {
            s.push_str(&format!("    p{} {{x}} => asm {{ p{} {{x}} }}\n", k, (k + 1) % l));
        }
        s + "}\np0 1\n"
    } },
    Family { name: "fn-cycle-noparam", nesting: true, gen: |n, _| {
        let l = 1 + n % 4;
        let mut s = String::new();
        for k in 0..l {
            s.push_str(&format!("#fn f{}() => f{}() + 1\n", k, (k + 1) % l));
        }
        s + "#d8 f0()\n"
    } },
    Family { name: "fn-cycle-param", nesting: true, gen: |n, _| {
        let l = 1 + n % 4;
        let mut s = String::new();
        for k in 0..l {
            s.push_str(&format!("#fn f{}(a) => f{}(a + 1)\n", k, (k + 1) % l));
        }
        s + "#d8 f0(0)\n"
    } },
    Family { name: "asm-fn-cycle-noparam", nesting: true, gen: |n, _| {
        let l = 1 + n % 4;
        let mut s = "#ruledef\n{\n    ping => asm { pong }\n    pong => relay0()\n}\n".to_string();
        for k in 0..l {
            if k + 1 < l {
                s.push_str(&format!("#fn relay{}() => relay{}()\n", k, k + 1));
            } else {
                s.push_str(&format!("#fn relay{}() => asm {{ ping }}\n", k));
            }
        }
        s + "ping\n"
    } },
    Family { name: "asm-cycle-in-data", nesting: true, gen: |n, _| {
        let l = 1 + n % 4;
        let mut s = "#ruledef\n{\n".to_string();
        for k in 0..l {
            s.push_str(&format!("    p{} => 0x1 @ asm {{ p{} }}\n", k, (k + 1) % l));
        }
        s + "}\n#d asm { p0 }\n"
    } },
    // appended after a round-5 agent's note: a reservation in a bank whose address unit is huge (count x unit overflows)
    Family { name: "bank-bits-then-res", nesting: false, gen: |_, k| format!("#bankdef a\n{{\n    bits = {}\n    outp = 0\n}}\n#res 4\nx:\n", k) },
    Family { name: "bank-bits-then-align", nesting: false, gen: |_, k| format!("#bankdef a\n{{\n    bits = {}\n    outp = 0\n}}\n#align 3\nx:\n#addr 5\ny:\n", k) },
    // appended after a round-6 agent's notes: overflow / unbounded work in places the other families do not pass through
    Family { name: "bank-outp-second-bank", nesting: false, gen: |_, k| format!("#bankdef a\n{{\n    addr = 0\n    outp = 0\n}}\n#bankdef b\n{{\n    addr = 0\n    size = 2\n    outp = {}\n}}\n#d8 1\n", k) },
    Family { name: "addr-then-asm-block", nesting: false, gen: |_, k| format!("#ruledef\n{{\n    nop => 0x00\n    two => asm\n    {{\n        nop\n        nop\n    }}\n}}\n#addr {}\ntwo\n", k) },
    Family { name: "type-width-le", nesting: false, gen: |_, k| format!("#ruledef\n{{\n    t {{x: u{}}} => le(x)\n}}\nt 1\n", k) },
    Family { name: "type-width-asm-block", nesting: false, gen: |_, k| format!("#ruledef\n{{\n    e {{v}} => v`8\n    t {{x: u{}}} => asm {{ e {{x}} }}\n}}\nt 1\n", k) },
    Family { name: "rule-many-params", nesting: true, gen: |n, _| {
        // appended after a round-7 agent's note: a rule with n comma-separated untyped parameters, used with n arguments
        let n = n.min(200);
        let pars: Vec<String> = (0..n).map(|k| format!("{{a{}}}", k)).collect();
        let args: Vec<String> = (0..n).map(|_| "1".to_string()).collect();
        format!("#ruledef\n{{\n    ldq {} => 0x00\n}}\nldq {}\n", pars.join(", "), args.join(", "))
    } },
    // appended after a round-8 agent's notes: work that multiplies with the depth of nested asm blocks
    Family { name: "asm-chain-forward-ref", nesting: true, gen: |n, _| {
        // a chain of n asm-block rules around one instruction that names a label declared behind it
        let n = n.min(24);
        let mut s = "#ruledef\n{\n    lz0 {x} => 0x00 @ x`8\n".to_string();
        for k in 1..=n {
            s.push_str(&format!("    lz{} {{x}} => asm {{ lz{} {{x}} }}\n", k, k - 1));
        }
        s + &format!("}}\nlz{} fwd\nfwd:\n", n)
    } },
    Family { name: "asm-recursion-growing-argument", nesting: true, gen: |n, _| {
        // a recursive asm-block rule whose argument text grows w-fold per level (w = 8 and 5 for the two smallest
        // depth slots, no growth for the others: the recursion limit must answer those)
        let w = match n { 1 => 8, 10 => 5, _ => 1 };
        let arg: Vec<&str> = (0..w).map(|_| "{x}").collect();
        format!("#ruledef\n{{\n    gz {{x}} => asm {{ gz ({}) }}\n}}\ngz 1\n", arg.join("+"))
    } },
    // a data directive whose value is an asm block that again holds a data directive ... (invalid from the second
    // level on - "invalid content for `asm` block" - but it must be SAID, at every depth; capped at 3000 levels: finding
    // the end of each block re-scans its content, and beyond that the quadratic work meets the CPU limit first)
    Family { name: "nest-asm-in-data", nesting: true, gen: |n, _| format!("#ruledef\n{{\n    nop => 0x00\n}}\n#d8 {}asm {{ nop }}{}\n", rep("asm { #d8 ", n.min(3_000)), rep(" }", n.min(3_000))) },
];

pub fn magnitudes() -> Vec<String> {
    let mut v = Vec::new();
    for k in POWERS {
        let p: num_bigint::BigInt = num_bigint::BigInt::from(1) << (*k as usize);
        let one = num_bigint::BigInt::from(1);
        v.push((&p - &one).to_string());
        v.push(p.to_string());
        v.push(format!("0x{}", (&p + &one).to_str_radix(16)));
    }
    v.push("800000000".to_string());
    v.push("6400000000".to_string());
    v.push("-1".to_string());
    v.push("0".to_string());
    // appended later (slots are stable): just below the supported size, where only a combination exceeds it
    v.push("400000000".to_string());
    v.push("799999999".to_string());
    // appended for byte-addressed positions within a few bytes of the top of the machine word (2^61 bytes = 2^64 bits)
    for d in [3u64, 2, 1, 0] {
        v.push(((1u64 << 61) - d).to_string());
    }
    v
}

pub const STRIDE: u64 = 64;

/// the index space is fixed (stable replay indices): index = family * 64 + magnitude slot
pub fn total_cases() -> u64 {
    FAMILIES.len() as u64 * STRIDE
}

pub fn case_at(index: u64) -> Option<(Family, String, String)> {
    let idx = index % total_cases();
    let f = FAMILIES.get((idx / STRIDE) as usize)?;
    let slot = (idx % STRIDE) as usize;
    if f.nesting {
        let d = *DEPTHS.get(slot)?;
        Some((*f, d.to_string(), (f.gen)(d, "")))
    } else {
        let mags = magnitudes();
        let m = mags.get(slot)?;
        Some((*f, m.clone(), (f.gen)(0, m)))
    }
}

impl Property for C19 {
    fn id(&self) -> &'static str {
        "C19"
    }
    fn level(&self) -> &'static str {
        "fault_enumeration"
    }
    fn rule(&self) -> String {
        "ENUMERATED directed families, each a program text parameterised by a magnitude: 33 nesting/length/cycle families (data directives nested through asm blocks, parentheses, blocks, unary chains, ternaries through condition / then / else, calls, operator chains +, @, ||, ==, #if nesting, #elif chains, data lists, label counts, literal length in decimal and hex, sub-rule cycles and chains, recursion cycles of length 1..4 through asm blocks and functions with and without parameters, a rule with n expression parameters, a chain of n asm-block rules around a forward reference, a recursive asm-block rule whose argument text grows per level) x depths {1,10,49,50,51,52,100,10^3,10^4,10^5}; 40 numeric families (shift amounts, slice bounds on positive and negative values, short-slice width, #dN, uN/sN/iN suffix used sliced, whole, concatenated and through a sub-rule, concatenation of slices, le() width, \
         #res, #res followed by data, #align, #addr, every #bankdef field incl. bits x size, fill and labelalign, incbin/inchexstr start and size, product growth, --iters, #addr / #res in banks with a non-zero output offset, #res and #align in a bank with a huge address unit, a second bank with a huge output offset, an asm block behind a huge #addr, le() and an asm block over a parameter of huge declared width) x magnitudes \
         {2^k-1, 2^k, 2^k+1 : k in 7,8,15,16,31,32,33,62,63,64,65} + 8*10^8, 6.4*10^9, -1, 0, 4*10^8, 8*10^8-1. Each case is one run of the REAL \
         binary (built with overflow checks; thorough: also the stock release build) in its own process under RLIMIT_CPU 10 s (thorough 30 s), RLIMIT_AS 4 GiB, the default 8 MiB stack. Oracle: the \
         run ends by itself with exit 0, or exit 1 with an `error:` diagnostic; death by signal, panic exit status, CPU limit, or allocation abort is a violation (for the two magnitudes inside the \
         supported range, 4*10^8 and 8*10^8-1, only the time budget is waived: work proportional to a supported size is not a hang). The CPU limit, the hard kill behind it, a failed allocation and the wall clock are ONE kind of death (`resource-exhausted`: which of them a runaway process meets first depends on the load of the machine). Non-trivial = the magnitude is \
         at or beyond the documented limit of its construct (depth > 50; value >= 2^31); distinct by (family, magnitude)."
            .to_string()
    }
    fn assumptions(&self) -> Vec<String> {
        vec![
            "magnitudes between 2^17 and 2^30 for bit-by-bit constructs (slices, data widths) are legitimately slow and are not in the list".into(),
            "directed families only: nothing is claimed about constructs and magnitudes that are not listed".into(),
        ]
    }
    fn setup(&self, tier: Tier) -> Result<(), String> {
        realbin::build(false)?;
        if tier == Tier::Thorough {
            realbin::build(true)?;
        }
        Ok(())
    }
    fn exhaustive(&self, _tier: Tier) -> bool {
        true
    }
    fn enumerated(&self, tier: Tier) -> u64 {
        total_cases() * tier.pick(1, 2)
    }
    fn random_cases(&self, _tier: Tier) -> u64 {
        0
    }
    fn run(&self, _t: &mut crate::engine::Tape, _ctx: &mut CaseCtx) -> Verdict {
        Verdict::Pass
    }
    fn workers(&self, _tier: Tier) -> usize {
        crate::ncpu().min(8) // each case may use up to 4 GiB
    }
    fn run_enumerated(&self, index: u64, ctx: &mut CaseCtx) -> Verdict {
        let plain_release = index >= total_cases();
        let Some((fam, mag, text)) = case_at(index) else {
            ctx.skipped = true;
            return Verdict::Pass;
        };
        ctx.hash = crate::engine::mix(index, 0xc19);
        ctx.label(format!("family:{}", fam.name));
        let beyond = if fam.nesting { mag.parse::<u64>().map(|d| d > 50).unwrap_or(false) } else { mag.len() >= 10 || mag.starts_with("0x") && mag.len() >= 10 };
        ctx.nontrivial = beyond;
        let shown: String = if text.len() > 300 { format!("{} ... ({} bytes)", &text[..200], text.len()) } else { text.clone() };
        ctx.render(|| json!({"family": fam.name, "magnitude": mag, "program": shown, "binary": if plain_release { "release" } else { "release with overflow checks" }}));
        let dir = realbin::scratch("c19");
        std::fs::write(dir.join("main.asm"), &text).unwrap();
        std::fs::write(dir.join("data.bin"), b"0123456789abcdef").unwrap();
        let mut args: Vec<String> = vec!["-q".into(), "main.asm".into(), "-f".into(), "binary".into(), "-o".into(), "out.bin".into(), "--color=off".into()];
        if fam.name == "iters" {
            args.push(format!("--iters={}", mag));
        }
        let cpu = if ctx.tier == Tier::Thorough { 30 } else { 10 };
        let r = realbin::run(&realbin::bin_path(plain_release), &dir, &args, &Limits { cpu_secs: cpu, mem_bytes: 4 << 30, wall_secs: cpu * 4 + 20 });
        let _ = std::fs::remove_dir_all(&dir);
        ctx.evals += 1;
        let stderr = String::from_utf8_lossy(&r.stderr).to_string();
        let outcome = if r.timed_out {
            Some("wall-clock-timeout".to_string())
        } else if let Some(sig) = r.signal {
            Some(match sig {
                24 => "cpu-limit (SIGXCPU)".to_string(),
                6 => {
                    if stderr.contains("overflowed its stack") {
                        "stack-overflow (SIGABRT)".to_string()
                    } else if stderr.contains("memory allocation") {
                        "allocation-abort (SIGABRT)".to_string()
                    } else {
                        "abort (SIGABRT)".to_string()
                    }
                }
                11 => "segfault (SIGSEGV)".to_string(),
                9 => "killed (SIGKILL)".to_string(),
                s => format!("signal {}", s),
            })
        } else {
            match r.code {
                Some(0) => None,
                Some(1) if stderr.contains("error:") => None,
                Some(101) => Some(format!("panic {}", stderr.lines().find(|l| l.contains("panicked at")).map(|l| crate::engine::sut::panic_site(&l.replace("thread 'main' panicked at ", "x @ ").replace(":\n", ""))).unwrap_or_default())),
                c => Some(format!("exit status {:?}", c)),
            }
        };
        // A magnitude inside the supported range (below BIGINT_MAX_BITS = 8e8) does not "ask for more than the
        // assembler supports": work proportional to it (12-32 s measured for 4e8..8e8 bits) is not a hang. Only the
        // time budget is waived there; every other kind of death is still judged.
        let in_range_large = !fam.nesting && mag.parse::<u64>().map(|m| (100_000_000..800_000_000).contains(&m)).unwrap_or(false);
        let outcome = match outcome {
            // (SIGKILL is the HARD CPU limit, one second behind the soft one: under load SIGXCPU can arrive late)
            Some(o) if in_range_large && (o.starts_with("cpu-limit") || o.starts_with("wall-clock") || o.starts_with("killed")) => {
                ctx.label("time-budget-waived:in-range-magnitude");
                None
            }
            o => o,
        };
        match outcome {
            None => Verdict::Pass,
            Some(o) => {
                ctx.want_render = true;
                ctx.render(|| json!({"family": fam.name, "magnitude": mag, "program": shown, "binary": if plain_release { "release" } else { "release with overflow checks" }}));
                // the signature names the family and the kind of death, not the magnitude: the probe file carries the magnitude
                // (which limit a runaway process meets first - CPU seconds, the hard kill behind them, the 4 GiB address
                // space, the wall clock - depends on the load of the machine: one kind, "resource-exhausted")
                let kind = o.split(' ').next().unwrap_or("").to_string();
                let kind = if ["cpu-limit", "killed", "allocation-abort", "wall-clock-timeout"].contains(&kind.as_str()) { "resource-exhausted".to_string() } else { kind };
                let bucket = if fam.nesting {
                    if mag.parse::<u64>().map(|d| d >= 10_000).unwrap_or(false) { "m>=10000" } else { "m<=1000" }
                } else if mag.len() >= 10 {
                    "m>=2^31"
                } else {
                    "m<2^31"
                };
                Verdict::fail(format!("family={}|{}|{}", fam.name, bucket, kind), format!("magnitude {}: {} -- stderr: {}", mag, o, stderr.chars().take(300).collect::<String>()))
            }
        }
    }
}
