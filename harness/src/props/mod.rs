use crate::engine::Property;

pub mod c03;
pub mod c04;
pub mod c05;

pub fn all() -> Vec<Box<dyn Property>> {
    vec![Box::new(c03::C03), Box::new(c04::C04), Box::new(c05::C05)]
}

pub fn by_id(id: &str) -> Option<Box<dyn Property>> {
    all().into_iter().find(|p| p.id() == id)
}
