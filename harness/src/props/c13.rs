//! C13 — diagnostics point at the fault.

use crate::engine::sut::{self, MemFs, Msg};
use crate::engine::{CaseCtx, Property, Tape, Tier, Verdict};
use crate::gen::expr::lit_of;
use crate::model::expr::*;
use crate::model::isa::*;
use crate::model::program::*;
use crate::model::refasm::{self, RefResult};
use crate::props::c12::render_tracked;
use serde_json::json;

pub struct C13;

/// 1-based line and character column of a byte offset, computed independently
pub fn line_col(text: &[u8], off: usize) -> Option<(usize, usize)> {
    if off > text.len() {
        return None;
    }
    let s = std::str::from_utf8(&text[..off]).ok()?; // also checks the character boundary
    let line = s.matches('\n').count() + 1;
    let col = s.rsplit('\n').next().unwrap_or("").chars().count() + 1;
    Some((line, col))
}

/// Part A: validity of every location in a message tree, and agreement of the printed text
pub fn check_messages(msgs: &[Msg], printed: &str, files: &dyn Fn(&str) -> Option<Vec<u8>>) -> Option<(String, String)> {
    let mut expected_arrows: Vec<String> = Vec::new();
    fn walk(m: &Msg, files: &dyn Fn(&str) -> Option<Vec<u8>>, out: &mut Vec<String>) -> Result<(), (String, String)> {
        if let Some(h) = m.handle {
            let Some(name) = &m.file else {
                return Err(("span-names-unknown-file".into(), format!("message `{}` carries file handle {} which the file server does not know", m.descr, h)));
            };
            match m.loc {
                None => out.push(format!(" --> {}", name)),
                Some((a, b)) => {
                    // the file server decodes invalid UTF-8 lossily; spans index the decoded text
                    let raw = files(name).unwrap_or_default();
                    let text = String::from_utf8_lossy(&raw).to_string().into_bytes();
                    if a > b || b > text.len() {
                        return Err(("span-out-of-range".into(), format!("message `{}`: range {}..{} in `{}` of {} bytes", m.descr, a, b, name, text.len())));
                    }
                    let (Some(lc), Some(_)) = (line_col(&text, a), line_col(&text, b)) else {
                        return Err(("span-not-on-char-boundary".into(), format!("message `{}`: range {}..{} in `{}` is not on character boundaries", m.descr, a, b, name)));
                    };
                    out.push(format!(" --> {}:{}:{}:", name, lc.0, lc.1));
                }
            }
        }
        for i in &m.inner {
            walk(i, files, out)?;
        }
        Ok(())
    }
    for m in msgs {
        if let Err(e) = walk(m, files, &mut expected_arrows) {
            return Some(e);
        }
    }
    let got: Vec<String> = printed.lines().filter(|l| l.trim_start().starts_with("--> ")).map(|l| format!(" {}", l.trim_start())).collect();
    if got != expected_arrows {
        let k = got.iter().zip(expected_arrows.iter()).position(|(a, b)| a != b).unwrap_or(got.len().min(expected_arrows.len()));
        return Some((
            "printed-location-wrong".into(),
            format!("location line {}: printed {:?}, computed from the byte range {:?}", k, got.get(k), expected_arrows.get(k)),
        ));
    }
    None
}

/// validity only (no printed text at hand): every location in the tree names a known file and a range inside it
/// on character boundaries
pub fn check_spans(msgs: &[Msg], files: &dyn Fn(&str) -> Option<Vec<u8>>) -> Option<(String, String)> {
    fn walk(m: &Msg, files: &dyn Fn(&str) -> Option<Vec<u8>>) -> Option<(String, String)> {
        if let Some(h) = m.handle {
            let Some(name) = &m.file else {
                return Some(("span-names-unknown-file".into(), format!("message `{}` carries file handle {} which the file server does not know", m.descr, h)));
            };
            if let Some((a, b)) = m.loc {
                let raw = files(name).unwrap_or_default();
                let text = String::from_utf8_lossy(&raw).to_string().into_bytes();
                if a > b || b > text.len() {
                    return Some(("span-out-of-range".into(), format!("message `{}`: range {}..{} in `{}` of {} bytes", m.descr, a, b, name, text.len())));
                }
                if line_col(&text, a).is_none() || line_col(&text, b).is_none() {
                    return Some(("span-not-on-char-boundary".into(), format!("message `{}`: range {}..{} in `{}` is not on character boundaries", m.descr, a, b, name)));
                }
            }
        }
        m.inner.iter().find_map(|i| walk(i, files))
    }
    msgs.iter().find_map(|m| walk(m, files))
}

fn huge() -> E {
    E::Lit { text: "0x1_0000_0000_0000_0000_0000".into(), v: pow2(80), size: Some(84) }
}

impl Property for C13 {
    fn id(&self) -> &'static str {
        "C13"
    }
    fn rule(&self) -> String {
        "PART A (validity, two thirds of the cases): the mutated-corpus / generated-program stream of C03 (token-level edits incl. 2/3/4-byte characters, NUL, CR, truncation inside a UTF-8 \
         sequence); for every failing run every message of the tree (through the report accessor hook) must name a file the server knows, with 0 <= start <= end <= length on character \
         boundaries, and the ` --> file:line:col:` lines of the printed diagnostics must equal, one by one, the 1-based line and character column computed independently from the byte offset. \
         PART B (single fault): a generated valid program (size-static instruction set, banks, nested labels) with non-ASCII comment lines and trailing comments and (one in three) a chunk \
         moved to an #include'd file; one fault is injected at an item position drawn from the tape - unknown mnemonic, undefined symbol operand, operand beyond every typed range, duplicate \
         label, malformed directive (`#d8 ,`, `#align`, `#nosuchdirective 1`, a misspelled field behind valid ones in a `#bankdef` block, a directive whose missing token is followed by a block comment that runs over a line break), a built-in function rejecting an argument written on the NEXT line of the call, a faulty `{...}` substitution on one line of a multi-line asm block, an asm-block rule at the end of the file called with an operand longer than its placeholder and out of range for the inner instruction - the reference assembler must reject exactly that item, the FIRST top-level error (for the three nested kinds: the innermost message, which names the cause) must be located in the right file on the faulty line, and every location of the whole message tree must be valid as in part A. Non-trivial = (A) a message with a location in a file containing a multi-byte character before it, (B) a multi-byte character precedes the fault in \
         the same file or the fault is in the included file; distinct by hash of the files. (v4) two more single-fault kinds: the SAME instruction text valid under a first global label (`.zqloc = 1`) and faulty under a second (undeclared there, or far too large) - the program with a small `.zqloc` in both scopes must be valid by the rules; and for operand faults every message of the first error that NAMES the cause (`unknown symbol`, `argument out of range for type`) must lie on the faulty line. A quarter of the asm-block-argument cases read a position behind the faulty block from an earlier line (the listed finding an-earlier-line-reports-first)."
            .to_string()
    }
    fn tape_len(&self, _t: Tier) -> usize {
        640
    }
    fn fuzz_runs(&self, _tier: Tier) -> u64 {
        40_000
    }
    fn random_cases(&self, tier: Tier) -> u64 {
        tier.pick(600_000, 3_000_000)
    }
    fn run(&self, t: &mut Tape, ctx: &mut CaseCtx) -> Verdict {
        if t.chance(2, 3) {
            // ---------------- part A
            let case = crate::props::c03::build_case(t);
            let mut h = crate::engine::fnv(case.args.join(" ").as_bytes());
            for f in &case.files {
                h = crate::engine::mix(h, crate::engine::fnv(&f.1));
            }
            ctx.hash = h;
            ctx.label("part:A");
            let mut fs = MemFs::from_files(&case.files);
            fs.add_std();
            let r = sut::drive(&mut fs, &case.args);
            ctx.evals += 1;
            let render = || json!({"args": case.args, "files": case.files.iter().filter(|f| f.0.ends_with(".asm")).map(|f| json!({"name": f.0, "text": String::from_utf8_lossy(&f.1)})).collect::<Vec<_>>()});
            ctx.render(render);
            let Ok(o) = r else { return Verdict::Pass }; // panics are C03's business
            let Ok(printed) = &o.printed else { return Verdict::Pass };
            let lookup = |name: &str| -> Option<Vec<u8>> {
                case.files.iter().find(|f| f.0 == name).map(|f| f.1.clone()).or_else(|| sut::std_files().iter().find(|f| f.0 == name).map(|f| f.1.clone()))
            };
            let mut all = Vec::new();
            for m in &o.msgs {
                m.flatten(&mut all);
            }
            ctx.nontrivial = all.iter().any(|m| match (&m.file, m.loc) {
                (Some(f), Some((a, _))) => lookup(f).map(|b| b[..a.min(b.len())].iter().any(|x| *x >= 0x80)).unwrap_or(false),
                _ => false,
            });
            if let Some((clause, detail)) = check_messages(&o.msgs, printed, &lookup) {
                ctx.want_render = true;
                ctx.render(render);
                return Verdict::fail(format!("A|{}", clause), detail);
            }
            return Verdict::Pass;
        }
        // ---------------- part B
        ctx.label("part:B");
        let (mut prog, _) = crate::props::c01::gen_case(t, 14, true, false);
        if !matches!(refasm::assemble(&prog), RefResult::Ok(_)) {
            ctx.skipped = true;
            return Verdict::Pass;
        }
        // positions where a fault can be injected
        let v2 = crate::engine::gen_version() >= 2;
        let cands: Vec<usize> = prog
            .items
            .iter()
            .enumerate()
            .filter(|(_, it)| matches!(it, Item::Instr(_) | Item::Data { .. } | Item::Label { .. }) || (v2 && matches!(it, Item::BankDef(_))))
            .map(|x| x.0)
            .collect();
        // for a fault inside a multi-line item: the line of the fault relative to the item's first line
        let mut fault_line_offset = 0usize;
        if cands.is_empty() {
            ctx.skipped = true;
            return Verdict::Pass;
        }
        let at = cands[t.below(cands.len())];
        let mut fault_item = at;
        let mut twin = false;
        let kind: &str;
        match prog.items[at].clone() {
            Item::Instr(mut ins) => {
                let has_expr = ins.ops.iter().any(|o| matches!(o.op, IOp::Expr(_)) || matches!(&o.op, IOp::Word(_)));
                match if crate::engine::gen_version() >= 4 { t.draw(4) } else { t.draw(3) } {
                    0 => {
                        ins.mnemonic = "qqq".into();
                        kind = "unknown-instruction";
                    }
                    3 if has_expr => {
                        // v4: the SAME instruction text twice, with no directive in between: valid under the first global
                        // label (where `.zqloc` is a small constant), faulty under the second (where it is not declared,
                        // or is far too large) - the cause belongs to the second line
                        let k = ins.ops.iter().position(|o| matches!(o.op, IOp::Expr(_) | IOp::Word(_))).unwrap();
                        ins.ops[k].op = IOp::Word(".zqloc".into());
                        let mut seq = vec![
                            Item::Label { dots: 0, name: "zqg1".into() },
                            Item::Const { dots: 1, name: "zqloc".into(), e: lit_of(1), noemit: false },
                            Item::Instr(ins.clone()),
                            Item::Label { dots: 0, name: "zqg2".into() },
                        ];
                        // "an otherwise valid program": with a small `.zqloc` in the second scope as well, everything must
                        // be valid by the rules (the first occurrence, and whatever the two new global labels re-parent)
                        let mut valid = prog.clone();
                        let mut vseq = seq.clone();
                        vseq.push(Item::Const { dots: 1, name: "zqloc".into(), e: lit_of(1), noemit: false });
                        vseq.push(Item::Instr(ins.clone()));
                        valid.items.splice(at..at + 1, vseq);
                        if !matches!(refasm::assemble(&valid), RefResult::Ok(_)) {
                            ctx.skipped = true;
                            return Verdict::Pass;
                        }
                        if t.flip() {
                            seq.push(Item::Const { dots: 1, name: "zqloc".into(), e: huge(), noemit: false });
                            kind = "same-text-out-of-range-in-second-scope";
                        } else {
                            kind = "same-text-undefined-in-second-scope";
                        }
                        fault_item = at + seq.len();
                        for (i, it) in seq.into_iter().enumerate() {
                            prog.items.insert(at + i, it);
                        }
                        // (prog.items[fault_item] is the original instruction, replaced below by the edited one)
                        prog.items[fault_item] = Item::Instr(ins.clone());
                        twin = true;
                    }
                    1 if has_expr => {
                        let k = ins.ops.iter().position(|o| matches!(o.op, IOp::Expr(_) | IOp::Word(_))).unwrap();
                        ins.ops[k].op = IOp::Word("no_such_symbol".into());
                        kind = "undefined-symbol";
                    }
                    2 if has_expr => {
                        let k = ins.ops.iter().position(|o| matches!(o.op, IOp::Expr(_) | IOp::Word(_))).unwrap();
                        ins.ops[k].op = IOp::Expr(huge());
                        kind = "out-of-range-operand";
                    }
                    _ => {
                        ins.mnemonic = "qqq".into();
                        kind = "unknown-instruction";
                    }
                }
                if !twin {
                    prog.items[at] = Item::Instr(ins);
                }
            }
            Item::Data { width, mut elems } => {
                if t.flip() {
                    let k = t.below(elems.len());
                    elems[k] = E::Var("no_such_symbol".into());
                    prog.items[at] = Item::Data { width, elems };
                    kind = "undefined-symbol";
                } else {
                    // v2: a built-in function that rejects an argument written on the NEXT line of the call:
                    // the error belongs to the argument's line
                    if crate::engine::gen_version() >= 3 && t.chance(1, 10) {
                        // v3: the failing constraint lies three rules deep (instruction -> asm block -> asm block -> typed
                        // parameter / assert): the first error still belongs to the line the user wrote
                        let deep = *t.pick(&["zqc {v: u8} => 0x77 @ v", "zqc {v} => { assert(v < 0x100), 0x77 @ v`8 }"]);
                        prog.items[at] = Item::Raw(format!("#ruledef zqn\n{{\n    {}\n    zqb {{v}} => asm {{ zqc {{v}} }}\n    zqa {{v}} => asm {{ zqb {{v}} }}\n}}\nzqa 0x1ff", deep));
                        fault_line_offset = 6;
                        kind = "constraint-fails-three-rules-deep";
                    } else if crate::engine::gen_version() >= 2 && t.chance(1, 8) {
                        // v2: an asm-block rule defined at the very END of the file, called with an operand that is
                        // much longer than its placeholder and out of range for the inner instruction
                        let n = t.urange(20, 120);
                        let acc = if t.flip() { "\u{e9}" } else { "e" };
                        if crate::engine::gen_version() >= 4 && t.chance(1, 4) {
                            // v4 (programs without banks; both added instructions are 16 bits): an earlier, correct line reads a position BEHIND the faulty block through a constant; with the
                            // block unresolved (no size) that distance is exactly 7: inside s4 AND u8, so the line is
                            // ambiguous for the guess, while the true value (>= 8) fits u8 only
                            // (a program of its own: the two added 16-bit instructions would move the layout of a generated one)
                            prog.items.clear();
                            for k in 0..t.draw(4) {
                                prog.items.push(Item::Data { width: Some(8), elems: vec![lit_of(k as u64 + 1)] });
                            }
                            fault_item = prog.items.len();
                            prog.items.push(Item::Raw(format!("#align 8\nzqhere = $\nzqamb zqafter - zqhere + 5\nzqmac 0x1{}\nzqafter = $", "0".repeat(n))));
                            fault_line_offset = 3;
                            prog.items.push(Item::Raw(format!("#ruledef zqm\n{{\n    zqemit {{x: u8}} => 0x77 @ x\n    zqmac {{x}} => asm {{ zqemit {{x}} }} ; {}\n    zqamb {{v: s4}} => 0xb @ v @ 0x00\n    zqamb {{v: u8}} => 0x80 @ v\n}}", acc)));
                            ctx.label("fault:asm-block-argument-out-of-range:position-behind-read-before");
                        } else {
                            prog.items[at] = Item::Raw(format!("zqmac 0x1{}", "0".repeat(n)));
                            prog.items.push(Item::Raw(format!("#ruledef zqm\n{{\n    zqemit {{x: u8}} => 0x77 @ x\n    zqmac {{x}} => asm {{ zqemit {{x}} }} ; {}\n}}", acc)));
                        }
                        kind = "asm-block-argument-out-of-range";
                    } else if crate::engine::gen_version() >= 2 && t.chance(1, 7) {
                        // v2: a rule whose production is a multi-line asm block with one faulty `{...}` substitution;
                        // the message that names the cause belongs to that line of the block
                        let bad = *t.pick(&["zqemit {zqx}", "zqemit {}", "zqemit 1 + {zqy}"]);
                        let (l1, l2) = if t.flip() { ("zqemit {x}", bad) } else { (bad, "zqemit {x}") };
                        let off = if l1 == bad { 5 } else { 6 };
                        let comment = if t.flip() { " ; \u{e9}\u{e9}" } else { "" };
                        prog.items[at] = Item::Raw(format!("#ruledef zqm\n{{\n    zqemit {{x: u8}} => 0x77 @ x\n    zqmac {{x}} => asm{}\n    {{\n        {}\n        {}\n    }}\n}}\nzqmac 1", comment, l1, l2));
                        fault_line_offset = off;
                        kind = "asm-block-faulty-substitution";
                    } else if crate::engine::gen_version() >= 5 && t.chance(1, 3) {
                        // v5: a string literal of generated content (ASCII, 2/3/4-byte characters, valid escapes) that
                        // carries ONE invalid escape sequence somewhere, in a directive that reads the string
                        let plain: &[&str] = &["a", "Zq", " ", "0", "x41", "u", "{", "}", "'", "\u{e9}", "\u{ef}", "\u{3b1}\u{3b2}", "\u{4e16}\u{754c}", "\u{20ac}", "\u{1f600}", "\u{2014}"];
                        let good: &[&str] = &["\\n", "\\t", "\\r", "\\0", "\\\\", "\\'", "\\x41", "\\x7f", "\\u{e9}", "\\u{1f600}", "\\u{0}"];
                        let bad: &[&str] = &["\\q", "\\z9", "\\xzz", "\\x8f", "\\x4g", "\\ux", "\\u{12g}", "\\u{110000}", "\\u{d800}", "\\u{1234567}", "\\\u{e9}", "\\\u{4e16}", "\\ "];
                        let mut lit = String::from("\"");
                        let n_before = t.urange(0, 6);
                        for _ in 0..n_before {
                            lit.push_str(if t.chance(1, 4) { *t.pick(good) } else { *t.pick(plain) });
                        }
                        lit.push_str(*t.pick(bad));
                        let n_after = t.urange(0, 3);
                        for _ in 0..n_after {
                            lit.push_str(if t.chance(1, 4) { *t.pick(good) } else { *t.pick(plain) });
                        }
                        lit.push('"');
                        let txt = match t.draw(4) {
                            0 => format!("#d {}", lit),
                            1 => format!("zq_str = {}", lit),
                            2 => format!("#d8 strlen({})", lit),
                            _ => format!("#d utf16le({}), 0x00", lit),
                        };
                        prog.items[at] = Item::Raw(txt);
                        kind = "malformed-directive:invalid-escape-in-string";
                    } else if crate::engine::gen_version() >= 2 && t.chance(1, 6) {
                        let txt = *t.pick(&["#d8 strlen(\n    5)", "#d8 le(\n    5)", "#d16 utf16le(\n    0x41)", "#d8 sizeof(\n    7)", "#d8 1 + strlen(\n    0x2)"]);
                        prog.items[at] = Item::Raw(txt.to_string());
                        fault_line_offset = 1;
                        kind = "builtin-rejects-argument-on-next-line";
                    } else {
                    let v2_extra: &[(&str, &'static str)] = &[
                        ("#d8", "malformed-directive:missing-operand*"),
                        ("#d", "malformed-directive:missing-operand*"),
                        ("#addr", "malformed-directive:missing-operand*"),
                        ("zq_limit =", "malformed-directive:missing-operand*"),
                        ("#d8 1 +", "malformed-directive:missing-operand*"),
                    ];
                    // v3: a required token is missing and a block comment that runs over a line break follows: the error
                    // belongs to the line of the directive, not to the line where the comment ends
                    let v3_extra: &[(&str, &'static str)] = &[
                        ("#fn ;* zq\n   zq *; (x) => x", "malformed-directive:missing-token-before-multiline-comment"),
                        ("#bankdef ;* zq\n   zq \u{e9} *;\n{\n}", "malformed-directive:missing-token-before-multiline-comment"),
                        ("#ruledef zqr ;* zq\n zq *; x", "malformed-directive:missing-token-before-multiline-comment"),
                        ("#include ;* zq\n zq *;", "malformed-directive:missing-token-before-multiline-comment"),
                    ];
                    let (txt, k): (&str, &'static str) = if crate::engine::gen_version() >= 3 && t.chance(1, 6) { *t.pick(v3_extra) } else if crate::engine::gen_version() >= 2 && t.chance(1, 3) { *t.pick(v2_extra) } else { *t.pick(&[
                        ("#d8 ,", "malformed-directive:stray-comma"),
                        ("#align", "malformed-directive:missing-operand"),
                        ("#nosuchdirective 1", "malformed-directive:unknown-name"),
                        ("#d8 1 2", "malformed-directive:extra-token"),
                        ("#res", "malformed-directive:missing-operand"),
                        ("#d8 (1", "malformed-directive:unclosed-paren"),
                    ]) };
                    prog.items[at] = Item::Raw(txt.to_string());
                    kind = k;
                    }
                }
            }
            Item::BankDef(b) => {
                // v2: a misspelled field name behind at least one valid field of the block
                let text = crate::model::program::bankdef_text(&b);
                let mut lines: Vec<String> = text.lines().map(|l| l.to_string()).collect();
                let nfields = lines.len() - 3; // "#bankdef x", "{", fields..., "}"
                if nfields == 0 {
                    ctx.skipped = true;
                    return Verdict::Pass;
                }
                let after = t.urange(1, nfields); // behind the first..last field
                let bad = *t.pick(&["    sizee = 4", "    adr = 0", "    output = 0", "    bitz = 8"]);
                lines.insert(2 + after, bad.to_string());
                fault_line_offset = 2 + after;
                prog.items[at] = Item::Raw(lines.join("\n"));
                kind = "malformed-directive:unknown-bank-field";
            }
            Item::Label { dots, name } => {
                // declare the same label a second time right after it
                prog.items.insert(at + 1, Item::Label { dots, name });
                fault_item = at + 1;
                kind = "duplicate-label";
            }
            _ => unreachable!(),
        }
        ctx.label(format!("fault:{}", kind));
        // the language rules must reject exactly that item (malformed directives are not modelled: syntax errors)
        if !kind.starts_with("malformed-directive") && kind != "builtin-rejects-argument-on-next-line" && kind != "asm-block-faulty-substitution" && kind != "asm-block-argument-out-of-range" && kind != "constraint-fails-three-rules-deep" {
            match refasm::assemble(&prog) {
                RefResult::Reject { item, .. } if item == fault_item => {}
                _ => {
                    ctx.skipped = true; // the fault did not make the program invalid (e.g. an untyped rule takes any value)
                    return Verdict::Pass;
                }
            }
        } else {
            // the raw text of these kinds is not interpreted by the reference (it skips it): the REST of the program
            // must be valid by the rules, so that the injected fault is the only one
            let _ = lit_of(0);
            if !matches!(refasm::assemble(&prog), RefResult::Ok(_)) {
                ctx.skipped = true;
                return Verdict::Pass;
            }
        }
        let r = render_tracked(t, &prog);
        let mut h = 0u64;
        for f in &r.files {
            h = crate::engine::mix(h, crate::engine::fnv(&f.1));
        }
        ctx.hash = h;
        let loc = r.locs.iter().find(|l| l.item == fault_item).cloned();
        let Some(loc) = loc else {
            ctx.skipped = true;
            return Verdict::Pass;
        };
        let render = || json!({"fault": kind, "expected": format!("{}:{}", loc.file, loc.line + 1), "files": r.files.iter().map(|f| json!({"name": f.0, "text": String::from_utf8_lossy(&f.1)})).collect::<Vec<_>>()});
        ctx.render(render);
        let file_text = r.files.iter().find(|f| f.0 == loc.file).map(|f| String::from_utf8_lossy(&f.1).to_string()).unwrap_or_default();
        let before: String = file_text.lines().take(loc.line + 1).collect::<Vec<_>>().join("\n");
        // A missing operand is only mis-located (the listed finding) when the expression parser can swallow what
        // follows the line break as the operand. If the next significant line starts a directive (`#`), or the file
        // ends, there is nothing to swallow and the error must be on the faulty line: a class of its own.
        // the v2 forms (marked *) are only faults when nothing can be swallowed as their operand
        let starred = kind == "malformed-directive:missing-operand*";
        let kind: &'static str = if starred { "malformed-directive:missing-operand" } else { kind };
        let kind: &'static str = if kind == "malformed-directive:missing-operand" {
            let next = file_text.lines().skip(loc.line + 1).map(|l| l.trim()).find(|l| !l.is_empty() && !l.starts_with(';'));
            match next {
                None => "malformed-directive:missing-operand-at-end-of-file",
                Some(l) if l.starts_with('#') => "malformed-directive:missing-operand-before-directive",
                Some(_) => kind,
            }
        } else {
            kind
        };
        if kind.starts_with("malformed-directive:missing-operand-") {
            ctx.label(format!("fault:{}", kind));
        } else if starred {
            ctx.skipped = true; // the next line may legitimately continue the expression: not a fault
            return Verdict::Pass;
        }
        ctx.nontrivial = !before.is_ascii() || loc.file != "main.asm";
        let mut fs = MemFs::from_files(&r.files);
        let o = sut::assemble(&mut fs, &["main.asm"], &sut::Opts::default());
        ctx.evals += 1;
        let msgs = match &o {
            sut::AsmOutcome::Err(m) => m,
            other => {
                ctx.want_render = true;
                ctx.render(render);
                return Verdict::fail(format!("B|{}|fault-not-reported", kind), format!("a {} fault was injected, assembler: {}", kind, other.brief()));
            }
        };
        let mut first = msgs.iter().find(|m| m.kind == 'E').unwrap();
        let first_top = first;
        if kind == "builtin-rejects-argument-on-next-line" || kind == "asm-block-faulty-substitution" {
            // the outer message covers the whole two-line element; the message that names the cause is the innermost one
            while let Some(i) = first.inner.first() {
                first = i;
            }
        }
        let place = match (&first.file, first.loc) {
            (Some(f), Some((a, _))) => {
                let text = r.files.iter().find(|x| &x.0 == f).map(|x| x.1.clone()).unwrap_or_default();
                line_col(&text, a).map(|lc| (f.clone(), lc.0))
            }
            _ => None,
        };
        let want = (loc.file.clone(), loc.line + 1 + fault_line_offset);
        if place.as_ref() != Some(&want) {
            ctx.want_render = true;
            ctx.render(render);
            // a class of its own: the fault sits in an asm block (which has no size while it cannot be resolved), a label
            // behind it therefore keeps a guessed address, and an EARLIER, correct line that names that label is reported first
            // (only when that first error is about ANOTHER instruction: a message tree that mentions the faulty block's own
            // rules is the fault itself, reported in the wrong place)
            let about_the_fault = {
                let mut all = Vec::new();
                first_top.flatten(&mut all);
                all.iter().any(|m| m.descr.contains("zqemit") || m.descr.contains("zqmac"))
            };
            let earlier = kind == "asm-block-argument-out-of-range" && !about_the_fault && matches!(&place, Some((f, l)) if *f == want.0 && *l < want.1);
            return Verdict::fail(
                format!("B|{}|{}", kind, if earlier { "an-earlier-line-reports-first" } else { "first-error-elsewhere" }),
                format!("fault on {}:{} (`{}`), first error `{}` is located at {:?}", want.0, want.1, loc.text, first.descr, place),
            );
        }
        // v4: the message that NAMES the cause of an operand fault (unknown symbol / out of range for a type) quotes the
        // operand the user wrote: wherever it sits in the tree of the first error, it belongs to the faulty line too
        if crate::engine::gen_version() >= 4 && (kind == "undefined-symbol" || kind == "out-of-range-operand" || kind.starts_with("same-text-")) {
            let top = msgs.iter().find(|m| m.kind == 'E').unwrap();
            let mut all = Vec::new();
            top.flatten(&mut all);
            for m in all {
                if !(m.descr.starts_with("unknown symbol") || m.descr.starts_with("argument out of range for type")) {
                    continue;
                }
                let place = match (&m.file, m.loc) {
                    (Some(f), Some((a, _))) => {
                        let text = r.files.iter().find(|x| &x.0 == f).map(|x| x.1.clone()).unwrap_or_default();
                        line_col(&text, a).map(|lc| (f.clone(), lc.0))
                    }
                    _ => None,
                };
                if place.as_ref() != Some(&want) {
                    ctx.want_render = true;
                    ctx.render(render);
                    return Verdict::fail(
                        format!("B|{}|cause-located-elsewhere", kind),
                        format!("fault on {}:{} (`{}`), the message naming the cause, `{}`, is located at {:?}", want.0, want.1, loc.text, m.descr, place),
                    );
                }
            }
        }
        // every location of the whole message tree is valid (as in part A)
        let lookup = |n: &str| r.files.iter().find(|x| x.0 == n).map(|x| x.1.clone());
        if let Some((c, d)) = check_spans(msgs, &lookup) {
            ctx.want_render = true;
            ctx.render(render);
            return Verdict::fail(format!("B|{}|{}", kind, c), d);
        }
        Verdict::Pass
    }
}
