//! C18 — the command line does what the usage text says.

use crate::engine::realbin;
use crate::engine::sut::{self, MemFs};
use crate::engine::{CaseCtx, Property, Tape, Tier, Verdict};
use customasm::{asm, diagn, driver};
use serde_json::json;
use std::collections::HashMap;

pub struct C18;

/// R-CLI: the format table as documented in src/usage_help.md (parsed at run time)
#[derive(Clone, Debug)]
pub struct FormatDoc {
    pub name: String,
    pub params: Vec<(String, usize)>, // documented parameters with their defaults
}

pub fn usage_formats() -> Vec<FormatDoc> {
    let text = std::fs::read_to_string(crate::repo_dir().join("src/usage_help.md")).unwrap_or_default();
    let mut out: Vec<FormatDoc> = Vec::new();
    let mut in_formats = false;
    for line in text.lines() {
        if line.starts_with("## ") {
            in_formats = line.trim() == "## Formats:";
            continue;
        }
        if !in_formats {
            continue;
        }
        let l = line.trim();
        if let Some(rest) = l.strip_prefix("* `") {
            let spec = rest.split('`').next().unwrap_or("");
            let mut parts = spec.split(',');
            let name = parts.next().unwrap_or("").to_string();
            let params = parts.filter_map(|p| p.split_once(':')).filter_map(|(k, v)| v.parse().ok().map(|v| (k.to_string(), v))).collect();
            out.push(FormatDoc { name, params });
        } else if let Some(rest) = l.strip_prefix("Same as: `") {
            // alias: the documented expansion gives the effective parameters
            let spec = rest.split('`').next().unwrap_or("");
            let params: Vec<(String, usize)> = spec.split(',').skip(1).filter_map(|p| p.split_once(':')).filter_map(|(k, v)| v.parse().ok().map(|v| (k.to_string(), v))).collect();
            if let Some(last) = out.last_mut() {
                last.params = params.into_iter().map(|(k, v)| (format!("={}", k), v)).collect(); // fixed, not settable
                last.params.insert(0, (format!("@{}", spec.split(',').next().unwrap_or("")), 0));
            }
        }
    }
    out
}

/// the format selected by a documented spec, or None if the usage text does not allow it
pub fn model_format(docs: &[FormatDoc], spec: &str) -> Option<driver::OutputFormat> {
    let mut parts = spec.split(',');
    let name = parts.next()?;
    let doc = docs.iter().find(|d| d.name == name)?;
    let mut vals: HashMap<String, usize> = HashMap::new();
    let mut base_name = name.to_string();
    for (k, v) in &doc.params {
        if let Some(b) = k.strip_prefix('@') {
            base_name = b.to_string();
        } else if let Some(k) = k.strip_prefix('=') {
            vals.insert(k.to_string(), *v);
        } else {
            vals.insert(k.clone(), *v);
        }
    }
    let settable: Vec<&String> = doc.params.iter().map(|p| &p.0).filter(|k| !k.starts_with('=') && !k.starts_with('@')).collect();
    for p in parts {
        let (k, v) = p.split_once(':')?;
        if !settable.iter().any(|s| s.as_str() == k) {
            return None;
        }
        if vals.insert(k.to_string(), v.parse().ok()?).is_none() {
            return None;
        }
    }
    use driver::OutputFormat as F;
    Some(match base_name.as_str() {
        "binary" => F::Binary,
        "annotated" => {
            if ![2, 4, 8, 16, 32, 64, 128].contains(&vals["base"]) || vals["group"] == 0 {
                return None;
            }
            F::Annotated { base: vals["base"], group: vals["group"] }
        }
        "binstr" => F::BinStr,
        "hexstr" => F::HexStr,
        "bindump" => F::BinDump,
        "hexdump" => F::HexDump,
        "mif" => F::Mif,
        "intelhex" => {
            if ![8, 16, 32].contains(&vals["addr_unit"]) {
                return None;
            }
            F::IntelHex { address_unit: vals["addr_unit"] }
        }
        "deccomma" => F::DecComma,
        "hexcomma" => F::HexComma,
        "decspace" => F::DecSpace,
        "hexspace" => F::HexSpace,
        "decc" => F::DecC,
        "hexc" => F::HexC,
        "logisim8" => F::LogiSim8,
        "logisim16" => F::LogiSim16,
        "addrspan" => F::AddressSpan,
        "tcgame" => {
            if ![2, 16].contains(&vals["base"]) || vals["group"] == 0 {
                return None;
            }
            F::TCGame { base: vals["base"], group: vals["group"] }
        }
        "symbols" => F::Symbols,
        "mesen-mlb" => F::SymbolsMesenMlb,
        _ => return None,
    })
}

pub fn extension(f: &driver::OutputFormat) -> &'static str {
    match f {
        driver::OutputFormat::Binary => "bin",
        driver::OutputFormat::SymbolsMesenMlb => "mlb",
        _ => "txt",
    }
}

pub fn derive_name(input: &str, ext: &str) -> String {
    // replace the extension of the last path component (or append one)
    let (dir, file) = match input.rsplit_once('/') {
        Some((d, f)) => (format!("{}/", d), f),
        None => (String::new(), input),
    };
    let stem = match file.rsplit_once('.') {
        Some((s, _)) if !s.is_empty() => s,
        _ => file,
    };
    format!("{}{}.{}", dir, stem, ext)
}

const PROGRAMS: &[(&str, &str)] = &[
    ("plain", "#ruledef\n{\n    ld {x: u8} => 0x10 @ x\n    halt => 0xff\n}\nstart:\nld 5\n.loop:\nld start\nhalt\n#d16 0x1234\nk = 7\n"),
    ("needs3", "#ruledef\n{\n    jmp {x} => { assert(x < 4), 0x1 @ x`4 }\n    jmp {x} => 0x2 @ x`12\n    nop => 0x00\n}\njmp l1\njmp l1\nl1:\nnop\nnop\n"),
    ("faulty", "#ruledef\n{\n    ld {x: u8} => 0x10 @ x\n}\nld nosuch\n"),
    ("defined", "v = 1\n#d8 v\n#if v == 2\n{\n#d8 0xee\n}\n"),
    // v3: a constant whose initialiser is not known before the layout (labels), overridden from the command line
    ("defined-late", "#ruledef\n{\n    ld {x: u8} => 0x55 @ x\n}\nstart:\nld v\n#d8 v\nend:\nv = end - start\n"),
];

/// the second input file of multi-input command lines: assembled after the first, never names an output
pub const EXTRA_INPUT: (&str, &str) = ("extra.asm", "#d8 0x77\nextra_k = 3\nextra_l:\n");

#[derive(Clone, Debug)]
pub struct Group {
    pub spec: Option<String>,
    pub out: Option<String>,
    pub print: bool,
}

pub struct Cli {
    pub program: usize,
    pub input: String,
    /// v2: a second input file given right behind the first (`customasm <INPUT-FILES...>`)
    pub extra_input: bool,
    /// name of the second input file (v3: sometimes the very name that would be derived for an output of the first)
    pub extra_name: String,
    pub groups: Vec<Group>,
    pub args: Vec<String>,
    pub iters: Option<String>,
    pub defines: Vec<(String, String)>,
    pub quiet: bool,
    pub help_or_version: Option<&'static str>,
}

const VALID_SPECS: &[&str] = &[
    "binary", "annotated", "annotated,group:4", "annotated,base:8,group:3", "annotated,base:2", "annotated,base:128,group:1", "annotatedbin", "binstr", "hexstr", "bindump", "hexdump",
    "mif", "intelhex", "intelhex,addr_unit:16", "intelhex,addr_unit:32", "deccomma", "hexcomma", "decspace", "hexspace", "decc", "hexc", "logisim8", "logisim16", "addrspan", "tcgame",
    "tcgame,base:2,group:4", "tcgamebin", "symbols", "mesen-mlb", "annotated,group:9,base:64",
];
const INVALID_SPECS: &[&str] = &[
    "nosuch", "annotated,base:3", "annotated,unknown:1", "annotated,base:8:16", "tcgame,base:8", "intelhex,addr_unit:12", "binary,base:16", "annotatedbin,base:16", "hexstr,group:2",
    "annotated,base:x", "Binary", "intelhex,addr_unit", "tcgamebin,group:4", "symbols,base:16",
];

pub fn gen_cli(t: &mut Tape) -> Cli {
    let program = if crate::engine::gen_version() >= 3 { t.weighted(&[6, 2, 1, 2, 2]) } else { t.weighted(&[6, 2, 1, 2]) };
    let input = if crate::engine::gen_version() >= 2 {
        // v2: dots in directory names, `./`, a dot-file: the derived name changes only the LAST component
        t.pick(&["main.asm", "main.asm", "prog.s", "dir/main.asm", "noext", "main.bin", "a.b.asm", "main.txt", "./noext", "v1.2/prog", "dir.d/main.asm", ".hidden", "./main.asm", "a.b/c.d/noext"]).to_string()
    } else {
        t.pick(&["main.asm", "main.asm", "prog.s", "dir/main.asm", "noext", "main.bin", "a.b.asm", "main.txt"]).to_string()
    };
    let ngroups = t.weighted(&[4, 4, 2, 1]) + 1;
    let help_or_version = match t.weighted(&[30, 1, 1]) {
        1 => Some("-h"),
        2 => Some("-v"),
        _ => None,
    };
    let mut groups = Vec::new();
    for g in 0..ngroups {
        let w: [u32; 4] = if crate::engine::gen_version() >= 2 { [2, 8, 2, 4] } else { [2, 10, 2, 0] };
        let spec = match t.weighted(&w) {
            0 => None,
            1 => Some(t.pick(VALID_SPECS).to_string()),
            2 => Some(t.pick(INVALID_SPECS).to_string()),
            _ => {
                // v2: a format that takes parameters, with every parameter value drawn from a boundary list
                // (valid values, their neighbours, 0 and 1, non-numbers); which ones are allowed is the model's call
                let name = *t.pick(&["annotated", "annotated", "tcgame", "intelhex", "annotatedbin", "hexdump"]);
                let mut spec = name.to_string();
                let mut keys = vec!["base", "group", "addr_unit"];
                for _ in 0..t.weighted(&[1, 5, 3]) {
                    let k = keys.remove(t.below(keys.len()));
                    let v = match k {
                        "base" => *t.pick(&["0", "1", "2", "3", "4", "6", "8", "10", "16", "17", "32", "36", "64", "100", "128", "129", "256", "x", ""]),
                        "group" => *t.pick(&["0", "1", "2", "3", "4", "7", "8", "16", "64", "-1", "two"]),
                        _ => *t.pick(&["0", "1", "4", "8", "9", "12", "16", "24", "32", "33", "64", "0x10"]),
                    };
                    spec.push_str(&format!(",{}:{}", k, v));
                }
                Some(spec)
            }
        };
        // v2: a group may carry both -o and -p (the usage text: -p prints INSTEAD of writing a file)
        let w: [u32; 4] = if crate::engine::gen_version() >= 2 { [5, 3, 2, 1] } else { [5, 3, 2, 0] };
        let (out, print) = match t.weighted(&w) {
            0 => (Some(format!("out{}.dat", g)), false),
            1 => (None, false),
            2 => (None, true),
            _ => (Some(format!("out{}.dat", g)), true),
        };
        groups.push(Group { spec, out, print });
    }
    let iters = match t.weighted(&[8, 1, 1, 1, 1]) {
        0 => None,
        1 => Some("1".to_string()),
        2 => Some("2".to_string()),
        3 => Some("5".to_string()),
        _ => Some(t.pick(&["0", "x", "-1"]).to_string()),
    };
    let defines = if program == 4 && t.chance(2, 3) {
        vec![("v".to_string(), t.pick(&["0x77", "2", "3"]).to_string())]
    } else if program == 3 && t.flip() { vec![("v".to_string(), t.pick(&["2", "1", "0x2"]).to_string())] } else { vec![] };
    let quiet = t.chance(3, 4);
    // assemble the argument list; global options go to a random group
    let mut per_group: Vec<Vec<String>> = Vec::new();
    for g in &groups {
        let mut a = Vec::new();
        if let Some(s) = &g.spec {
            match t.draw(4) {
                0 => {
                    a.push("-f".into());
                    a.push(s.clone());
                }
                1 => a.push(format!("-f{}", s)),
                2 => a.push(format!("--format={}", s)),
                _ => {
                    a.push("--format".into());
                    a.push(s.clone());
                }
            }
        }
        let print_first = g.print && g.out.is_some() && t.flip();
        if print_first {
            a.push(if t.flip() { "-p".into() } else { "--print".into() });
        }
        if let Some(o) = &g.out {
            if t.flip() {
                a.push("-o".into());
                a.push(o.clone());
            } else {
                a.push(format!("--output={}", o));
            }
        }
        if g.print && !print_first {
            a.push(if t.flip() { "-p".into() } else { "--print".into() });
        }
        per_group.push(a);
    }
    let ng = per_group.len();
    let mut place = |t: &mut Tape, per_group: &mut Vec<Vec<String>>, items: Vec<String>| {
        let g = t.below(ng);
        let at = t.below(per_group[g].len() + 1);
        // do not split an option from its detached value
        let at = if at > 0 && at < per_group[g].len() && !per_group[g][at].starts_with('-') { 0 } else { at };
        for (k, it) in items.into_iter().enumerate() {
            per_group[g].insert(at + k, it);
        }
    };
    let extra_input = crate::engine::gen_version() >= 2 && t.chance(1, 5);
    let extra_name = if extra_input && crate::engine::gen_version() >= 3 && t.chance(1, 3) { derive_name(&input, *t.pick(&["bin", "txt", "mlb"])) } else { EXTRA_INPUT.0.to_string() };
    let extra_name = if extra_name == input { EXTRA_INPUT.0.to_string() } else { extra_name };
    place(t, &mut per_group, if extra_input { vec![input.clone(), extra_name.clone()] } else { vec![input.clone()] });
    if quiet {
        let q = if t.flip() { "-q" } else { "--quiet" };
        place(t, &mut per_group, vec![q.to_string()]);
    }
    if let Some(i) = &iters {
        let v = match t.draw(3) {
            0 => vec!["-t".to_string(), i.clone()],
            1 => vec![format!("-t{}", i)],
            _ => vec![format!("--iters={}", i)],
        };
        // `-t -1` would read -1 as an option
        let v = if i.starts_with('-') { vec![format!("--iters={}", i)] } else { v };
        place(t, &mut per_group, v);
    }
    for (n, v) in &defines {
        let d = match t.draw(3) {
            0 => vec![format!("-d{}={}", n, v)],
            1 => vec!["--define".to_string(), format!("{}={}", n, v)],
            _ => vec![format!("--define={}={}", n, v)],
        };
        place(t, &mut per_group, d);
    }
    if let Some(h) = help_or_version {
        place(t, &mut per_group, vec![h.to_string()]);
    }
    let mut args = Vec::new();
    for (k, g) in per_group.into_iter().enumerate() {
        if k > 0 {
            args.push("--".to_string());
        }
        args.extend(g);
    }
    Cli { program, input, extra_input, extra_name, groups, args, iters, defines, quiet, help_or_version }
}

#[derive(Debug)]
pub enum Expect {
    RejectBeforeAssembling(String),
    AssemblyFails,
    Writes(Vec<(String, Vec<u8>)>, Vec<Vec<u8>>), // files in order, printed contents in order
    NothingAssembled,
    /// the library run itself contradicts the closed-form expectation of a define-steered program
    DefineNotHonoured(String),
}

pub fn expectation(cli: &Cli, docs: &[FormatDoc]) -> Expect {
    // option errors come first, group by group
    let mut formats = Vec::new();
    for g in &cli.groups {
        match &g.spec {
            None => formats.push(None),
            Some(s) => match model_format(docs, s) {
                Some(f) => formats.push(Some(f)),
                None => return Expect::RejectBeforeAssembling(format!("format `{}` is not allowed by the usage text", s)),
            },
        }
    }
    let budget = match &cli.iters {
        None => 10usize,
        Some(s) => match s.parse::<usize>() {
            Ok(n) if n >= 1 => n,
            _ => return Expect::RejectBeforeAssembling(format!("iteration budget `{}`", s)),
        },
    };
    let mut names = Vec::new();
    for (g, f) in cli.groups.iter().zip(formats.iter()) {
        let fmt = f.unwrap_or(if g.print { driver::OutputFormat::Annotated { base: 16, group: 2 } } else { driver::OutputFormat::Binary });
        if g.print {
            names.push((fmt, None));
        } else if let Some(o) = &g.out {
            names.push((fmt, Some(o.clone())));
        } else {
            let d = derive_name(&cli.input, extension(&fmt));
            if d == cli.input || cli.extra_input && d == cli.extra_name {
                return Expect::RejectBeforeAssembling(format!("derived output name `{}` equals the name of an input file", d));
            }
            names.push((fmt, Some(d)));
        }
    }
    if cli.help_or_version.is_some() {
        return Expect::NothingAssembled;
    }
    // assemble through the library with the same budget and defines
    let mut fs = MemFs::new();
    fs.add(&cli.input, PROGRAMS[cli.program].1.as_bytes().to_vec());
    if cli.extra_input {
        fs.add(&cli.extra_name, EXTRA_INPUT.1.as_bytes().to_vec());
    }
    let mut opts = asm::AssemblyOptions::new();
    opts.max_iterations = budget;
    for (n, v) in &cli.defines {
        let val = if let Some(h) = v.strip_prefix("0x") { i64::from_str_radix(h, 16).unwrap() } else { v.parse::<i64>().unwrap() };
        opts.driver_symbol_defs.push(asm::DriverSymbolDef { name: n.clone(), value: customasm::expr::Value::make_integer(customasm::util::BigInt::new(val, None)) });
    }
    let mut report = diagn::Report::new();
    let roots: Vec<&str> = if cli.extra_input { vec![cli.input.as_str(), cli.extra_name.as_str()] } else { vec![cli.input.as_str()] };
    let res = asm::assemble(&mut report, &opts, &mut fs, &roots);
    let (Some(out), Some(decls), Some(defs)) = (res.output.as_ref(), res.decls.as_ref(), res.defs.as_ref()) else {
        return Expect::AssemblyFails;
    };
    // the two programs that are steered by a define have outputs known in closed form ("a define replaces the value
    // of the constant everywhere"): the library run that supplies the expected file contents must itself show them
    if let Some((_, v)) = cli.defines.iter().find(|d| d.0 == "v") {
        let k = if let Some(h) = v.strip_prefix("0x") { i64::from_str_radix(h, 16).unwrap() } else { v.parse::<i64>().unwrap() } as u8;
        let want: Option<Vec<u8>> = match PROGRAMS[cli.program].0 {
            "defined-late" => Some(vec![0x55, k, k]),
            "defined" => Some(if k == 2 { vec![2, 0xee] } else { vec![k] }),
            _ => None,
        };
        if let Some(want) = want {
            let got: Vec<u8> = sut::bitvec_bits(out).chunks(8).map(|c| c.iter().fold(0u8, |a, b| (a << 1) | *b as u8)).collect();
            let got = if cli.extra_input { got[..got.len().saturating_sub(1).min(got.len())].to_vec() } else { got };
            if got != want && !(cli.extra_input && sut::bitvec_bits(out).len() / 8 == want.len() + 1 && got == want) {
                return Expect::DefineNotHonoured(format!("-d v={} on program `{}`: output {:02x?}, expected {:02x?}", v, PROGRAMS[cli.program].0, got, want));
            }
        }
    }
    let mut files = Vec::new();
    let mut printed = Vec::new();
    for (fmt, name) in names {
        let content = driver::format_output(&fs, decls, defs, out, fmt);
        match name {
            Some(n) => files.push((n, content)),
            None => printed.push(content),
        }
    }
    Expect::Writes(files, printed)
}

impl Property for C18 {
    fn id(&self) -> &'static str {
        "C18"
    }
    fn rule(&self) -> String {
        "each case = one of five small programs (plain, one needing 3 passes, a faulty one, one steered by a define, one whose overridden constant has a label-derived initialiser - for the two define-steered programs the output is also known in closed form) under an input name with/without extension and directory (incl. names that \
         equal a derived output name) x 1-4 output groups, each with a format spec drawn from every format and parameter of the usage text (valid; or invalid: unknown name, unknown parameter, value outside the documented set, malformed; or built constructively: a parameterised format with each parameter value drawn from a boundary list - 0, 1, the valid values and their neighbours, non-numbers) or none, and -o / derived name / -p / both -o and -p (printing wins); global options (-q, -t/--iters incl. 0/x/-1, -d, -h, -v) placed in a random group at a random position, every \
         option in one of its spellings (-f X, -fX, --format=X, --format X, -o X, --output=X, -t N, -tN, --iters=N, -dN=V, --define N=V, --define=N=V). Oracle R-CLI: the format table is parsed from \
         src/usage_help.md at run time; a line the usage text does not allow must be rejected before assembling (also on the faulty program: no located error may be reported); otherwise the files \
         written must be exactly the model's list (given or derived names) with, per group, the content that driver::format_output gives for the format and parameters the usage text documents \
         (defaults, aliases), -p groups write nothing, the budget reaches the resolver, -h/-v assemble nothing. One case in 25 also runs the real binary (exit status, files, -p text on stdout, \
         progress lines only without -q). Non-trivial = >= 2 groups or a parameter or an invalid near-miss; distinct by hash of the argument list + program."
            .to_string()
    }
    fn setup(&self, _tier: Tier) -> Result<(), String> {
        realbin::build(false).map(|_| ())
    }
    fn tape_len(&self, _t: Tier) -> usize {
        120
    }
    fn fuzz_runs(&self, _tier: Tier) -> u64 {
        40_000
    }
    fn random_cases(&self, tier: Tier) -> u64 {
        tier.pick(600_000, 3_000_000)
    }
    fn run(&self, t: &mut Tape, ctx: &mut CaseCtx) -> Verdict {
        static DOCS: std::sync::OnceLock<Vec<FormatDoc>> = std::sync::OnceLock::new();
        let docs = DOCS.get_or_init(usage_formats);
        if docs.len() < 10 {
            return Verdict::fail("usage-text-unreadable", format!("only {} formats found in src/usage_help.md", docs.len()));
        }
        let cli = gen_cli(t);
        ctx.hash = crate::engine::mix(crate::engine::fnv(cli.args.join("\u{1}").as_bytes()), cli.program as u64);
        let render = || json!({"args": cli.args, "program": PROGRAMS[cli.program].0, "input": cli.input});
        ctx.render(render);
        ctx.nontrivial = cli.groups.len() >= 2 || cli.groups.iter().any(|g| g.spec.as_ref().map(|s| s.contains(',')).unwrap_or(false) || g.spec.as_ref().map(|s| INVALID_SPECS.contains(&s.as_str())).unwrap_or(false));
        let expect = expectation(&cli, docs);
        ctx.label(match &expect {
            Expect::RejectBeforeAssembling(_) => "expect:reject",
            Expect::AssemblyFails => "expect:assembly-fails",
            Expect::Writes(..) => "expect:writes",
            Expect::NothingAssembled => "expect:help",
            Expect::DefineNotHonoured(_) => "expect:define-not-honoured",
        });
        let mut fs = MemFs::new();
        fs.add(&cli.input, PROGRAMS[cli.program].1.as_bytes().to_vec());
        if cli.extra_input {
            fs.add(&cli.extra_name, EXTRA_INPUT.1.as_bytes().to_vec());
            ctx.label("two-inputs");
        }
        let r = sut::drive(&mut fs, &cli.args);
        ctx.evals += 1;
        let fail = |ctx: &mut CaseCtx, clause: &str, detail: String| -> Verdict {
            ctx.want_render = true;
            ctx.render(render);
            Verdict::fail(clause.to_string(), detail)
        };
        let o = match r {
            Err(p) => return fail(ctx, &format!("panic {}", sut::panic_site(&p)), p),
            Ok(o) => o,
        };
        match &expect {
            Expect::DefineNotHonoured(d) => return fail(ctx, "define-not-honoured", d.clone()),
            Expect::RejectBeforeAssembling(why) => {
                if o.ok {
                    return fail(ctx, "invalid-command-line-accepted", format!("{}; the driver succeeded and wrote {:?}", why, o.writes.iter().map(|w| &w.0).collect::<Vec<_>>()));
                }
                if !o.writes.is_empty() {
                    return fail(ctx, "rejected-but-wrote", format!("{}; files {:?}", why, o.writes.iter().map(|w| &w.0).collect::<Vec<_>>()));
                }
                let mut all = Vec::new();
                for m in &o.msgs {
                    m.flatten(&mut all);
                }
                if all.iter().any(|m| m.loc.is_some()) {
                    return fail(ctx, "assembled-before-rejecting-options", format!("{}; but the program was assembled first: {}", why, sut::first_error_text(&o.msgs)));
                }
            }
            Expect::AssemblyFails => {
                if o.ok || !o.writes.is_empty() {
                    return fail(ctx, "failed-assembly-delivered", format!("library assembly fails with this budget/defines, the driver: ok={} files {:?}", o.ok, o.writes.iter().map(|w| &w.0).collect::<Vec<_>>()));
                }
            }
            Expect::NothingAssembled => {
                if !o.ok || !o.writes.is_empty() || o.has_output {
                    return fail(ctx, "help-or-version-assembled", format!("ok={} files={:?} output={}", o.ok, o.writes.iter().map(|w| &w.0).collect::<Vec<_>>(), o.has_output));
                }
            }
            Expect::Writes(files, _) => {
                if !o.ok {
                    return fail(ctx, "valid-command-line-rejected", sut::first_error_text(&o.msgs));
                }
                let got: Vec<&String> = o.writes.iter().map(|w| &w.0).collect();
                let want: Vec<&String> = files.iter().map(|w| &w.0).collect();
                if got != want {
                    return fail(ctx, "wrong-files-written", format!("expected {:?}, written {:?}", want, got));
                }
                for ((n, w), (_, g)) in files.iter().zip(o.writes.iter()) {
                    if w != g {
                        return fail(
                            ctx,
                            "wrong-content",
                            format!("file {}: expected {:?}, written {:?}", n, String::from_utf8_lossy(w).chars().take(200).collect::<String>(), String::from_utf8_lossy(g).chars().take(200).collect::<String>()),
                        );
                    }
                }
            }
        }
        // the real binary
        if t.chance(1, 25) {
            ctx.label("real-binary");
            let dir = realbin::scratch("c18");
            let mut inputs = vec![(cli.input.clone(), PROGRAMS[cli.program].1.as_bytes().to_vec())];
            if cli.extra_input {
                inputs.push((cli.extra_name.clone(), EXTRA_INPUT.1.as_bytes().to_vec()));
            }
            realbin::materialize(&dir, &inputs);
            let mut args = cli.args.clone();
            // colour is a global option: honoured wherever it appears (v2: at a random position, else at the end)
            let color_at = if crate::engine::gen_version() >= 2 { t.below(args.len() + 1) } else { args.len() };
            // never between an option and its detached value
            let color_at = if color_at > 0 && color_at < args.len() && !args[color_at].starts_with('-') && args[color_at - 1].starts_with('-') && !args[color_at - 1].contains('=') && args[color_at - 1] != "--" { args.len() } else { color_at };
            args.insert(color_at, "--color=off".into());
            let r = realbin::run(&realbin::bin_path(false), &dir, &args, &realbin::Limits::default());
            ctx.evals += 1;
            let mut files = realbin::snapshot(&dir);
            // the snapshot names files relative to the scratch directory: compare modulo a leading `./`
            let norm = |n: &str| n.trim_start_matches("./").to_string();
            files.retain(|f| f.0 != norm(&cli.input) && f.0 != norm(&cli.extra_name));
            let _ = std::fs::remove_dir_all(&dir);
            let stdout = String::from_utf8_lossy(&r.stdout).to_string();
            let res: Option<(String, String)> = if r.signal.is_some() || r.timed_out {
                Some(("real|abnormal-exit".into(), r.brief()))
            } else if crate::engine::gen_version() >= 2 && cli.help_or_version.is_none() && (r.stderr.contains(&0x1b) || r.stdout.contains(&0x1b)) {
                Some((
                    if matches!(expect, Expect::RejectBeforeAssembling(_)) { "real|color-off-ignored-on-rejected-command-line".into() } else { "real|color-off-ignored".into() },
                    format!("--color=off was given, yet the output carries ANSI escape sequences: {:?}", String::from_utf8_lossy(&r.stderr).chars().take(200).collect::<String>()),
                ))
            } else {
                match &expect {
                    Expect::DefineNotHonoured(_) => None,
                    Expect::RejectBeforeAssembling(_) | Expect::AssemblyFails => {
                        if r.code != Some(1) || !files.is_empty() || r.stderr.is_empty() {
                            Some(("real|failure-not-clean".into(), format!("{} files {:?}", r.brief(), files.iter().map(|f| &f.0).collect::<Vec<_>>())))
                        } else {
                            None
                        }
                    }
                    Expect::NothingAssembled => {
                        if r.code != Some(0) || !files.is_empty() {
                            Some(("real|help-or-version".into(), r.brief()))
                        } else {
                            None
                        }
                    }
                    Expect::Writes(want, printed) => {
                        let mut want_map: Vec<(String, Vec<u8>)> = Vec::new();
                        for (n, c) in want {
                            let n = norm(n);
                            want_map.retain(|x| x.0 != n);
                            want_map.push((n, c.clone()));
                        }
                        want_map.sort();
                        if r.code != Some(0) {
                            Some(("real|valid-command-line-rejected".into(), r.brief()))
                        } else if files != want_map {
                            Some(("real|wrong-files".into(), format!("expected {:?}, found {:?}", want_map.iter().map(|f| &f.0).collect::<Vec<_>>(), files.iter().map(|f| &f.0).collect::<Vec<_>>())))
                        } else if printed.iter().any(|p| !stdout.contains(String::from_utf8_lossy(p).trim_end())) {
                            Some(("real|print-missing".into(), format!("a -p group's content is not on stdout: {:?}", stdout.chars().take(300).collect::<String>())))
                        } else if cli.quiet && (stdout.contains("assembling") || stdout.contains("resolved in") || stdout.contains("writing")) {
                            Some(("real|quiet-ignored".into(), stdout.chars().take(200).collect()))
                        } else if !cli.quiet && !(stdout.contains("assembling") && stdout.contains("resolved in")) {
                            Some(("real|progress-missing".into(), stdout.chars().take(200).collect()))
                        } else {
                            None
                        }
                    }
                }
            };
            if let Some((c, d)) = res {
                return fail(ctx, &c, d);
            }
        }
        Verdict::Pass
    }
}
