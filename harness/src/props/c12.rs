//! C12 — listings and symbol tables tell the truth about the output.

use crate::engine::sut::{self, MemFs};
use crate::engine::{CaseCtx, Property, Tape, Tier, Verdict};
use crate::model::expr::print;
use crate::model::isa::{instr_text, isa_text};
use crate::model::program::*;
use crate::model::refasm::{self, RefOk, RefResult};
use customasm::{asm, diagn, driver};
use num_bigint::BigInt;
use serde_json::json;
use std::collections::HashMap;

pub struct C12;

/// where one listed item (label, instruction, data element) was put in the source
#[derive(Clone, Debug)]
pub struct Loc {
    pub item: usize,
    pub elem: usize,
    pub file: String,
    pub line: usize,      // 0-based
    pub col: usize,       // 0-based, in characters
    pub text: String,     // the source text of the item
}

pub struct Rendered {
    pub files: Vec<(String, Vec<u8>)>,
    pub locs: Vec<Loc>,
}

/// render with optional include split and non-ASCII comments; records where every listed item is
pub fn render_tracked(t: &mut Tape, p: &Program) -> Rendered {
    let n = p.items.len();
    // items [a, b) go to an included file (only items that are not bank definitions, to keep it simple)
    let (a, b) = if n >= 3 && t.chance(1, 3) {
        let a = t.urange(1, n - 1);
        let b = t.urange(a + 1, n);
        (a, b)
    } else {
        (n, n)
    };
    let mut main = isa_text(&p.isa);
    let mut inc = String::new();
    let mut locs = Vec::new();
    let noise = ["; caf\u{e9} \u{4e16}\u{754c} \u{1f600}", "; plain comment", ";* block \u{3b1}\u{3b2} *;", ""];
    for (i, it) in p.items.iter().enumerate() {
        let in_inc = i >= a && i < b;
        if i == a && a < b {
            main.push_str("#include \"sub/inc.asm\"\n");
        }
        let (buf, file) = if in_inc { (&mut inc, "sub/inc.asm") } else { (&mut main, "main.asm") };
        if t.chance(1, 5) {
            buf.push_str(*t.pick(&noise[..]));
            buf.push('\n');
        }
        let line = buf.matches('\n').count();
        let indent = if t.chance(1, 4) { "    " } else { "" };
        match it {
            Item::Data { width, elems } => {
                let mut s = format!("{}#d{} ", indent, width.map(|w| w.to_string()).unwrap_or_default());
                for (k, e) in elems.iter().enumerate() {
                    if k > 0 {
                        s.push_str(", ");
                    }
                    let text = print(e, false);
                    locs.push(Loc { item: i, elem: k, file: file.to_string(), line, col: s.chars().count(), text: text.clone() });
                    s.push_str(&text);
                }
                buf.push_str(&s);
            }
            Item::Label { .. } => {
                let text = item_text(it);
                locs.push(Loc { item: i, elem: 0, file: file.to_string(), line, col: indent.len(), text: text.clone() });
                buf.push_str(indent);
                buf.push_str(&text);
            }
            Item::Instr(ins) => {
                let text = instr_text(ins);
                locs.push(Loc { item: i, elem: 0, file: file.to_string(), line, col: indent.len(), text: text.clone() });
                buf.push_str(indent);
                buf.push_str(&text);
            }
            Item::Raw(text) => {
                locs.push(Loc { item: i, elem: 0, file: file.to_string(), line, col: indent.len(), text: text.clone() });
                buf.push_str(indent);
                buf.push_str(text);
            }
            other => {
                buf.push_str(indent);
                buf.push_str(&item_text(other));
            }
        }
        if t.chance(1, 6) {
            buf.push_str(" ; trailing \u{e9}\u{1f600}");
        }
        buf.push('\n');
    }
    let mut files = vec![("main.asm".to_string(), main.into_bytes())];
    if a < b {
        files.push(("sub/inc.asm".to_string(), inc.into_bytes()));
    }
    Rendered { files, locs }
}

#[derive(Clone, Debug)]
pub struct Row {
    pub offset: Option<usize>,
    pub size: usize,
    pub addr: BigInt,
    pub loc: Loc,
}

/// expected rows: one per model span, in output order (items without position first), ties in source order
pub fn expected_rows(m: &RefOk, r: &Rendered) -> Vec<Row> {
    let mut rows: Vec<Row> = m
        .spans
        .iter()
        .map(|s| Row { offset: s.offset, size: s.size, addr: s.addr.clone(), loc: r.locs.iter().find(|l| l.item == s.item && l.elem == s.elem).cloned().unwrap() })
        .collect();
    rows.sort_by(|a, b| a.offset.cmp(&b.offset));
    rows
}

fn digit_of(c: char) -> Option<u32> {
    let v = c as u32;
    if ('0'..='9').contains(&c) {
        Some(v - '0' as u32)
    } else if v >= 'a' as u32 {
        Some(v - 'a' as u32 + 10)
    } else {
        None
    }
}

fn bits_at(bits: &[bool], pos: usize, n: usize) -> u32 {
    let mut v = 0;
    for k in 0..n {
        v = (v << 1) | bits.get(pos + k).copied().unwrap_or(false) as u32;
    }
    v
}

fn hex(s: &str) -> Option<usize> {
    usize::from_str_radix(s.trim(), 16).ok()
}

/// check the digits of one row against the output bits
fn check_digits(digits: &[u32], row: &Row, bits: &[bool], bits_per_digit: usize) -> Result<(), String> {
    let want_n = (row.size + bits_per_digit - 1) / bits_per_digit;
    if digits.len() != want_n {
        return Err(format!("{} digits for an item of {} bits (expected {})", digits.len(), row.size, want_n));
    }
    for (k, d) in digits.iter().enumerate() {
        let want = bits_at(bits, row.offset.unwrap_or(0) + k * bits_per_digit, bits_per_digit);
        if *d != want {
            return Err(format!("digit {} is {:#x}, but the output holds {:#x} there", k, d, want));
        }
    }
    Ok(())
}

pub fn check_annotated(text: &str, rows: &[Row], bits: &[bool], base: usize, group: usize) -> Result<(), String> {
    let bpd = (base - 1).count_ones() as usize;
    let bpg = bpd * group;
    let mut lines = text.lines();
    let header = lines.next().ok_or("empty listing")?;
    if !(header.contains("outp") && header.contains("addr") && header.contains(&format!("data (base {})", base))) {
        return Err(format!("bad header {:?}", header));
    }
    if lines.next() != Some("") {
        return Err("missing blank line after the header".into());
    }
    let body: Vec<&str> = lines.collect();
    if body.len() != rows.len() {
        return Err(format!("{} rows for {} emitted items", body.len(), rows.len()));
    }
    for (line, row) in body.iter().zip(rows.iter()) {
        let (left, excerpt) = line.split_once(" ; ").ok_or_else(|| format!("row without source excerpt: {:?}", line))?;
        let cols: Vec<&str> = left.splitn(3, '|').collect();
        if cols.len() != 3 {
            return Err(format!("row {:?} does not have three columns", line));
        }
        let (p, b) = cols[0].trim().split_once(':').ok_or_else(|| format!("bad position {:?}", cols[0]))?;
        match row.offset {
            Some(off) => {
                if hex(p) != Some(off / bpg) || hex(b) != Some(off % bpg) {
                    return Err(format!("row for `{}` shows position {}:{}, item is at bit {} = {:x}:{:x}", row.loc.text, p, b, off, off / bpg, off % bpg));
                }
            }
            None => {
                if p.trim() != "--" || b.trim() != "-" {
                    return Err(format!("row for `{}` (no output position) shows {}:{}", row.loc.text, p, b));
                }
            }
        }
        let addr = BigInt::parse_bytes(cols[1].trim().as_bytes(), 16).ok_or_else(|| format!("bad address {:?}", cols[1]))?;
        if addr != row.addr {
            return Err(format!("row for `{}` shows address {:#x}, item has {:#x}", row.loc.text, addr, row.addr));
        }
        let mut digits = Vec::new();
        let mut in_group = 0;
        for c in cols[2].trim_matches(' ').chars() {
            if c == ' ' {
                if in_group != group {
                    return Err(format!("digit group of {} in row {:?} (group size {})", in_group, line, group));
                }
                in_group = 0;
                continue;
            }
            digits.push(digit_of(c).ok_or_else(|| format!("bad digit {:?}", c))?);
            in_group += 1;
        }
        check_digits(&digits, row, bits, bpd).map_err(|e| format!("row for `{}`: {}", row.loc.text, e))?;
        if excerpt != row.loc.text {
            return Err(format!("row shows source {:?}, the item at that position is {:?}", excerpt, row.loc.text));
        }
    }
    Ok(())
}

pub fn check_tcgame(text: &str, rows: &[Row], bits: &[bool], base: usize, group: usize) -> Result<(), String> {
    let bpd = (base - 1).count_ones() as usize;
    let bpg = bpd * group;
    let prefix = if base == 2 { "0b" } else { "0x" };
    let lines: Vec<&str> = text.lines().collect();
    if lines.len() < 2 || !lines[0].starts_with("# ") || !lines[0].contains(&format!("data (base {})", base)) || lines[1] != "" {
        return Err("bad header".into());
    }
    let body = &lines[2..];
    if body.len() != rows.len() * 3 {
        return Err(format!("{} body lines for {} items (3 lines each expected)", body.len(), rows.len()));
    }
    for (k, row) in rows.iter().enumerate() {
        let l0 = body[3 * k].strip_prefix("# ").ok_or("position line lacks `# `")?;
        let (pos, addr) = l0.split_once('|').ok_or("position line lacks `|`")?;
        let (p, b) = pos.trim().split_once(':').ok_or("bad position")?;
        match row.offset {
            Some(off) => {
                if hex(p) != Some(off / bpg) || hex(b) != Some(off % bpg) {
                    return Err(format!("entry for `{}` shows position {}:{}, item is at bit {}", row.loc.text, p, b, off));
                }
            }
            None => {
                if p.trim() != "--" {
                    return Err("entry without position shows one".into());
                }
            }
        }
        let a = BigInt::parse_bytes(addr.trim().as_bytes(), 16).ok_or("bad address")?;
        if a != row.addr {
            return Err(format!("entry for `{}` shows address {:#x}, item has {:#x}", row.loc.text, a, row.addr));
        }
        let l1 = body[3 * k + 1].strip_prefix("# ").ok_or("excerpt line lacks `# `")?;
        if l1 != row.loc.text {
            return Err(format!("entry shows source {:?}, the item is {:?}", l1, row.loc.text));
        }
        let mut digits = Vec::new();
        for g in body[3 * k + 2].split_whitespace() {
            let d = g.strip_prefix(prefix).ok_or_else(|| format!("group {:?} lacks the {} prefix", g, prefix))?;
            if d.chars().count() > group {
                return Err(format!("group {:?} longer than {}", g, group));
            }
            for c in d.chars() {
                digits.push(digit_of(c).ok_or("bad digit")?);
            }
        }
        check_digits(&digits, row, bits, bpd).map_err(|e| format!("entry for `{}`: {}", row.loc.text, e))?;
    }
    Ok(())
}

pub fn check_addrspan(text: &str, rows: &[Row]) -> Result<(), String> {
    let lines: Vec<&str> = text.lines().collect();
    if lines.is_empty() || !lines[0].starts_with("; ") {
        return Err("missing header".into());
    }
    let body = &lines[1..];
    if body.len() != rows.len() {
        return Err(format!("{} rows for {} items", body.len(), rows.len()));
    }
    for (line, row) in body.iter().zip(rows.iter()) {
        let cols: Vec<&str> = line.split(" | ").collect();
        if cols.len() != 3 {
            return Err(format!("row {:?} does not have three columns", line));
        }
        match row.offset {
            Some(off) => {
                let (p, b) = cols[0].split_once(':').ok_or("bad position")?;
                if hex(p) != Some(off / 8) || hex(b) != Some(off % 8) {
                    return Err(format!("row for `{}` shows physical {}:{}, item is at bit {}", row.loc.text, p, b, off));
                }
            }
            None => {
                if cols[0] != "-:-" {
                    return Err("row without position shows one".into());
                }
            }
        }
        let a = BigInt::parse_bytes(cols[1].trim().as_bytes(), 16).ok_or("bad address")?;
        if a != row.addr {
            return Err(format!("row for `{}` shows address {:#x}, item has {:#x}", row.loc.text, a, row.addr));
        }
        let end_col = row.loc.col + row.loc.text.chars().count();
        let want = format!("{}:{}:{}:{}:{}", row.loc.file, row.loc.line, row.loc.col, row.loc.line, end_col);
        if cols[2] != want {
            return Err(format!("row for `{}` shows location {}, the item is at {}", row.loc.text, cols[2], want));
        }
    }
    Ok(())
}

pub fn check_symbols(text: &str, m: &RefOk) -> Result<(), String> {
    let got = sut::parse_symbols(text);
    let want: HashMap<String, BigInt> = m.symbols.iter().cloned().collect();
    let mut seen = std::collections::HashSet::new();
    for (n, v) in &got {
        if !seen.insert(n.clone()) {
            return Err(format!("symbol {} listed twice", n));
        }
        match want.get(n) {
            Some(w) if w == v => {}
            Some(w) => return Err(format!("symbol {} listed as {:#x}, its value is {:#x}", n, v, w)),
            None => return Err(format!("symbol {} is listed but is not a declared, emitted integer symbol", n)),
        }
        // children after their parent
        if let Some((parent, _)) = n.rsplit_once('.') {
            if want.contains_key(parent) && !seen.contains(parent) {
                return Err(format!("{} listed before its parent", n));
            }
        }
    }
    for n in want.keys() {
        if !seen.contains(n) {
            return Err(format!("symbol {} is missing from the table", n));
        }
    }
    if text.lines().filter(|l| !l.trim().is_empty()).count() != got.len() {
        return Err("unparsable line in the symbol table".into());
    }
    Ok(())
}

/// Mesen labels: P:<prg offset>:<name> for labels in 8-bit banks with output and file offset >= 0x10
pub fn check_mesen(text: &str, prog: &Program, m: &RefOk, ok: &sut::AsmOk) -> Result<(), String> {
    // expected: label spans (size 0 entries that are labels) -> file byte offset
    let mut want: HashMap<String, Option<usize>> = HashMap::new();
    let mut want_addr: HashMap<String, num_bigint::BigInt> = HashMap::new();
    let mut path: Vec<String> = Vec::new();
    for (i, it) in prog.items.iter().enumerate() {
        match it {
            Item::Label { dots, name } => {
                path.truncate(*dots);
                path.push(name.clone());
                let sp = m.spans.iter().find(|s| s.item == i).unwrap();
                want.insert(path.join("_"), sp.offset);
                want_addr.insert(path.join("_"), sp.addr.clone());
            }
            Item::Const { dots, name, .. } => {
                path.truncate(*dots);
                path.push(name.clone());
            }
            _ => {}
        }
    }
    // (the offsets come from the layout: the bit offset of the label in the output, whatever the bank's address unit)
    let _ = ok;
    for line in text.lines() {
        let parts: Vec<&str> = line.splitn(3, ':').collect();
        if parts.len() != 3 {
            return Err(format!("bad line {:?}", line));
        }
        let off = usize::from_str_radix(parts[1], 16).map_err(|_| format!("bad offset in {:?}", line))?;
        let Some(w) = want.get(parts[2]) else { return Err(format!("{} is listed but is not a label", parts[2])) };
        if parts[0] == "R" {
            // a label of a bank without output (RAM): the line carries the label's own value, the address the
            // assembly used for it
            if w.is_none() {
                if let Some(a) = want_addr.get(parts[2]) {
                    if num_bigint::BigInt::from(off) != *a {
                        return Err(format!("label {} of a bank without output is listed as R:{:x}, its value is {:#x}", parts[2], off, a));
                    }
                }
            }
        }
        if parts[0] == "P" {
            match w {
                Some(bitoff) if bitoff % 8 == 0 && bitoff / 8 >= 0x10 => {
                    if off != bitoff / 8 - 0x10 {
                        return Err(format!("label {} listed at PRG offset {:#x}, it lies at file offset {:#x}", parts[2], off, bitoff / 8));
                    }
                }
                _ => {}
            }
        }
    }
    {
        for (n, w) in &want {
            if let Some(bitoff) = w {
                if bitoff % 8 == 0 && bitoff / 8 >= 0x10 && !text.lines().any(|l| l.ends_with(&format!(":{}", n)) && l.starts_with("P:")) {
                    return Err(format!("label {} (file offset {:#x}) is missing", n, bitoff / 8));
                }
            }
        }
    }
    Ok(())
}

impl Property for C12 {
    fn id(&self) -> &'static str {
        "C12"
    }
    fn rule(&self) -> String {
        "each case = a generated program (size-static instruction set with banks of unit 4..32, or a bank-layout program with units 1..32, nested labels, #const(noemit), strings) that the \
         reference assembler accepts, rendered with non-ASCII comment lines, trailing comments, indentation and (one case in three) a middle chunk moved into an #include'd file in a \
         sub-directory; assembled, then formatted in 8 listings: annotated with base in {2,4,8,16,32,64,128} x group 1..9 (3 draws), tcgame base {2,16} x group 1..9 (2 draws), addrspan, \
         symbols, mesen-mlb. Oracle = a parser per format: number of rows = number of emitted items in output order; per row the position equals the item's offset split by the group size, \
         the address equals the item's address, the digits equal the bits actually at that position (zero past the end), the excerpt / file:line:column equals the source text and place the \
         generator put the item; symbols = exactly the declared, emitted integer symbols with the reference values, children after parents; Mesen P-offsets = file offset - 0x10 for byte-aligned labels \
         (banks of any address unit) at file offset >= 0x10. Non-trivial = (>= 2 banks or a unit != 8 or an included file) and a zero-size row (label) next to data; distinct by hash of the rendered files."
            .to_string()
    }
    fn assumptions(&self) -> Vec<String> {
        vec!["the expected rows come from the reference assembler, which C01/C06 keep equal to the assembler's own spans; a disagreement there is reported as such, not as a listing fault".into()]
    }
    fn tape_len(&self, _t: Tier) -> usize {
        560
    }
    fn fuzz_runs(&self, _tier: Tier) -> u64 {
        40_000
    }
    fn random_cases(&self, tier: Tier) -> u64 {
        tier.pick(600_000, 3_000_000)
    }
    fn run(&self, t: &mut Tape, ctx: &mut CaseCtx) -> Verdict {
        let prog = if t.chance(1, 2) { crate::props::c01::gen_case(t, 14, true, false).0 } else { crate::gen::banks::gen_bank_program(t).0 };
        let model = refasm::assemble(&prog);
        let RefResult::Ok(m) = &model else {
            ctx.skipped = true;
            return Verdict::Pass;
        };
        let r = render_tracked(t, &prog);
        let mut h = 0u64;
        for f in &r.files {
            h = crate::engine::mix(h, crate::engine::fnv(&f.1));
        }
        ctx.hash = h;
        let files_json = || json!(r.files.iter().map(|f| json!({"name": f.0, "text": String::from_utf8_lossy(&f.1)})).collect::<Vec<_>>());
        ctx.render(|| json!({"files": files_json()}));
        let mut fs = MemFs::from_files(&r.files);
        let mut report = diagn::Report::new();
        let res = asm::assemble(&mut report, &asm::AssemblyOptions::new(), &mut fs, &["main.asm"]);
        ctx.evals += 1;
        let Some(ok) = sut::extract_ok(&fs, &res) else {
            ctx.want_render = true;
            ctx.render(|| json!({"files": files_json()}));
            return Verdict::fail("valid-program-rejected", sut::first_error_text(&sut::messages(&report, &fs)));
        };
        if ok.bits != m.bits {
            ctx.want_render = true;
            ctx.render(|| json!({"files": files_json()}));
            return Verdict::fail("bits-differ-from-model", "the assembled bits differ from the reference (see C01/C06)");
        }
        let rows = expected_rows(m, &r);
        let multi = ok.banks.len() > 2 || ok.banks.iter().any(|b| b.unit != 8) || r.files.len() > 1;
        let label_next_to_data = rows.windows(2).any(|w| (w[0].size == 0) != (w[1].size == 0));
        ctx.nontrivial = multi && label_next_to_data;
        if r.files.len() > 1 {
            ctx.label("include");
        }
        let out = res.output.as_ref().unwrap();
        let decls = res.decls.as_ref().unwrap();
        let defs = res.defs.as_ref().unwrap();
        let mut formats: Vec<String> = Vec::new();
        for _ in 0..3 {
            formats.push(format!("annotated,base:{},group:{}", t.pick(&[16usize, 2, 4, 8, 32, 64, 128]), t.urange(1, 9)));
        }
        for _ in 0..2 {
            formats.push(format!("tcgame,base:{},group:{}", t.pick(&[16usize, 2]), t.urange(1, 9)));
        }
        formats.extend(["addrspan".to_string(), "symbols".to_string(), "mesen-mlb".to_string()]);
        for f in &formats {
            let mut rep = diagn::Report::new();
            let Ok(fmt) = driver::parse_output_format(&mut rep, f) else {
                return Verdict::fail("format-name-rejected", f.clone());
            };
            ctx.evals += 1;
            let data = sut::catch(|| driver::format_output(&fs, decls, defs, out, fmt));
            let name = f.split(',').next().unwrap();
            let res = match data {
                Err(p) => Err((format!("{}|panic {}", name, sut::panic_site(&p)), p)),
                Ok(d) => {
                    let text = String::from_utf8_lossy(&d).to_string();
                    let params: HashMap<&str, usize> = f.split(',').skip(1).filter_map(|p| p.split_once(':')).filter_map(|(k, v)| v.parse().ok().map(|v| (k, v))).collect();
                    let r = match name {
                        "annotated" => check_annotated(&text, &rows, &ok.bits, params["base"], params["group"]),
                        "tcgame" => check_tcgame(&text, &rows, &ok.bits, params["base"], params["group"]),
                        "addrspan" => check_addrspan(&text, &rows),
                        "symbols" => check_symbols(&text, m),
                        _ => check_mesen(&text, &prog, m, &ok),
                    };
                    r.map_err(|e| (format!("{}|listing-lies", name), format!("{}: {} -- listing: {:?}", f, e, text.chars().take(400).collect::<String>())))
                }
            };
            if let Err((clause, detail)) = res {
                if let Some(v) = ctx.judge(clause, detail) {
                    ctx.want_render = true;
                    ctx.render(|| json!({"files": files_json(), "format": f}));
                    return v;
                }
            }
        }
        Verdict::Pass
    }
}
