//! C17 — asm blocks and user functions mean what their expansion means.

use crate::engine::sut::{self, AsmOutcome, Opts};
use crate::engine::{CaseCtx, Property, Tape, Tier, Verdict};
use crate::gen::expr::{ExprGen, Ty};
use crate::gen::isa::IsaGen;
use crate::model::expr::*;
use crate::model::isa::*;
use serde_json::json;
use std::collections::HashMap;

pub struct C17;

// ---------------------------------------------------------------------------------------
// part M: macro rules over base instructions

#[derive(Clone, Debug)]
enum InnerOp {
    Lit(String),
    Param(usize),      // {name} of a macro parameter (textual substitution)
    Text(String),      // literal expression text
    BlockLabel(usize), // a label declared inside the block
    Global(String),
}

#[derive(Clone, Debug)]
enum Inner {
    Instr { rule: (usize, usize), ops: Vec<(Wrap, InnerOp)> },
    Label(usize),
    Call { mac: usize, args: Vec<InnerOp> },
}

#[derive(Clone, Debug)]
struct Macro {
    name: String,
    params: Vec<(String, PType)>,
    body: Vec<Inner>,
    nlabels: usize,
}

fn inner_op_text(op: &InnerOp, m: &Macro, args: Option<&[String]>, label_names: &[String]) -> String {
    match op {
        InnerOp::Lit(w) => w.clone(),
        InnerOp::Text(s) => s.clone(),
        InnerOp::Global(g) => g.clone(),
        InnerOp::Param(k) => match args {
            None => format!("{{{}}}", m.params[*k].0),
            Some(a) => a[*k].clone(),
        },
        InnerOp::BlockLabel(k) => label_names[*k].clone(),
    }
}

/// the lines of a macro body; `args` = None renders the definition (with {param}), Some = the inlined expansion
fn body_lines(macros: &[Macro], isa: &Isa, mi: usize, args: Option<&[String]>, uniq: &mut usize, out: &mut Vec<String>) {
    let m = &macros[mi];
    let label_names: Vec<String> = match args {
        None => (0..m.nlabels).map(|k| format!("blk{}", k)).collect(),
        Some(_) => {
            *uniq += 1;
            (0..m.nlabels).map(|k| format!("inl{}_{}", *uniq, k)).collect()
        }
    };
    for inner in &m.body {
        match inner {
            Inner::Label(k) => out.push(format!("{}:", label_names[*k])),
            Inner::Instr { rule, ops } => {
                let r = &isa.blocks[rule.0].rules[rule.1];
                let mut s = r.mnemonic.clone();
                for (k, (w, op)) in ops.iter().enumerate() {
                    s.push_str(if k == 0 { " " } else { ", " });
                    s.push_str(w.open());
                    s.push_str(&inner_op_text(op, m, args, &label_names));
                    s.push_str(w.close());
                }
                out.push(s);
            }
            Inner::Call { mac, args: cargs } => {
                let texts: Vec<String> = cargs.iter().map(|a| inner_op_text(a, m, args, &label_names)).collect();
                match args {
                    None => out.push(format!("{} {}", macros[*mac].name, texts.join(", ")).trim_end().to_string()),
                    Some(_) => body_lines(macros, isa, *mac, Some(&texts), uniq, out),
                }
            }
        }
    }
}

struct MacroCase {
    isa: Isa,
    macros: Vec<Macro>,
    calls: Vec<(usize, Vec<String>)>, // program: macro index + argument texts, interleaved with plain lines
    plain: Vec<(usize, String)>,      // (position, line)
    globals: Vec<String>,
    forward_global: bool,
    local_label_used: bool,
    expr_arg: bool,
    /// v3: text appended to the macro program / to the inlined program (a macro that hands a STRING through)
    tail: (String, String),
}

fn gen_macro_case(t: &mut Tape) -> MacroCase {
    let isa = IsaGen { size_static: true, asserts: false }.gen(t);
    let rules: Vec<(usize, usize)> = isa.blocks.iter().enumerate().flat_map(|(b, bl)| (0..bl.rules.len()).map(move |r| (b, r))).collect();
    let globals: Vec<String> = vec!["ga".into(), "gb".into(), "gz".into()];
    let nmac = t.urange(1, 3);
    let mut macros: Vec<Macro> = Vec::new();
    let mut local_label_used = false;
    for mi in 0..nmac {
        let nparams = t.weighted(&[2, 4, 3]);
        let params: Vec<(String, PType)> = (0..nparams).map(|k| (format!("m{}", k), if t.chance(1, 4) { PType::U(8) } else { PType::Untyped })).collect();
        let nlabels = t.weighted(&[3, 3, 1]);
        let ninner = t.urange(1, 3);
        let mut body: Vec<Inner> = Vec::new();
        let mut label_pos: Vec<usize> = (0..nlabels).map(|_| t.below(ninner + 1)).collect();
        label_pos.sort();
        for i in 0..=ninner {
            for (k, p) in label_pos.iter().enumerate() {
                if *p == i {
                    body.push(Inner::Label(k));
                }
            }
            if i == ninner {
                break;
            }
            if mi > 0 && t.chance(1, 4) {
                // nested macro call
                let target = t.below(mi);
                let args: Vec<InnerOp> = macros[target]
                    .params
                    .iter()
                    .map(|_| {
                        if crate::engine::gen_version() >= 2 && nlabels > 0 && t.chance(1, 4) {
                            // v2: a label of THIS block handed to the nested macro
                            InnerOp::BlockLabel(t.below(nlabels))
                        } else if nparams > 0 && t.flip() {
                            InnerOp::Param(t.below(nparams))
                        } else {
                            InnerOp::Text(t.draw(8).to_string())
                        }
                    })
                    .collect();
                body.push(Inner::Call { mac: target, args });
                continue;
            }
            let rule = rules[t.below(rules.len())];
            let r = &isa.blocks[rule.0].rules[rule.1];
            let mut ops = Vec::new();
            for p in &r.ops {
                let op = match &p.op {
                    POp::Lit(w) => InnerOp::Lit(w.clone()),
                    POp::Param { ty: PType::Sub(si), .. } => {
                        let sr = &isa.subrules[*si];
                        let alt = &sr.alts[t.below(sr.alts.len())];
                        match &alt.op {
                            POp::Lit(w) => InnerOp::Lit(w.clone()),
                            _ => {
                                if nlabels > 0 && t.chance(1, 3) {
                                    local_label_used = true;
                                    InnerOp::BlockLabel(t.below(nlabels))
                                } else if nparams > 0 && t.flip() {
                                    InnerOp::Param(t.below(nparams))
                                } else {
                                    InnerOp::Text(t.draw(4).to_string())
                                }
                            }
                        }
                    }
                    POp::Param { .. } => match t.weighted(&[4, 3, 2, 2]) {
                        0 if nparams > 0 => InnerOp::Param(t.below(nparams)),
                        1 if nlabels > 0 => {
                            local_label_used = true;
                            InnerOp::BlockLabel(t.below(nlabels))
                        }
                        2 => InnerOp::Global(t.pick(&globals).clone()),
                        _ => InnerOp::Text(t.draw(4).to_string()),
                    },
                };
                ops.push((p.wrap, op));
            }
            body.push(Inner::Instr { rule, ops });
        }
        macros.push(Macro { name: format!("mac{}", mi), params, body, nlabels });
    }
    // the program: calls and plain lines; global labels ga (start), gb (middle), gz (end)
    let ncalls = t.urange(1, 4);
    let mut calls: Vec<(usize, Vec<String>)> = Vec::new();
    let mut expr_arg = false;
    for _ in 0..ncalls {
        let mi = t.below(macros.len());
        let args: Vec<String> = macros[mi]
            .params
            .iter()
            .map(|(_, ty)| match (ty, t.weighted(&[4, 3, 2])) {
                (PType::U(_), _) => t.draw(4).to_string(),
                (_, 0) => t.draw(8).to_string(),
                (_, 1) => {
                    expr_arg = true;
                    format!("{} + {}", t.draw(3), t.draw(3))
                }
                _ => t.pick(&globals).clone(),
            })
            .collect();
        calls.push((mi, args));
    }
    let mut plain = vec![(0usize, "ga:".to_string()), (ncalls / 2, "#align 8".to_string()), (ncalls / 2, "gb:".to_string()), (ncalls, "#align 8".to_string()), (ncalls, "gz:".to_string())];
    // v2: the caller's nested constants are named like the block-local labels (`.blk0` under ga and under gb) and
    // passed as arguments: `.blk0` written at the call is the caller's symbol, never the block's own label.
    // (\u{1} marks such an argument: `.blk0` in the macro program, `<enclosing global>.blk0` in the inlined one.)
    if crate::engine::gen_version() >= 2 && t.chance(1, 3) {
        plain = vec![
            (0usize, "ga:".to_string()),
            (0, ".blk0 = 0x5".to_string()),
            (0, ".blk1 = 0x7".to_string()),
            (ncalls / 2, "#align 8".to_string()),
            (ncalls / 2, "gb:".to_string()),
            (ncalls / 2, ".blk0 = 0x6".to_string()),
            (ncalls / 2, ".blk1 = 0x9".to_string()),
            (ncalls, "#align 8".to_string()),
            (ncalls, "gz:".to_string()),
        ];
        for (mi, args) in calls.iter_mut() {
            for (k, a) in args.iter_mut().enumerate() {
                if matches!(macros[*mi].params[k].1, PType::Untyped) && t.chance(1, 2) {
                    *a = format!("\u{1}blk{}", t.draw(2));
                    expr_arg = true;
                }
            }
        }
    }
    // v2: the whole program in a bank whose first address is not 0 (block labels are addresses, not offsets)
    if crate::engine::gen_version() >= 2 && t.chance(1, 4) {
        let a = *t.pick(&[0x10u64, 0x40, 0x80]);
        // (one in four of these: labels must be aligned to 16 bits - block labels are labels)
        let la = if t.chance(1, 4) { "\n    labelalign = 16" } else { "" };
        plain.insert(0, (0usize, format!("#bankdef zb\n{{\n    addr = {}\n    outp = 0{}\n}}", a, la)));
    }
    // v3: a string literal (with runs of blanks, a tab, an escaped quote) handed textually through an asm block
    let mut tail = (String::new(), String::new());
    if crate::engine::gen_version() >= 3 && t.chance(1, 6) {
        let lit = *t.pick(&["\"a  b\"", "\"x\ty\"", "\"  lead\"", "\"tail   \"", "\"a b\"", "\"q\\\"  r\"", "utf16le(\"a  b\")", "\"a  b\" @ 0x00"]);
        let rules = "#ruledef strq\n{\n    emitq {s} => 0x02 @ s\n    sayq {s} => asm { emitq {s} }\n    sayq2 {s} => asm\n    {\n        sayq {s}\n        emitq {s}\n    }\n}\n";
        let twice = t.flip();
        tail.0 = format!("{}{} {}\n", rules, if twice { "sayq2" } else { "sayq" }, lit);
        tail.1 = format!("{}emitq {}\n{}", rules, lit, if twice { format!("emitq {}\n", lit) } else { String::new() });
        expr_arg = true;
    }
    // v3: inner instructions whose whole encoding is a (possibly negative) typed argument: `dbq {x: i8} => x`
    if crate::engine::gen_version() >= 3 && tail.0.is_empty() && t.chance(1, 6) {
        let rules = "#ruledef negq\n{\n    dbq {x: i8} => x\n    dwq {x: s16} => x\n    recq {a}, {b}, {c} => asm\n    {\n        dbq {a}\n        dwq {b}\n        dbq {c}\n    }\n}\n";
        let vals = ["0x55", "-1", "-3", "0", "127", "-128", "0x7f", "-2"];
        let (a, b, c) = (*t.pick(&vals), *t.pick(&vals), *t.pick(&vals));
        tail.0 = format!("{}recq {}, {}, {}\n", rules, a, b, c);
        tail.1 = format!("{}dbq {}\ndwq {}\ndbq {}\n", rules, a, b, c);
        expr_arg = true;
    }
    // v4: string literals that SPELL a placeholder (`"{n}"`): only the placeholder tokens of an inner line are replaced,
    // never the same characters inside a string - neither in an argument text nor in the block's own text
    if crate::engine::gen_version() >= 4 && tail.0.is_empty() && t.chance(1, 5) {
        // (also: a lone brace inside a string, and inside a comment of a multi-line block - text, not structure)
        let lit = *t.pick(&["\"{n}\"", "\"a{n}b\"", "\"{s}\"", "\"{n}{n}\"", "\"{ n}\"", "\"{s},{n}\"", "\"{}\"", "\"}\"", "\"{\"", "\"}{\"", "\"a}b\""]);
        let k = t.draw(200);
        let plain_rules = "#ruledef braceq\n{\n    str3q {s}, {n} => n`8 @ s\n}\n";
        if t.chance(1, 4) {
            let c = *t.pick(&["; a } brace", "; { open", ";* } *;", "; {n}"]);
            let rules = format!("#ruledef braceq\n{{\n    str3q {{s}}, {{n}} => n`8 @ s\n    cmt3q {{n}} => asm\n    {{\n        str3q \"x\", {{n}} {}\n        str3q \"y\", {{n}}\n    }}\n}}\n", c);
            tail.0 = format!("{}cmt3q {}\n", rules, k);
            tail.1 = format!("{}str3q \"x\", {}\nstr3q \"y\", {}\n", plain_rules, k, k);
        } else if t.flip() {
            let rules = "#ruledef braceq\n{\n    str3q {s}, {n} => n`8 @ s\n    say3q {s}, {n} => asm { str3q {s}, {n} }\n}\n";
            tail.0 = format!("{}say3q {}, {}\n", rules, lit, k);
            tail.1 = format!("{}str3q {}, {}\n", plain_rules, lit, k);
        } else {
            let rules = format!("#ruledef braceq\n{{\n    str3q {{s}}, {{n}} => n`8 @ s\n    lit3q {{n}} => asm {{ str3q {}, {{n}} }}\n}}\n", lit);
            tail.0 = format!("{}lit3q {}\n", rules, k);
            tail.1 = format!("{}str3q {}, {}\n", plain_rules, lit, k);
        }
        expr_arg = true;
    }
    // v5: inner instructions that SEVERAL rules of different widths accept (`ldwq {x: u16}` beside `ldwq {x: u8}` and
    // `ldwq {x: u4}`, declared in any order): with literal arguments the inlined program has one layout, in which every
    // line takes the smallest encoding that accepts its value; a position-dependent instruction behind it shows the size
    if crate::engine::gen_version() >= 5 && tail.0.is_empty() && t.chance(1, 5) {
        let mut variants = vec!["    ldwq {x: u4} => 0x3 @ x\n", "    ldwq {x: u8} => 0x01 @ x\n", "    ldwq {x: u16} => 0x02 @ x\n"];
        if t.chance(1, 3) {
            variants.remove(t.below(3));
        }
        for i in (1..variants.len()).rev() {
            let j = t.below(i + 1);
            variants.swap(i, j);
        }
        let base = format!("#ruledef widq\n{{\n{}    endq => 0xee @ $`8\n", variants.concat());
        let rules = format!("{}    pairq {{x}} => asm\n    {{\n        ldwq {{x}}\n        endq\n    }}\n    pair2q {{x}}, {{y}} => asm\n    {{\n        pairq {{x}}\n        ldwq {{y}}\n        endq\n    }}\n}}\n", base);
        let plain_rules = format!("{}}}\n", base);
        let vals = ["0", "5", "15", "16", "200", "255", "256", "0x12", "0x1234", "65535", "0x0005", "3 + 4", "65536"];
        let n = t.urange(1, 3);
        let (mut a, mut b) = (String::new(), String::new());
        for _ in 0..n {
            if t.chance(1, 3) {
                let (x, y) = (*t.pick(&vals), *t.pick(&vals));
                a.push_str(&format!("pair2q {}, {}\n", x, y));
                b.push_str(&format!("ldwq {}\nendq\nldwq {}\nendq\n", x, y));
            } else {
                let x = *t.pick(&vals);
                a.push_str(&format!("pairq {}\n", x));
                b.push_str(&format!("ldwq {}\nendq\n", x));
            }
        }
        tail.0 = format!("{}{}", rules, a);
        tail.1 = format!("{}{}", plain_rules, b);
        expr_arg = true;
    }
    MacroCase { isa, macros, calls, plain, globals, forward_global: true, local_label_used, expr_arg, tail }
}

fn render_macro_case(c: &MacroCase, inlined: bool) -> String {
    let mut s = isa_text(&c.isa);
    if !inlined {
        s.push_str("#ruledef macros\n{\n");
        for (mi, m) in c.macros.iter().enumerate() {
            let ps: Vec<String> = m.params.iter().map(|(n, ty)| format!("{{{}{}}}", n, ptype_text(*ty, &c.isa))).collect();
            s.push_str(&format!("    {} {} => asm\n    {{\n", m.name, ps.join(", ")).replace("  =>", " =>"));
            let mut lines = Vec::new();
            body_lines(&c.macros, &c.isa, mi, None, &mut 0, &mut lines);
            for l in lines {
                s.push_str(&format!("        {}\n", l));
            }
            s.push_str("    }\n");
        }
        s.push_str("}\n");
    }
    let mut uniq = 0;
    for (k, (mi, args)) in c.calls.iter().enumerate() {
        for (pos, line) in &c.plain {
            if *pos == k {
                s.push_str(line);
                s.push('\n');
            }
        }
        let parent = if c.plain.iter().any(|(pos, line)| line == "gb:" && *pos <= k) { "gb" } else { "ga" };
        let args: Vec<String> = args.iter().map(|a| match a.strip_prefix('\u{1}') { Some(n) if inlined => format!("{}.{}", parent, n), Some(n) => format!(".{}", n), None => a.clone() }).collect();
        let args = &args;
        if inlined {
            let mut lines = Vec::new();
            body_lines(&c.macros, &c.isa, *mi, Some(args), &mut uniq, &mut lines);
            for l in lines {
                s.push_str(&l);
                s.push('\n');
            }
        } else {
            s.push_str(format!("{} {}", c.macros[*mi].name, args.join(", ")).trim_end());
            s.push('\n');
        }
    }
    for (pos, line) in &c.plain {
        if *pos >= c.calls.len() {
            s.push_str(line);
            s.push('\n');
        }
    }
    s.push_str(if inlined { &c.tail.1 } else { &c.tail.0 });
    s
}

// ---------------------------------------------------------------------------------------
// part F: functions

fn subst(e: &E, map: &HashMap<String, E>) -> E {
    let r = |x: &E| Box::new(subst(x, map));
    match e {
        E::Var(n) => map.get(n).cloned().unwrap_or_else(|| e.clone()),
        E::Un(o, a) => E::Un(*o, r(a)),
        E::Bin(o, a, b) => E::Bin(*o, r(a), r(b)),
        E::Tern(a, b, c) => E::Tern(r(a), r(b), r(c)),
        E::Slice(a, b, c) => E::Slice(r(a), r(b), r(c)),
        E::SliceShort(a, b) => E::SliceShort(r(a), r(b)),
        E::Call(n, args) => E::Call(n.clone(), args.iter().map(|a| subst(a, map)).collect()),
        E::Block(es) => E::Block(es.iter().map(|a| subst(a, map)).collect()),
        other => other.clone(),
    }
}

impl Property for C17 {
    fn id(&self) -> &'static str {
        "C17"
    }
    fn rule(&self) -> String {
        "PART M (half of the cases): a size-static generated instruction set plus 1-3 macro rules `macN {p}.. => asm { ... }` over 1-3 base instructions each (operands: literal words, {param} \
         substituted textually - also with expression arguments such as `1 + 2` -, literals, block-local labels declared before or after their use, global labels incl. ones declared after \
         the call, sub-rule operands; nested macro calls to depth 3) and a program of 1-4 macro calls between global labels (one case in three: the caller's nested constants are named like the block labels and passed as `.blk0`; one in four: the program stands in a bank whose first address is not 0, sometimes with a labelalign; one in six: a string literal with runs of blanks or a tab is handed textually through one or two asm-block rules); the generator also produces the hand-inlined program (textual \
         substitution exactly as written, block labels renamed apart). Oracle: both assemble (default budget) to identical bits, or both fail. PART F (a third): 1-2 user functions \
         `#fn f(a, b) => body` with generated bodies over their parameters and global constants; `#d f(e1, e2)`64` must equal `#d (body[a:=(e1), b:=(e2)])`64` and the reference evaluator. \
         PART P (one in seven): a function whose body reads `$`, a later label or a non-static constant, called with literal arguments from instruction operands behind a short/long instruction family (so the layout moves after the first pass); the program must equal the one with the body substituted by hand. PART R (the rest): recursion through functions (self, mutual), asm-block rules and nested calls at depths 3..10 (must succeed with the right value) and 100..20000 (must be an error, \
         not a crash - a dying worker process is a violation). (v5, part M) tails over a family of rules of different widths for one text (`ldwq {x: u4}` / `{x: u8}` / `{x: u16}` declared in any order, called through one and two levels of asm blocks with literal arguments, each followed by a position-dependent instruction): the macro must pick the smallest accepting encoding exactly as the inlined lines do. (v4, part M) tails with string literals that SPELL a placeholder or hold a lone brace (`say3q \"{n}\", 3`; `lit3q {n} => asm { str3q \"}\", {n} }`; a comment with a brace inside a multi-line block): strings and comments are text, not structure. Non-trivial = (M) a block-local label is referenced or an argument is an expression of >= 2 tokens; (F) body depth >= 2; (R) depth >= 100."
            .to_string()
    }
    fn assumptions(&self) -> Vec<String> {
        vec![
            "only global labels follow a macro call (inlining a block label as a global label would re-parent later local labels)".into(),
            "typed macro parameters only receive in-range literals (an out-of-range argument is rejected by the macro rule itself, which the inlined program cannot mirror)".into(),
            "the exact depth at which recursion becomes an error (documented limit 25) is not asserted, only <= 10 succeeds and >= 100 is an error".into(),
        ]
    }
    fn crash_is_violation(&self) -> bool {
        true
    }
    fn tape_len(&self, _t: Tier) -> usize {
        500
    }
    fn enumerated(&self, _tier: Tier) -> u64 {
        3
    }
    /// directed probe: a macro whose inner instruction carries an assert on a forward global label.
    /// The block has no static size, the label's first guess is therefore 0, the assert fails on the
    /// guess, the block never resolves and the guess never improves.
    fn run_enumerated(&self, index: u64, ctx: &mut CaseCtx) -> Verdict {
        if index >= 1 {
            // round 11, directed probes 1 and 2: a LOCAL of a rule body (`y = 0x20 + x`) handed by value to a nested
            // asm-block rule that pastes its argument into a block of its own. In place of the call stands `emithq 0x22`.
            // (1: the nested rule has a local of the same name; 2: it has none)
            let inner = if index == 1 { "    innerq {x} =>\n    {\n        y = 0x10 + x\n        asm { emithq {x} }\n    }\n" } else { "    innerq {x} => asm { emithq {x} }\n" };
            let base = "#ruledef hygq\n{\n    emithq {x: i8} => x\n";
            let a = format!("{}{}    outerq {{x}} =>\n    {{\n        y = 0x20 + x\n        asm {{ innerq {{y}} }}\n    }}\n}}\nouterq 2\n", base, inner);
            let b = format!("{}}}\nemithq 0x20 + 2\n", base);
            ctx.set_hash_str(&a);
            ctx.nontrivial = true;
            ctx.label("probe:rule-local-through-two-asm-levels");
            ctx.want_render = true;
            ctx.render(|| json!({"macro_program": a, "inlined_program": b}));
            let oa = sut::assemble_src(&a, &Opts::default());
            let ob = sut::assemble_src(&b, &Opts::default());
            ctx.evals += 2;
            return match (&oa, &ob) {
                (AsmOutcome::Ok(x), AsmOutcome::Ok(y)) if x.bits == y.bits => Verdict::Pass,
                (AsmOutcome::Ok(_), AsmOutcome::Ok(_)) => Verdict::fail("rule-local-through-two-asm-levels|bits-differ", format!("macro program: {} ; hand-inlined program: {}", oa.brief(), ob.brief())),
                (AsmOutcome::Err(_), AsmOutcome::Ok(_)) => Verdict::fail("rule-local-through-two-asm-levels|macro-rejected-inlined-accepted", format!("macro program: {} ; hand-inlined program: {}", oa.brief(), ob.brief())),
                (_, AsmOutcome::Ok(_)) => Verdict::fail("rule-local-through-two-asm-levels|other", format!("macro program: {} ; hand-inlined program: {}", oa.brief(), ob.brief())),
                _ => Verdict::fail("probe-broken", format!("the inlined probe does not assemble: {}", ob.brief())),
            };
        }
        let rules = "    ld [{p0: u8}] => { assert(p0 != 0), 0x9 @ p0 @ 0x0 }\n";
        let a = format!("#ruledef\n{{\n{}    mac => asm {{ ld [gb] }}\n}}\nmac\ngb:\n", rules);
        let b = format!("#ruledef\n{{\n{}}}\nld [gb]\ngb:\n", rules);
        ctx.set_hash_str(&a);
        ctx.nontrivial = true;
        ctx.label("probe:assert-on-forward-label-in-block");
        ctx.want_render = true;
        ctx.render(|| json!({"macro_program": a, "inlined_program": b}));
        let oa = sut::assemble_src(&a, &Opts::default());
        let ob = sut::assemble_src(&b, &Opts::default());
        ctx.evals += 2;
        match (&oa, &ob) {
            (AsmOutcome::Ok(x), AsmOutcome::Ok(y)) if x.bits == y.bits => Verdict::Pass,
            (_, AsmOutcome::Ok(_)) => Verdict::fail("assert-on-forward-label-in-block|macro-differs-from-inlined", format!("macro program: {} ; hand-inlined program: {}", oa.brief(), ob.brief())),
            _ => Verdict::fail("probe-broken", format!("the inlined probe does not assemble: {}", ob.brief())),
        }
    }
    fn fuzz_runs(&self, _tier: Tier) -> u64 {
        6_000 // recursion probes make a case ~50 ms in the instrumented build
    }
    fn random_cases(&self, tier: Tier) -> u64 {
        tier.pick(80_000, 400_000)
    }
    fn run(&self, t: &mut Tape, ctx: &mut CaseCtx) -> Verdict {
        let w: [u32; 4] = if crate::engine::gen_version() >= 2 { [6, 4, 2, 2] } else { [6, 4, 2, 0] };
        match t.weighted(&w) {
            3 => {
                // PART P (v2): a function whose body reads the position / a label / a non-static constant, called
                // with literal arguments from an instruction operand, in a program whose layout moves after the
                // first pass (a short/long family in front of the call site). Must equal the substituted program.
                ctx.label("part:P");
                let k1 = *t.pick(&[4u64, 6, 8, 12, 16]);
                let isa = format!(
                    "#ruledef\n{{\n    ld {{x}} => {{ assert(x < {}), 0x11 @ x`8 }}\n    ld {{x}} => 0x12 @ x`24\n    jmp {{a}} => 0xee @ a`8\n    br {{a}} => 0xef @ (a - $)`8\n    nop => 0x00\n}}\n",
                    k1
                );
                let body_kind = t.draw(5);
                let (fdecl, body_of): (String, Box<dyn Fn(u32) -> String>) = match body_kind {
                    0 => ("#fn fpos(n) => $ + n\n".into(), Box::new(|n| format!("($ + {})", n))),
                    1 => ("#fn fpos(n) => fwd + n\n".into(), Box::new(|n| format!("(fwd + {})", n))),
                    2 => ("kdep = fwd + 1\n#fn fpos(n) => n + kdep\n".into(), Box::new(|n| format!("({} + kdep)", n))),
                    3 => ("#fn fpos(n) => n * 2 + 1\n".into(), Box::new(|n| format!("({} * 2 + 1)", n))),
                    _ => ("#fn fpos(n) => ($ + n) & 0xff\n".into(), Box::new(|n| format!("(($ + {}) & 0xff)", n))),
                };
                let mut a = isa.clone();
                a.push_str(&fdecl);
                let mut b = isa;
                if body_kind == 2 {
                    b.push_str("kdep = fwd + 1\n");
                }
                for _ in 0..t.urange(0, 4) {
                    let l = if t.chance(1, 4) { "nop\n" } else { "ld fwd\n" };
                    a.push_str(l);
                    b.push_str(l);
                }
                for _ in 0..t.urange(1, 3) {
                    let n = t.draw(5);
                    let m = *t.pick(&["jmp", "br", "ld"]);
                    a.push_str(&format!("{} fpos({})\n", m, n));
                    b.push_str(&format!("{} {}\n", m, body_of(n)));
                    if t.chance(1, 3) {
                        a.push_str("ld fwd\n");
                        b.push_str("ld fwd\n");
                    }
                }
                a.push_str("fwd:\njmp 0x55\n");
                b.push_str("fwd:\njmp 0x55\n");
                ctx.set_hash_str(&a);
                ctx.nontrivial = body_kind != 3;
                let render = || json!({"function_program": a, "substituted_program": b});
                ctx.render(render);
                let oa = sut::assemble_src(&a, &Opts::default());
                let ob = sut::assemble_src(&b, &Opts::default());
                ctx.evals += 2;
                ctx.label(if ob.ok().is_some() { "P:substituted-ok" } else { "P:substituted-error" });
                let res = match (&oa, &ob) {
                    (AsmOutcome::Panic(p), _) => Some((format!("P|panic {}", sut::panic_site(p)), p.clone())),
                    (AsmOutcome::Ok(x), AsmOutcome::Ok(y)) if x.bits == y.bits => None,
                    (AsmOutcome::Ok(x), AsmOutcome::Ok(y)) => Some(("P|call-in-operand-differs-from-substitution".to_string(), format!("calls: {} ; substituted: {}", sut::bits_hex(&x.bits), sut::bits_hex(&y.bits)))),
                    (other, AsmOutcome::Ok(y)) => Some(("P|call-rejected-substitution-accepted".to_string(), format!("calls: {} ; substituted: ok {}", other.brief(), sut::bits_hex(&y.bits)))),
                    _ => None, // the substituted program does not assemble: nothing is asserted
                };
                if let Some((c, d)) = res {
                    ctx.want_render = true;
                    ctx.render(render);
                    return Verdict::fail(c, d);
                }
                Verdict::Pass
            }
            0 => {
                ctx.label("part:M");
                let c = gen_macro_case(t);
                let a = render_macro_case(&c, false);
                let b = render_macro_case(&c, true);
                ctx.set_hash_str(&a);
                ctx.nontrivial = c.local_label_used || c.expr_arg;
                let _ = (&c.globals, c.forward_global);
                let render = || json!({"macro_program": a, "inlined_program": b});
                ctx.render(render);
                let oa = sut::assemble_src(&a, &Opts::default());
                let ob = sut::assemble_src(&b, &Opts::default());
                ctx.evals += 2;
                let key = |o: &AsmOutcome| match o {
                    AsmOutcome::Ok(ok) => format!("ok {}", sut::bits_hex(&ok.bits)),
                    AsmOutcome::Err(_) => "error".to_string(),
                    other => other.brief(),
                };
                ctx.label(if ob.ok().is_some() { "inlined:ok" } else { "inlined:error" });
                if c.macros.iter().any(|m| m.body.iter().any(|i| matches!(i, Inner::Call { args, .. } if args.iter().any(|a| matches!(a, InnerOp::BlockLabel(_)))))) {
                    ctx.label("shape:block-label-handed-to-nested-macro");
                }
                // the statement speaks about what writing the instructions in place WOULD produce: when the
                // hand-inlined program is itself rejected nothing is asserted (except that nothing crashes)
                let comparable = ob.ok().is_some() || matches!(oa, AsmOutcome::Panic(_) | AsmOutcome::Inconsistent { .. });
                if comparable && (key(&oa) != key(&ob) || matches!(oa, AsmOutcome::Panic(_) | AsmOutcome::Inconsistent { .. })) {
                    ctx.want_render = true;
                    ctx.render(render);
                    // input predicate of a listed finding: a macro that the program calls (directly or through
                    // another macro) hands one of its OWN block labels to a nested macro call
                    fn reaches(macros: &[Macro], mi: usize, seen: &mut Vec<usize>) -> bool {
                        if seen.contains(&mi) {
                            return false;
                        }
                        seen.push(mi);
                        macros[mi].body.iter().any(|inner| match inner {
                            Inner::Call { mac, args } => args.iter().any(|a| matches!(a, InnerOp::BlockLabel(_))) || reaches(macros, *mac, seen),
                            _ => false,
                        })
                    }
                    let label_to_nested = c.calls.iter().any(|(mi, _)| reaches(&c.macros, *mi, &mut Vec::new()));
                    // input predicate of another listed finding: the bank asks for aligned labels and a called macro
                    // declares a label in its block
                    fn has_label(macros: &[Macro], mi: usize, seen: &mut Vec<usize>) -> bool {
                        if seen.contains(&mi) {
                            return false;
                        }
                        seen.push(mi);
                        macros[mi].nlabels > 0 || macros[mi].body.iter().any(|inner| matches!(inner, Inner::Call { mac, .. } if has_label(macros, *mac, seen)))
                    }
                    let labelalign_block_label = a.contains("labelalign") && c.calls.iter().any(|(mi, _)| has_label(&c.macros, *mi, &mut Vec::new()));
                    let clause = match (&oa, &ob) {
                        (AsmOutcome::Panic(p), _) => format!("M|panic {}", sut::panic_site(p)),
                        _ if labelalign_block_label => "labelalign-and-block-label|macro-differs-from-inlined".to_string(),
                        _ if label_to_nested => "block-label-to-nested-macro|macro-differs-from-inlined".to_string(),
                        (AsmOutcome::Err(_), AsmOutcome::Ok(_)) => "M|macro-rejected-inlined-accepted".to_string(),
                        (AsmOutcome::Ok(_), AsmOutcome::Err(_)) => "M|macro-accepted-inlined-rejected".to_string(),
                        _ => "M|bits-differ".to_string(),
                    };
                    return Verdict::fail(clause, format!("macro program: {} ; hand-inlined program: {}", oa.brief(), ob.brief()));
                }
                Verdict::Pass
            }
            1 => {
                ctx.label("part:F");
                // functions
                let nf = t.urange(1, 2);
                let consts = vec![("ka".to_string(), Ty::Int), ("kb".to_string(), Ty::Sized)];
                let mut env: HashMap<String, V> = HashMap::new();
                env.insert("ka".into(), int(9));
                env.insert("kb".into(), sized(0x5a, 8));
                let mut src_a = String::from("ka = 9\nkb = 0x5a\n");
                let mut src_b = src_a.clone();
                let mut expected: Vec<Option<num_bigint::BigInt>> = Vec::new();
                let mut deep = false;
                let mut args_fail = false;
                let mut unspecified = false;
                for f in 0..nf {
                    let np = t.urange(0, 3);
                    let pnames: Vec<String> = (0..np).map(|k| format!("a{}", k)).collect();
                    let mut vars = consts.clone();
                    for p in &pnames {
                        vars.push((p.clone(), Ty::Int));
                    }
                    let g = ExprGen { vars: &vars, ill_typed_per_mille: 10, allow_quote_escape: true };
                    let d = t.urange(1, 4);
                    let body = g.gen(t, Ty::Int, d);
                    if depth(&body) >= 3 {
                        deep = true;
                    }
                    src_a.push_str(&format!("#fn f{}({}) => {}\n", f, pnames.join(", "), print(&body, false)));
                    for _ in 0..t.urange(1, 3) {
                        let g0 = ExprGen { vars: &consts, ill_typed_per_mille: 0, allow_quote_escape: true };
                        let args: Vec<E> = (0..np).map(|_| g0.gen(t, Ty::Int, 1)).collect();
                        let call = E::Call(format!("f{}", f), args.clone());
                        let map: HashMap<String, E> = pnames.iter().cloned().zip(args.iter().cloned()).collect();
                        let inl = subst(&body, &map);
                        src_a.push_str(&format!("#d ({})`64\n", print(&call, false)));
                        src_b.push_str(&format!("#d ({})`64\n", print(&inl, false)));
                        // arguments are bound by value: an argument that is itself an error makes the call an error
                        for a in &args {
                            match eval(a, &Env::of(&env)) {
                                Err(EvalErr::Unspecified(_)) => unspecified = true,
                                Err(_) => args_fail = true,
                                Ok(_) => {}
                            }
                        }
                        if matches!(eval(&inl, &Env::of(&env)), Err(EvalErr::Unspecified(_))) {
                            unspecified = true;
                        }
                        let sliced = E::SliceShort(Box::new(inl.clone()), Box::new(crate::gen::expr::lit_of(64)));
                        if matches!(eval(&sliced, &Env::of(&env)), Err(EvalErr::Unspecified(_))) {
                            unspecified = true;
                        }
                        expected.push(match eval(&inl, &Env::of(&env)) {
                            Ok(V::Int { v, .. }) => Some(mod_pow2(&v, 64)),
                            Ok(V::Str { s, enc }) => str_pattern(&s, enc).ok().map(|p| mod_pow2(&p.0, 64)),
                            _ => None,
                        });
                    }
                }
                ctx.set_hash_str(&src_a);
                ctx.nontrivial = deep;
                let render = || json!({"with_functions": src_a, "substituted": src_b});
                ctx.render(render);
                let oa = sut::assemble_src(&src_a, &Opts::default());
                let ob = sut::assemble_src(&src_b, &Opts::default());
                ctx.evals += 2;
                if unspecified {
                    ctx.excluded.push("unspecified-by-statement".into());
                    return Verdict::Pass;
                }
                let fail = match (&oa, &ob) {
                    (AsmOutcome::Err(_), _) if args_fail => None,
                    (AsmOutcome::Ok(_), _) if args_fail => Some(("F|erroneous-argument-accepted".to_string(), "an argument expression is an error, yet the call assembled".to_string())),
                    (AsmOutcome::Ok(x), AsmOutcome::Ok(y)) => {
                        if x.bits != y.bits {
                            Some(("F|call-differs-from-substitution".to_string(), format!("calls: {} ; substituted: {}", sut::bits_hex(&x.bits), sut::bits_hex(&y.bits))))
                        } else if expected.iter().all(|e| e.is_some()) {
                            let mut want = Vec::new();
                            for e in &expected {
                                let v = e.as_ref().unwrap();
                                for k in (0..64).rev() {
                                    want.push(v.bit(k));
                                }
                            }
                            if want != x.bits {
                                Some(("F|value-differs-from-reference".to_string(), format!("assembler {} ; reference {}", sut::bits_hex(&x.bits), sut::bits_hex(&want))))
                            } else {
                                None
                            }
                        } else {
                            None
                        }
                    }
                    (AsmOutcome::Err(_), AsmOutcome::Err(_)) => None,
                    (AsmOutcome::Panic(p), _) | (_, AsmOutcome::Panic(p)) => Some((format!("F|panic {}", sut::panic_site(p)), p.clone())),
                    (a, b) => Some(("F|one-side-fails".to_string(), format!("calls: {} ; substituted: {}", a.brief(), b.brief()))),
                };
                match fail {
                    None => Verdict::Pass,
                    Some((c, d)) => {
                        ctx.want_render = true;
                        ctx.render(render);
                        Verdict::fail(c, d)
                    }
                }
            }
            _ => {
                ctx.label("part:R");
                let kind = t.draw(4);
                let n: u64 = *t.pick(&[3u64, 5, 10, 100, 1000, 20000]);
                let (src, expect_value): (String, Option<u64>) = match kind {
                    0 => (format!("#fn r(n) => n == 0 ? 0 : r(n - 1) + 1\n#d64 r({})\n", n), Some(n)),
                    1 => (format!("#fn ev(n) => n == 0 ? 1 : od(n - 1)\n#fn od(n) => n == 0 ? 0 : ev(n - 1)\n#d64 ev({})\n", n), Some(if n % 2 == 0 { 1 } else { 0 })),
                    2 => (
                        // a rule that expands to itself with a smaller argument
                        format!("#ruledef\n{{\n    rep {{n}} => {{ assert(n == 0), 0x00 }}\n    rep {{n}} => {{ assert(n > 0), 0x01 @ asm {{ rep {{n}} - 1 }} }}\n}}\nrep {}\n", n),
                        None,
                    ),
                    _ => (format!("#ruledef\n{{\n    loop => asm {{ loop }}\n}}\nloop\n#d8 {}\n", n), None),
                };
                ctx.set_hash_str(&src);
                ctx.nontrivial = n >= 100;
                ctx.label(format!("depth:{}", n));
                let render = || json!({"source": src});
                ctx.render(render);
                let o = sut::assemble_src(&src, &Opts::default());
                ctx.evals += 1;
                let fail = match (&o, kind) {
                    (AsmOutcome::Panic(p), _) => Some((format!("R|panic {}", sut::panic_site(p)), p.clone())),
                    (AsmOutcome::Inconsistent { detail, .. }, _) => Some(("R|inconsistent".to_string(), detail.clone())),
                    (AsmOutcome::Ok(ok), 0 | 1) => {
                        let mut v = 0u64;
                        for b in &ok.bits {
                            v = (v << 1) | *b as u64;
                        }
                        if n >= 100 {
                            Some(("R|deep-recursion-accepted".to_string(), format!("recursion depth {} assembled", n)))
                        } else if Some(v) != expect_value {
                            Some(("R|wrong-value".to_string(), format!("depth {}: got {}, expected {:?}", n, v, expect_value)))
                        } else {
                            None
                        }
                    }
                    (AsmOutcome::Err(_), 0 | 1) if n <= 10 => Some(("R|shallow-recursion-rejected".to_string(), format!("recursion depth {}: {}", n, o.brief()))),
                    (AsmOutcome::Ok(_), 3) => Some(("R|infinite-recursion-accepted".to_string(), o.brief())),
                    (AsmOutcome::Ok(_), 2) if n >= 100 => Some(("R|deep-recursion-accepted".to_string(), o.brief())),
                    _ => None,
                };
                match fail {
                    None => Verdict::Pass,
                    Some((c, d)) => {
                        ctx.want_render = true;
                        ctx.render(render);
                        Verdict::fail(c, d)
                    }
                }
            }
        }
    }
}
