//! C08 — the two optimisation switches never change any result.

use crate::engine::sut::{self, AsmOutcome, MemFs, Opts};
use crate::engine::{CaseCtx, Property, Tape, Tier, Verdict};
use crate::gen::{corpus, mutate};
use crate::model::program::render;
use serde_json::json;

pub struct C08;

pub const BUDGETS: &[usize] = &[1, 2, 3, 10, 30];

/// a job: file set + root
pub struct Job {
    pub origin: String,
    pub files: Vec<(String, Vec<u8>)>,
    pub root: String,
    pub generated: bool,
}

/// v2: one generated job in five carries a command-line define (pseudo-file `@defines`, one `name=value` per line):
/// a constant `zdef` with a literal initialiser is appended to the root file, emitted by a data directive and
/// overridden from the command line
/// v4: constants whose value comes from a data file (statically known by the analysis, yet not computable before the
/// files are read), used by an instruction, by data directives, and not at all
pub fn gen_datafile_constants(t: &mut Tape) -> Job {
    let raw: Vec<u8> = (0..4).map(|_| t.draw(256) as u8).collect();
    let hex: String = (0..2 * t.urange(1, 4)).map(|_| *t.pick(&['0', '1', '7', '9', 'a', 'c', 'f'])).collect();
    let bin: String = (0..8).map(|_| if t.flip() { '1' } else { '0' }).collect();
    let mut src = String::from("#ruledef\n{\n    ldq {v: u32} => 0x10 @ v\n    ldh {v} => 0x11 @ v`8\n}\n");
    let early = t.flip();
    let decl = "magicq = incbin(\"d.bin\")\nhxq = inchexstr(\"t.txt\") + 1\nunusedq = incbinstr(\"b.txt\")\nslq = incbin(\"d.bin\")[15:8]\n";
    if early {
        src.push_str(decl);
    }
    for _ in 0..t.urange(1, 4) {
        src.push_str(*t.pick(&["ldq magicq\n", "#d32 magicq\n", "ldh hxq\n", "#d8 slq\n", "lblq:\n", "#d8 hxq`8\n"]));
    }
    if !early {
        src.push_str(decl);
    }
    Job {
        origin: "datafile-constants".into(),
        files: vec![("main.asm".into(), src.into_bytes()), ("d.bin".into(), raw), ("t.txt".into(), hex.into_bytes()), ("b.txt".into(), bin.into_bytes())],
        root: "main.asm".into(),
        generated: false,
    }
}

pub fn gen_job(t: &mut Tape) -> Job {
    if crate::engine::gen_version() >= 4 && t.chance(1, 12) {
        return gen_datafile_constants(t);
    }
    let mut job = gen_job_plain(t);
    if crate::engine::gen_version() >= 2 && job.generated && t.chance(1, 5) {
        let root = job.root.clone();
        if let Some(f) = job.files.iter_mut().find(|f| f.0 == root) {
            f.1.extend_from_slice(b"\nzdef = 0x22\n#d8 zdef\n");
            job.files.push(("@defines".into(), b"zdef=0x55".to_vec()));
            job.origin = format!("{}+define", job.origin);
        }
    }
    job
}

pub fn job_defines(job: &Job) -> Vec<(String, sut::DefVal)> {
    let mut out = Vec::new();
    for (n, b) in &job.files {
        if n == "@defines" {
            for l in String::from_utf8_lossy(b).lines() {
                if let Some((k, v)) = l.split_once('=') {
                    let v = v.trim();
                    let val = if let Some(h) = v.strip_prefix("0x") { i64::from_str_radix(h, 16).unwrap_or(0) } else { v.parse::<i64>().unwrap_or(0) };
                    out.push((k.trim().to_string(), sut::DefVal::Int(num_bigint::BigInt::from(val))));
                }
            }
        }
    }
    out
}

fn gen_job_plain(t: &mut Tape) -> Job {
    // v2: programs that mix functions, conditional arms, asm blocks, sub-rules, banks, assertions (no model needed
    // by the metamorphic checks that draw jobs from here)
    let w: [u32; 6] = if crate::engine::gen_version() >= 3 {
        [4, 2, 4, 4, 4, 2]
    } else if crate::engine::gen_version() >= 2 {
        [4, 2, 4, 4, 4, 0]
    } else {
        [4, 2, 4, 4, 0, 0]
    };
    match t.weighted(&w) {
        // v3: rules that reach one text from different prefix buckets of the matcher index (`j{c: cond} {a}` beside
        // `jl {a}`, `{r: reg}.set` beside `a.set`), with lines that tie or fail every candidate
        5 => crate::props::c10::gen_buckets(t),
        4 => {
            let src = crate::props::c03::feature_mix_program(t);
            Job { origin: "feature-mix".into(), files: vec![("main.asm".into(), src.into_bytes())], root: "main.asm".into(), generated: true }
        }
        3 => {
            let (prog, _) = crate::props::c02::gen_cascade(t, 22);
            let (src, _) = render(&prog);
            Job { origin: "cascade".into(), files: vec![("main.asm".into(), src.into_bytes())], root: "main.asm".into(), generated: true }
        }
        0 => {
            let (prog, _) = crate::props::c01::gen_case(t, 20, true, true);
            let (src, _) = render(&prog);
            Job { origin: "generated".into(), files: vec![("main.asm".into(), src.into_bytes())], root: "main.asm".into(), generated: true }
        }
        k => {
            let corp = corpus::corpus();
            let e = &corp[t.below(corp.len())];
            let mut files = e.files.clone();
            if k == 2 {
                let others: Vec<String> = (0..2)
                    .map(|_| {
                        let o = &corp[t.below(corp.len())];
                        o.files.iter().find(|f| f.0 == o.root).map(|f| String::from_utf8_lossy(&f.1).to_string()).unwrap_or_default()
                    })
                    .collect();
                let others_ref: Vec<&str> = others.iter().map(|s| s.as_str()).collect();
                let idx = files.iter().position(|f| f.0 == e.root).unwrap();
                let text = String::from_utf8_lossy(&files[idx].1).to_string();
                let m = mutate::mutate(t, &text, &others_ref, 5);
                files[idx].1 = m.bytes;
            }
            Job { origin: format!("corpus:{}{}", e.name, if k == 2 { " (mutated)" } else { "" }), files, root: e.root.clone(), generated: false }
        }
    }
}

pub fn outcome_key(o: &AsmOutcome) -> String {
    match o {
        AsmOutcome::Ok(ok) => format!("ok|{}|{}|{}", ok.bits.len(), sut::bits_hex(&ok.bits), ok.symbols),
        AsmOutcome::Err(_) => "error".to_string(),
        AsmOutcome::Inconsistent { detail, .. } => format!("inconsistent|{}", detail),
        AsmOutcome::Panic(p) => format!("panic|{}", sut::panic_site(p)),
    }
}

pub fn full_key(o: &AsmOutcome) -> String {
    match o {
        AsmOutcome::Ok(ok) => {
            let bits: String = ok.bits.iter().map(|b| if *b { '1' } else { '0' }).collect();
            format!("ok|{}|{}", bits, ok.symbols)
        }
        other => outcome_key(other),
    }
}

pub fn run_job(job: &Job, opts: &Opts) -> AsmOutcome {
    let mut fs = MemFs::from_files(&job.files);
    fs.add_std();
    let defines = job_defines(job);
    if defines.is_empty() {
        sut::assemble(&mut fs, &[&job.root], opts)
    } else {
        let mut o = opts.clone();
        o.defines.extend(defines);
        sut::assemble(&mut fs, &[&job.root], &o)
    }
}

/// whitespace inside a run of literal characters of an instruction line (input predicate of F9)
/// Input predicate of the known finding F9: the line on which the optimised matcher reports
/// "no match" splits, with a blank, the leading literal run (first <= 4 literal characters) of a
/// rule that matches the line once blanks are ignored.
pub fn ws_splits_leading_literals(job: &Job, file: &str, line_text: &str) -> bool {
    let _ = file;
    let mut heads: Vec<String> = Vec::new();
    for (n, b) in &job.files {
        if !n.ends_with(".asm") {
            continue;
        }
        let text = String::from_utf8_lossy(b);
        for l in text.lines() {
            if let Some(pos) = l.find("=>") {
                let pat = l[..pos].trim();
                let head: String = pat.chars().take_while(|c| !c.is_whitespace() && *c != '{').take(4).collect::<String>().to_ascii_lowercase();
                if !head.is_empty() {
                    heads.push(head);
                }
            }
        }
    }
    let line = line_text.trim_start();
    let squeezed: String = line.chars().filter(|c| !c.is_whitespace()).collect::<String>().to_ascii_lowercase();
    for h in heads {
        if squeezed.starts_with(&h) {
            // is there a blank among the first |h| non-blank characters of the line?
            let mut seen = 0;
            for c in line.chars() {
                if seen >= h.chars().count() {
                    break;
                }
                if c.is_whitespace() {
                    if seen > 0 {
                        return true;
                    }
                } else {
                    seen += 1;
                }
            }
        }
    }
    false
}

pub fn job_json(job: &Job) -> serde_json::Value {
    json!({"origin": job.origin, "root": job.root,
        "files": job.files.iter().filter(|f| f.0.ends_with(".asm")).take(4).map(|f| json!({"name": f.0, "text": String::from_utf8_lossy(&f.1)})).collect::<Vec<_>>()})
}

impl Property for C08 {
    fn id(&self) -> &'static str {
        "C08"
    }
    fn rule(&self) -> String {
        "each case = one job (a generated size-static program with banks/faults, a cascading program, a feature-mix program (functions, #if arms, asm blocks, sub-rules, banks, assertions, a user constant named `pc`), a program whose rules reach one text from different prefix buckets of the matcher index, a test-corpus program with its directory, or a token-mutated corpus program; one generated job in five carries a command-line define overriding an appended constant that a data directive emits) x iteration budgets \
         {1,2,3,10,30} x the four (optimize_statically_known, optimize_instruction_matching) combinations. Metamorphic oracle: for every budget the four runs agree on \
         success/failure and, on success, on every output bit and on the symbols text (diagnostic wording is not compared). Non-trivial = the job assembles under at least one \
         configuration and contains an instruction; distinct by hash of the file set."
            .to_string()
    }
    fn assumptions(&self) -> Vec<String> {
        vec!["in-process AssemblyOptions stand for the --debug-no-optimize-* flags (the flag plumbing itself is exercised by C18/C03 command lines)".into()]
    }
    fn tape_len(&self, _t: Tier) -> usize {
        420
    }
    fn fuzz_runs(&self, _tier: Tier) -> u64 {
        40_000
    }
    fn random_cases(&self, tier: Tier) -> u64 {
        tier.pick(60_000, 400_000)
    }
    fn run(&self, t: &mut Tape, ctx: &mut CaseCtx) -> Verdict {
        let job = gen_job(t);
        let mut h = 0u64;
        for f in &job.files {
            h = crate::engine::mix(h, crate::engine::fnv(&f.1));
        }
        ctx.hash = h;
        ctx.label(if job.generated { "src:generated" } else if job.origin.contains("mutated") { "src:mutated" } else { "src:corpus" });
        let mut any_ok = false;
        // all outcomes first: budget -> [(static, matcher, key, brief, convergence_error)]
        let mut table: Vec<(usize, Vec<(bool, bool, String, String, bool)>)> = Vec::new();
        let mut nomatch_lines: Vec<(String, String)> = Vec::new();
        for &budget in BUDGETS {
            let mut keys = Vec::new();
            for (st, mt) in [(true, true), (false, true), (true, false), (false, false)] {
                let o = run_job(&job, &Opts { max_iterations: budget, opt_static: st, opt_matcher: mt, defines: vec![] });
                ctx.evals += 1;
                if o.ok().is_some() {
                    any_ok = true;
                }
                let conv = match &o {
                    AsmOutcome::Err(msgs) => {
                        let mut all = Vec::new();
                        for m in msgs {
                            m.flatten(&mut all);
                        }
                        all.iter().filter(|m| m.kind == 'E').all(|m| m.descr.contains("did not converge") || m.descr.contains("failed to resolve") || m.descr.contains("unresolved"))
                            && all.iter().any(|m| m.descr.contains("did not converge"))
                    }
                    _ => false,
                };
                if let AsmOutcome::Err(msgs) = &o {
                    if mt {
                        for m in msgs {
                            let mut all = Vec::new();
                            m.flatten(&mut all);
                            for x in all {
                                if x.descr.contains("no match found for instruction") {
                                    if let (Some(f), Some(loc)) = (&x.file, x.loc) {
                                        if let Some(bytes) = job.files.iter().find(|ff| &ff.0 == f).map(|ff| &ff.1) {
                                            if loc.0 <= loc.1 && loc.1 <= bytes.len() {
                                                nomatch_lines.push((f.clone(), String::from_utf8_lossy(&bytes[loc.0..loc.1]).to_string()));
                                            }
                                        }
                                    }
                                }
                            }
                        }
                    }
                }
                keys.push((st, mt, full_key(&o), o.brief(), conv));
            }
            table.push((budget, keys));
        }
        let top = &table.last().unwrap().1;
        // a line anywhere in the job whose leading literal run is split by a blank (input predicate of the listed
        // matcher finding; the optimised matcher then reports "no match" or lets ANOTHER rule take the line)
        let ws_split_line = nomatch_lines.iter().any(|(f, l)| ws_splits_leading_literals(&job, f, l))
            || job.files.iter().filter(|f| f.0.ends_with(".asm")).any(|f| {
                String::from_utf8_lossy(&f.1).lines().any(|l| {
                    let lt = l.trim_start();
                    !lt.is_empty() && !lt.starts_with('#') && !lt.starts_with(';') && !l.contains("=>") && ws_splits_leading_literals(&job, &f.0, l)
                })
            });
        // the four configurations are compared along the four single-switch edges:
        // (static on/off at matcher on), (static on/off at matcher off), (matcher on/off at static on), (.. at static off)
        const EDGES: [(usize, usize, &str); 4] = [(0, 2, "matcher"), (1, 3, "matcher"), (0, 1, "static"), (2, 3, "static")];
        for (budget, keys) in &table {
            for (a, b, which) in EDGES {
                if keys[a].2 == keys[b].2 {
                    continue;
                }
                let clause = if which == "static" {
                    // "budget-starved": within ONE matcher setting the only difference is that the unoptimised resolver
                    // reports a pure convergence error where the optimised one already delivers exactly the result that
                    // both deliver under the largest budget
                    let (ta, tb) = (&top[a], &top[b]);
                    let starved = ta.2 == tb.2
                        && ta.2.starts_with("ok|")
                        && [&keys[a], &keys[b]].iter().all(|x| x.4 || x.2 == ta.2)
                        && (keys[a].4 || keys[b].4);
                    if std::env::var("VERIF_DEBUG").is_ok() {
                        eprintln!("edge {}-{} top={} keys={:?}", a, b, &ta.2[..ta.2.len().min(60)], keys.iter().map(|x| (x.0, x.1, x.4, x.2[..x.2.len().min(40)].to_string())).collect::<Vec<_>>());
                    }
                    if starved && !keys[a].4 {
                        // the configuration WITH the static optimisation is the one that still succeeds
                        "budget-starved|convergence-error-without-static-optimisation".to_string()
                    } else if starved {
                        "budget-starved|convergence-error:static".to_string()
                    } else {
                        "switch-changes-result:static".to_string()
                    }
                } else if ws_split_line {
                    "ws-splits-leading-literals|switch-changes-result:matcher".to_string()
                } else {
                    "switch-changes-result:matcher".to_string()
                };
                let detail = format!(
                    "budget {}: (static={}, matcher={}) -> {} ; (static={}, matcher={}) -> {}",
                    budget, keys[a].0, keys[a].1, keys[a].3, keys[b].0, keys[b].1, keys[b].3
                );
                if let Some(v) = ctx.judge(clause, detail) {
                    ctx.want_render = true;
                    ctx.render(|| job_json(&job));
                    return v;
                }
            }
        }
        let has_instr = job.files.iter().any(|f| f.0 == job.root && String::from_utf8_lossy(&f.1).contains("#ruledef"));
        ctx.nontrivial = any_ok && has_instr;
        ctx.label(if any_ok { "assembles" } else { "fails-everywhere" });
        ctx.label(format!("origin:{}:{}", job.origin.split(':').next().unwrap_or(""), if any_ok { "assembles" } else { "fails" }));
        ctx.render(|| job_json(&job));
        Verdict::Pass
    }
}
