//! C15 — symbols resolve lexically and independently of declaration order.

use crate::engine::sut::{self, Opts};
use crate::engine::{CaseCtx, Property, Tape, Tier, Verdict};
use crate::gen::expr::lit_of;
use crate::model::expr::*;
use crate::model::isa::*;
use crate::model::program::*;
use crate::model::refasm::{self, RefResult};
use serde_json::json;

pub struct C15;

const NAMES: [&[&str]; 4] = [&["ga", "gb", "gc", "gd"], &["x", "y", "z"], &["x", "m", "n"], &["x", "q"]];
/// v2: nested names may be spelled like the built-in symbols (`.pc`, `..incbin` are ordinary local symbols)
const NAMES_V2: [&[&str]; 4] = [&["ga", "gb", "gc", "gd"], &["x", "y", "z", "pc"], &["x", "m", "n", "pc", "incbin"], &["x", "q", "pc"]];

fn names(level: usize) -> &'static [&'static str] {
    if crate::engine::gen_version() >= 2 {
        NAMES_V2[level]
    } else {
        NAMES[level]
    }
}

/// spell a reference to the declared path `target` from a place whose scope chain is `ctx`
fn spell(t: &mut Tape, ctx: &[String], target: &[String]) -> String {
    let mut common = 0;
    while common < ctx.len() && common + 1 < target.len() && ctx[common] == target[common] {
        common += 1;
    }
    let k = if common > 0 && t.chance(3, 4) {
        let lo = if t.chance(1, 2) { common } else { 0 };
        t.urange(lo, common)
    } else {
        0
    };
    format!("{}{}", ".".repeat(k), target[k..].join("."))
}

pub struct ScopeCase {
    pub has_banks: bool,
    pub via_subrule: bool,
    pub prog: Program,
    pub moved: Option<Program>,
    pub fault: Option<&'static str>,
    pub reused_names: bool,
}

pub fn gen_scope(t: &mut Tape) -> ScopeCase {
    let n = t.urange(3, 18);
    let mut items: Vec<Item> = Vec::new();
    let mut ctx: Vec<String> = Vec::new();
    let mut declared: Vec<Vec<String>> = Vec::new();
    // plan: declarations first (so that forward references can be generated), references interleaved
    #[derive(Clone)]
    enum Plan {
        Decl { dots: usize, name: String, is_const: bool },
        Ref,
        GlobalConst,
    }
    let mut plan: Vec<Plan> = Vec::new();
    let mut depth = 0usize;
    let mut plan_ctx: Vec<String> = Vec::new();
    let mut plan_declared: std::collections::HashSet<Vec<String>> = std::collections::HashSet::new();
    for _ in 0..n {
        match t.weighted(&[5, 6, 1]) {
            0 => {
                let dots = if depth == 0 { 0 } else { t.urange(0, depth.min(3)) };
                let dots = if t.chance(1, 3) { depth.min(3) } else { dots };
                // avoid accidental duplicates (they are injected on purpose elsewhere)
                let mut name = t.pick(names(dots)).to_string();
                for _ in 0..4 {
                    let mut p: Vec<String> = plan_ctx[..dots.min(plan_ctx.len())].to_vec();
                    p.push(name.clone());
                    if !plan_declared.contains(&p) {
                        break;
                    }
                    name = format!("{}{}", t.pick(names(dots)), t.draw(3));
                }
                let mut p: Vec<String> = plan_ctx[..dots.min(plan_ctx.len())].to_vec();
                p.push(name.clone());
                if plan_declared.contains(&p) {
                    continue;
                }
                plan_declared.insert(p.clone());
                plan_ctx = p;
                plan.push(Plan::Decl { dots, name, is_const: t.chance(1, 3) });
                depth = dots + 1;
            }
            1 => plan.push(Plan::Ref),
            _ => {
                plan.push(Plan::GlobalConst);
                plan_ctx = vec![format!("k?")];
                depth = 1;
            }
        }
    }
    // pre-compute all declared paths (ignoring errors) for forward references
    {
        let mut c: Vec<String> = Vec::new();
        let mut kc = 0;
        for p in &plan {
            match p {
                Plan::Decl { dots, name, .. } => {
                    if *dots <= c.len() {
                        c.truncate(*dots);
                        c.push(name.clone());
                        declared.push(c.clone());
                    }
                }
                Plan::GlobalConst => {
                    declared.push(vec![format!("k{}", kc)]);
                    kc += 1;
                    c = vec![declared.last().unwrap()[0].clone()];
                }
                Plan::Ref => {}
            }
        }
    }
    let fault_at = if t.chance(1, 4) { Some(t.below(plan.len())) } else { None };
    let mut fault = None;
    let mut kc = 0;
    let mut reused = false;
    let mut global_consts: Vec<usize> = Vec::new();
    for (i, p) in plan.iter().enumerate() {
        let inject = fault_at == Some(i);
        match p {
            Plan::Decl { dots, name, is_const } => {
                let mut dots = *dots;
                if inject && t.flip() {
                    dots = ctx.len() + 1; // skips a nesting level
                    fault = Some("skipped-level");
                }
                if *is_const {
                    // value: literal, or another symbol (chains, any order) spelled with at most `dots` dots
                    let e = if !declared.is_empty() && t.chance(1, 2) {
                        let target = t.pick(&declared).clone();
                        let here: Vec<String> = ctx[..dots.min(ctx.len())].to_vec();
                        E::Bin(BinOp::Add, Box::new(E::Var(spell(t, &here, &target))), Box::new(lit_of(t.draw(9) as u64)))
                    } else {
                        lit_of(t.draw(200) as u64)
                    };
                    items.push(Item::Const { dots, name: name.clone(), e, noemit: false });
                } else {
                    items.push(Item::Label { dots, name: name.clone() });
                }
                if dots <= ctx.len() {
                    ctx.truncate(dots);
                    if declared.iter().filter(|d| d.last() == Some(name)).count() >= 2 {
                        reused = true;
                    }
                    ctx.push(name.clone());
                }
            }
            Plan::GlobalConst => {
                let name = format!("k{}", kc);
                kc += 1;
                let e = if kc > 1 && t.flip() { E::Bin(BinOp::Mul, Box::new(E::Var(format!("k{}", t.below(kc - 1)))), Box::new(lit_of(3))) } else { lit_of(t.draw(100) as u64) };
                global_consts.push(items.len());
                items.push(Item::Const { dots: 0, name: name.clone(), e, noemit: false });
                ctx = vec![name];
            }
            Plan::Ref => {
                let e = if inject && crate::engine::gen_version() >= 2 && !declared.is_empty() && t.flip() {
                    // v2: more leading dots than there are enclosing symbols, in front of a name that does exist
                    // in a shallower scope: still an unknown symbol by the rules
                    let globals: Vec<String> = declared.iter().filter(|d| d.len() == 1).map(|d| d[0].clone()).collect();
                    if !globals.is_empty() && t.chance(1, 2) {
                        // a dotted path through a parent that is not declared, ending in the name of a global:
                        // unknown, never bound to the global of that name
                        fault = Some("undeclared-parent");
                        let g = t.pick(&globals).clone();
                        let path = match t.draw(4) {
                            0 => format!("zzq.{}", g),
                            1 => format!("{}.zzq.{}", t.pick(&globals), g),
                            2 => format!(".zzq.{}", g),
                            _ => {
                                let target = t.pick(&declared).clone();
                                format!("{}.zzq.{}", target.join("."), g)
                            }
                        };
                        items.push(Item::Data { width: Some(32), elems: vec![E::Var(path)] });
                        continue;
                    }
                    fault = Some("too-many-dots");
                    let target = t.pick(&declared).clone();
                    let k = ctx.len() + 1 + t.draw(2) as usize;
                    let tail = if target.len() > 1 && t.flip() { target[target.len() - 2..].join(".") } else { target[target.len() - 1].clone() };
                    E::Var(format!("{}{}", ".".repeat(k), tail))
                } else if inject {
                    fault = Some("unknown-name");
                    // (v3: also a dotted path that merely STARTS like the built-in `pc`)
                    if crate::engine::gen_version() >= 3 {
                        E::Var(t.pick(&["nosuch", ".nosuch", "ga.nosuch", "...deep", "x", "pc.zzq", "pc.zzq.zzr"]).to_string())
                    } else {
                        E::Var(t.pick(&["nosuch", ".nosuch", "ga.nosuch", "...deep", "x"]).to_string())
                    }
                } else if declared.is_empty() {
                    lit_of(1)
                } else {
                    let target = t.pick(&declared).clone();
                    E::Var(spell(t, &ctx, &target))
                };
                items.push(Item::Data { width: Some(32), elems: vec![e] });
            }
        }
        if inject && fault.is_none() {
            // duplicate: declare the last declaration again
            if let Some(Item::Label { dots, name }) | Some(Item::Const { dots, name, .. }) = items.iter().rev().find(|x| matches!(x, Item::Label { .. } | Item::Const { .. })).cloned().as_ref() {
                if *dots <= ctx.len() {
                    items.push(Item::Label { dots: *dots, name: name.clone() });
                    fault = Some("duplicate");
                }
            }
        }
    }
    // v2: a long chain of constants each defined through the one declared AFTER it, used at the very start:
    // "used before they are declared with the same result as after", for more links than the resolver has passes
    let mut items = items;
    if crate::engine::gen_version() >= 2 && fault.is_none() && t.chance(1, 8) {
        // (v3: up to 30 links - twice the default iteration budget plus the links the main passes could add)
        let len = if crate::engine::gen_version() >= 3 { t.urange(6, 30) } else { t.urange(6, 16) };
        let mut chain: Vec<Item> = Vec::new();
        for k in 0..len {
            let e = if k + 1 < len { E::Bin(BinOp::Add, Box::new(E::Var(format!("zc{}", k + 1))), Box::new(lit_of(1))) } else { lit_of(t.draw(5) as u64) };
            chain.push(Item::Const { dots: 0, name: format!("zc{}", k), e, noemit: false });
        }
        // the chain stands at the end of the file (a global constant resets the scope: nothing follows it);
        // its head is read by the first item
        items.insert(0, Item::Data { width: Some(32), elems: vec![E::Var("zc0".into())] });
        for g in global_consts.iter_mut() {
            *g += 1;
        }
        items.extend(chain);
    }
    // v2: bank directives between declarations and uses. A bank switch declares nothing: the scope of the labels
    // before it stays open (one bank without a size, re-selected at random places: the layout does not change)
    let mut has_banks = false;
    let mut via_subrule = false;
    if crate::engine::gen_version() >= 2 && t.chance(1, 5) {
        has_banks = true;
        let mut at: Vec<usize> = (0..t.urange(1, 3)).map(|_| t.below(items.len() + 1)).collect();
        at.sort();
        for p in at.into_iter().rev() {
            items.insert(p, Item::Bank("zb".into()));
            for g in global_consts.iter_mut() {
                if *g >= p {
                    *g += 1;
                }
            }
        }
        items.insert(0, Item::BankDef(BankDef { name: "zb".into(), addr: Some(0), outp: Some(0), ..Default::default() }));
        for g in global_consts.iter_mut() {
            *g += 1;
        }
    }
    // v4: references made from inside a SUB-RULE operand of an instruction whose enclosing rule has an earlier parameter
    // spelled like one of the program's global symbols: `rq {ga: u8}, {src: opq} => src` used as `rq 0xa5, ga`. The operand
    // is the user's text: it names the global symbol, never the rule's parameter.
    let mut isa: Isa = Default::default();
    if crate::engine::gen_version() >= 4 && t.chance(1, 3) {
        let globals: Vec<String> = declared.iter().filter(|d| d.len() == 1).map(|d| d[0].clone()).collect();
        let pname = if globals.is_empty() { "ga".to_string() } else { t.pick(&globals).clone() };
        isa.subrules.push(SubRule {
            name: "opq".into(),
            alts: vec![SubAlt { op: POp::Param { name: "v".into(), ty: PType::U(32) }, prod: E::Var("v".into()), size: 32 }],
        });
        isa.blocks.push(RuleBlock {
            name: None,
            rules: vec![Rule {
                mnemonic: "rq".into(),
                ops: vec![
                    PatOp { wrap: Wrap::None, op: POp::Param { name: pname, ty: PType::U(8) } },
                    PatOp { wrap: Wrap::None, op: POp::Param { name: "src".into(), ty: PType::Sub(0) } },
                ],
                prod: E::Var("src".into()),
                size: 32,
            }],
        });
        for it in items.iter_mut() {
            if let Item::Data { width: Some(32), elems } = it {
                if elems.len() == 1 && matches!(elems[0], E::Var(_)) && t.chance(2, 3) {
                    let e = elems[0].clone();
                    *it = Item::Instr(Instr {
                        mnemonic: "rq".into(),
                        ops: vec![InsOp { wrap: Wrap::None, op: IOp::Expr(lit_of(0xa5)) }, InsOp { wrap: Wrap::None, op: IOp::Expr(e) }],
                    });
                    via_subrule = true;
                }
            }
        }
    }
    let prog = Program { isa: isa.clone(), items };
    // metamorphic variant: move the global address-free constants (k*) to the end or the start.
    // They reset the scope where they stand, so only those standing right before a global declaration
    // (or at either end) may move without changing what other references mean.
    let mut moved = None;
    let neutral: Vec<usize> = global_consts
        .iter()
        .copied()
        .filter(|&i| i + 1 == prog.items.len() || matches!(&prog.items[i + 1], Item::Label { dots: 0, .. } | Item::Const { dots: 0, .. }) )
        .collect();
    if !neutral.is_empty() && fault.is_none() {
        let mut items = prog.items.clone();
        let take: Vec<Item> = neutral.iter().map(|&i| items[i].clone()).collect();
        for &i in neutral.iter().rev() {
            items.remove(i);
        }
        if t.flip() {
            // to the end (reverse order: constants are order-independent)
            for it in take.into_iter().rev() {
                items.push(it);
            }
        } else {
            // to the very start is neutral only if the first remaining item is a global declaration
            if matches!(items.first(), Some(Item::Label { dots: 0, .. }) | Some(Item::Const { dots: 0, .. }) | None) {
                for it in take.into_iter() {
                    items.insert(0, it);
                }
            } else {
                for it in take.into_iter().rev() {
                    items.push(it);
                }
            }
        }
        moved = Some(Program { isa: isa.clone(), items });
    }
    ScopeCase { prog, moved, fault, reused_names: reused, has_banks, via_subrule }
}

/// C15/C16 border: the same program with runs of items that declare no GLOBAL symbol wrapped into selected
/// `#if` arms (a selected arm assembles as if written in place, so nested declarations inside it keep the
/// parent they would have in place, and references inside it resolve from the same scope chain).
/// Arms never contain a global declaration, and an arm with a declaration extends to the next global one
/// (the shapes of the listed C16 finding arm-global-then-outside-local).
pub fn wrap_in_ifs(t: &mut Tape, prog: &Program) -> Option<String> {
    let mut out = isa_text(&prog.isa);
    let mut i = 0;
    let mut wrapped = 0;
    let is_global = |it: &Item| matches!(it, Item::Label { dots: 0, .. } | Item::Const { dots: 0, .. });
    let mut plain = |out: &mut String, it: &Item, indent: bool| {
        if indent {
            out.push_str("    ");
        }
        out.push_str(&item_text(it));
        out.push('\n');
    };
    while i < prog.items.len() {
        if is_global(&prog.items[i]) {
            plain(&mut out, &prog.items[i], false);
            i += 1;
            continue;
        }
        let mut j = i;
        while j < prog.items.len() && !is_global(&prog.items[j]) {
            j += 1;
        }
        // an arm covering a random non-empty part [a, b) of the run
        let a = t.urange(i, j - 1);
        let mut b = t.urange(a + 1, j);
        // An arm that declares something must run up to the next global declaration: what follows a chain is
        // declared before the arm is spliced in, so a later sibling/child outside the arm would not see the arm's
        // declarations as its parent (same root cause as the listed C16 finding; kept out by construction).
        if prog.items[a..b].iter().any(|it| matches!(it, Item::Label { .. } | Item::Const { .. })) {
            b = j;
        }
        let wrap = t.chance(3, 4);
        for k in i..a {
            plain(&mut out, &prog.items[k], false);
        }
        if wrap {
            let cond = *t.pick(&["true", "1 == 1", "!false", "2 > 1"]);
            out.push_str(&format!("#if {}\n{{\n", cond));
            for k in a..b {
                plain(&mut out, &prog.items[k], true);
            }
            match t.draw(3) {
                0 => out.push_str("}\n"),
                1 => out.push_str("}\n#else\n{\n    #d32 0xdead\n    .zz_dead:\n}\n"),
                _ => out.push_str("}\n#elif true\n{\n    .zz_dead = 1\n}\n"),
            }
            wrapped += 1;
        } else {
            for k in a..b {
                plain(&mut out, &prog.items[k], false);
            }
        }
        for k in b..j {
            plain(&mut out, &prog.items[k], false);
        }
        i = j;
    }
    if wrapped > 0 {
        Some(out)
    } else {
        None
    }
}

impl Property for C15 {
    fn id(&self) -> &'static str {
        "C15"
    }
    fn rule(&self) -> String {
        "each case = a tree of labels and constants to depth 4 (names per level drawn from small pools so that local names repeat under different parents; constants open scopes like labels; \
         constant values are literals or other symbols + n in any declaration order) interleaved with `#d32 <reference>` items that name a declared symbol (also ones declared later) by a spelling \
         chosen from all valid ones (absolute dotted path, or k leading dots for any k up to the common prefix with the scope chain at the point of use), a quarter of the cases with one fault (unknown name, a reference with more leading dots than enclosing symbols in front of an existing name, a dotted path through an undeclared parent that ends in the name of a global, skipped nesting level, duplicate declaration); one case in five carries `#bank` directives between declarations and uses (a bank switch declares nothing), one in eight a reverse chain of 6-30 constants read by the first item. Oracle = R-SCOPE + R-LAYOUT: the reference resolves each reference and gives bits and symbol table, or rejects. \
         Metamorphic part: global address-free constants standing at scope-neutral positions are moved to the end/start of the file; the moved program must assemble to the same bits; \
         and runs of items that declare no global symbol are wrapped into selected #if / #else / #elif arms (dead arms hold decoys), which must give the same bits and symbol table. \
         Non-trivial = a name is declared under >= 2 parents and the case has >= 3 references; distinct by hash of the source. (v4) a third of the cases make two thirds of their references from inside a SUB-RULE operand: `rq {<name of a global of the case>: u8}, {src: opq} => src` used as `rq 0xa5, <reference>` - the operand is the user's text and names the symbol, never the rule's parameter."
            .to_string()
    }
    fn tape_len(&self, _t: Tier) -> usize {
        300
    }
    fn fuzz_runs(&self, _tier: Tier) -> u64 {
        40_000
    }
    fn random_cases(&self, tier: Tier) -> u64 {
        tier.pick(1_000_000, 5_000_000)
    }
    fn run(&self, t: &mut Tape, ctx: &mut CaseCtx) -> Verdict {
        let case = gen_scope(t);
        let (src, _) = render(&case.prog);
        ctx.set_hash_str(&src);
        let model = refasm::assemble(&case.prog);
        ctx.render(|| crate::props::c01::render_json(&case.prog, &model));
        match &model {
            RefResult::Invalid(w) => {
                ctx.excluded.push(format!("outside-model:{}", w.chars().take(30).collect::<String>()));
                return Verdict::Pass;
            }
            RefResult::Ok(_) => ctx.label("model:ok"),
            RefResult::Reject { class, .. } => ctx.label(format!("model:reject:{}", class)),
        }
        if let Some(f) = case.fault {
            ctx.label(format!("fault:{}", f));
        }
        if case.via_subrule {
            ctx.label("reference-inside-sub-rule-operand");
        }
        let nrefs = case.prog.items.iter().filter(|i| matches!(i, Item::Data { .. })).count();
        ctx.nontrivial = case.reused_names && nrefs >= 3;
        let out = sut::assemble_src(&src, &Opts::default());
        ctx.evals += 1;
        if let Some((c, d)) = crate::props::c01::compare(&model, &out) {
            ctx.want_render = true;
            ctx.render(|| crate::props::c01::render_json(&case.prog, &model));
            return Verdict::fail(c, d);
        }
        if let RefResult::Ok(m) = &model {
            if let Some(src3) = if crate::engine::gen_version() >= 2 && !case.has_banks { wrap_in_ifs(t, &case.prog) } else { None } {
                ctx.label("if-wrapped-variant");
                let out3 = sut::assemble_src(&src3, &Opts::default());
                ctx.evals += 1;
                let same = match &out3 {
                    sut::AsmOutcome::Ok(o3) => {
                        let mut want: Vec<(String, num_bigint::BigInt)> = m.symbols.clone();
                        let mut got: Vec<(String, num_bigint::BigInt)> = sut::parse_symbols(&o3.symbols);
                        want.sort();
                        got.sort();
                        o3.bits == m.bits && want == got
                    }
                    _ => false,
                };
                if !same {
                    ctx.want_render = true;
                    ctx.render(|| json!({"base": src, "wrapped": src3}));
                    return Verdict::fail(
                        "declarations-inside-selected-if-arm-resolve-differently",
                        format!("base: ok {} ; with runs of local declarations/references inside selected #if arms: {}", sut::bits_hex(&m.bits), out3.brief()),
                    );
                }
            }
        }
        if let (Some(mv), RefResult::Ok(m)) = (&case.moved, &model) {
            ctx.label("moved-variant");
            let (src2, _) = render(mv);
            let out2 = sut::assemble_src(&src2, &Opts::default());
            ctx.evals += 1;
            let same = match &out2 {
                sut::AsmOutcome::Ok(o2) => o2.bits == m.bits,
                _ => false,
            };
            if !same {
                // make sure the move really was neutral according to the rules
                if let RefResult::Ok(m2) = refasm::assemble(mv) {
                    if m2.bits == m.bits {
                        ctx.want_render = true;
                        ctx.render(|| json!({"base": src, "moved": src2}));
                        return Verdict::fail("moving-a-constant-changes-result", format!("base: ok {} ; moved: {}", sut::bits_hex(&m.bits), out2.brief()));
                    }
                }
            }
        }
        Verdict::Pass
    }
}
