//! C01 — assembled bits equal the language definition (size-static programs).

use crate::engine::sut::{self, AsmOutcome, Opts};
use crate::engine::{CaseCtx, Property, Tape, Tier, Verdict};
use crate::gen::isa::IsaGen;
use crate::gen::program::{ProgGen, ProgInfo};
use crate::model::isa::*;
use crate::model::program::*;
use crate::model::refasm::{self, RefResult};
use num_bigint::BigInt;
use serde_json::json;
use std::collections::HashMap;

pub struct C01;

pub fn gen_case(t: &mut Tape, max_items: usize, allow_banks: bool, allow_faults: bool) -> (Program, ProgInfo) {
    let isa = IsaGen { size_static: true, asserts: true }.gen(t);
    ProgGen { max_items, allow_banks, allow_faults, family_bias: false }.gen(t, isa)
}

/// rules sharing a mnemonic or a mnemonic prefix
pub fn isa_has_overlap(isa: &Isa) -> bool {
    let mns: Vec<String> = isa.blocks.iter().flat_map(|b| b.rules.iter().map(|r| r.mnemonic.to_ascii_lowercase())).collect();
    for i in 0..mns.len() {
        for j in 0..mns.len() {
            if i != j && (mns[i] == mns[j] || mns[j].starts_with(&mns[i])) {
                return true;
            }
        }
    }
    false
}

/// does some instruction reference a symbol that is declared later?
pub fn has_forward_ref(p: &Program) -> bool {
    let text: Vec<String> = p.items.iter().map(item_text).collect();
    for (i, it) in p.items.iter().enumerate() {
        if let Item::Label { name, .. } = it {
            for j in 0..i {
                if matches!(p.items[j], Item::Instr(_) | Item::Data { .. }) && text[j].contains(name.as_str()) {
                    return true;
                }
            }
        }
    }
    false
}

/// compare an assembly of the rendered program with the reference result
pub fn compare(model: &RefResult, out: &AsmOutcome) -> Option<(String, String)> {
    match (model, out) {
        (RefResult::Invalid(_), _) => None,
        (_, AsmOutcome::Panic(p)) => Some((format!("panic {}", sut::panic_site(p)), format!("panic: {}", p))),
        (_, AsmOutcome::Inconsistent { detail, .. }) => Some(("inconsistent-result".into(), detail.clone())),
        (RefResult::Ok(m), AsmOutcome::Ok(o)) => {
            if m.bits != o.bits {
                let first = m.bits.iter().zip(o.bits.iter()).position(|(a, b)| a != b);
                return Some((
                    "bits-differ".into(),
                    format!(
                        "model {} bits {} / assembler {} bits {} (first difference at bit {:?})",
                        m.bits.len(),
                        sut::bits_hex(&m.bits),
                        o.bits.len(),
                        sut::bits_hex(&o.bits),
                        first
                    ),
                ));
            }
            let got: HashMap<String, BigInt> = sut::parse_symbols(&o.symbols).into_iter().collect();
            let want: HashMap<String, BigInt> = m.symbols.iter().cloned().collect();
            if got != want {
                let mut diff = Vec::new();
                for (k, v) in &want {
                    if got.get(k) != Some(v) {
                        diff.push(format!("{}: model {} assembler {:?}", k, v, got.get(k)));
                    }
                }
                for k in got.keys() {
                    if !want.contains_key(k) {
                        diff.push(format!("{}: not in model", k));
                    }
                }
                diff.sort();
                return Some(("symbols-differ".into(), diff.join("; ")));
            }
            None
        }
        (RefResult::Ok(_), AsmOutcome::Err(msgs)) => Some(("valid-program-rejected".into(), format!("model accepts, assembler: {}", sut::first_error_text(msgs)))),
        (RefResult::Reject { class, detail, item }, AsmOutcome::Ok(o)) => Some((
            format!("invalid-program-accepted:{}", class),
            format!("the rules reject item {} ({}: {}), assembler produced {} bits {}", item, class, detail, o.bits.len(), sut::bits_hex(&o.bits)),
        )),
        (RefResult::Reject { .. }, AsmOutcome::Err(_)) => None,
    }
}

pub fn render_json(p: &Program, model: &RefResult) -> serde_json::Value {
    let (src, _) = render(p);
    json!({
        "source": src,
        "model": match model {
            RefResult::Ok(m) => format!("ok {} bits {}", m.bits.len(), sut::bits_hex(&m.bits)),
            RefResult::Reject { item, class, detail } => format!("reject item {} {}: {}", item, class, detail),
            RefResult::Invalid(w) => format!("outside the model: {}", w),
        },
    })
}

/// v4: a directed family with fixed instruction sizes whose encodings depend on the POSITION through a user function
/// and through a pseudo-instruction (an asm block that pushes its own return address):
///     #fn relq(t) => t - $ - 2
///     jrq {t: u16} => 0x18 @ relq(t)`8        callq {a: u16} => asm { pushq retq / jmpq {a} / retq: }
/// Every size is known without any value (callq 6 bytes, jrq 2, nopq 1), so the reference is a direct computation:
/// addresses by summing sizes, then each encoding "applied to its evaluated arguments at its own address".
fn run_position_function(t: &mut Tape, ctx: &mut CaseCtx) -> Verdict {
    #[derive(Clone, Copy)]
    enum It {
        Call(usize),
        JrConst,
        JrLabel(usize),
        Nop,
        Label(usize),
    }
    let nlab = t.urange(1, 4);
    let n = t.urange(3, 12);
    let mut items: Vec<It> = Vec::new();
    for _ in 0..n {
        items.push(match t.weighted(&[3, 4, 2, 2]) {
            0 => It::Call(t.below(nlab)),
            1 => It::JrConst,
            2 => It::JrLabel(t.below(nlab)),
            _ => It::Nop,
        });
    }
    for l in 0..nlab {
        let at = t.below(items.len() + 1);
        items.insert(at, It::Label(l));
    }
    let reset: u64 = *t.pick(&[0x40u64, 0x10, 0x7f, 0x00]);
    let via_rule = t.flip();
    let mut src = String::from("#fn relq(t) => t - $ - 2\n#ruledef\n{\n    nopq => 0x00\n    pushq {v: u16} => 0x68 @ v\n    jmpq {a: u16} => 0x4c @ a\n");
    if via_rule {
        src.push_str("    jrq {t: u16} => 0x18 @ relq(t)`8\n");
    } else {
        src.push_str("    jrq {t} => 0x18 @ t`8\n");
    }
    src.push_str("    callq {a: u16} => asm\n    {\n        pushq retq\n        jmpq {a}\n        retq:\n    }\n}\nRESETQ = ");
    src.push_str(&format!("{:#06x}\n", reset));
    let jr = |target: &str| if via_rule { format!("jrq {}\n", target) } else { format!("jrq relq({})\n", target) };
    // layout
    let mut addr = 0u64;
    let mut lab_addr = vec![0u64; nlab];
    let mut addrs = Vec::new();
    for it in &items {
        addrs.push(addr);
        match it {
            It::Call(_) => addr += 6,
            It::JrConst | It::JrLabel(_) => addr += 2,
            It::Nop => addr += 1,
            It::Label(l) => lab_addr[*l] = addr,
        }
    }
    let mut want: Vec<u8> = Vec::new();
    for (it, a) in items.iter().zip(addrs.iter()) {
        match it {
            It::Call(l) => {
                src.push_str(&format!("callq lq{}\n", l));
                let ret = a + 6;
                want.extend([0x68, (ret >> 8) as u8, ret as u8, 0x4c, (lab_addr[*l] >> 8) as u8, lab_addr[*l] as u8]);
            }
            It::JrConst => {
                src.push_str(&jr("RESETQ"));
                want.extend([0x18, (reset as i64 - *a as i64 - 2) as u8]);
            }
            It::JrLabel(l) => {
                src.push_str(&jr(&format!("lq{}", l)));
                want.extend([0x18, (lab_addr[*l] as i64 - *a as i64 - 2) as u8]);
            }
            It::Nop => {
                src.push_str("nopq\n");
                want.push(0);
            }
            It::Label(l) => src.push_str(&format!("lq{}:\n", l)),
        }
    }
    ctx.set_hash_str(&src);
    ctx.label("position-function-family");
    let call_before_const_jump = items.iter().position(|i| matches!(i, It::Call(_))).zip(items.iter().rposition(|i| matches!(i, It::JrConst))).map(|(c, j)| c < j).unwrap_or(false);
    if call_before_const_jump {
        ctx.label("position-function-family:constant-target-behind-pseudo-instruction");
    }
    ctx.nontrivial = call_before_const_jump;
    let want_bits: Vec<bool> = want.iter().flat_map(|b| (0..8).rev().map(move |k| (b >> k) & 1 == 1)).collect();
    ctx.render(|| json!({"source": src, "model": format!("ok {} bits {}", want_bits.len(), sut::bits_hex(&want_bits))}));
    let out = sut::assemble_src(&src, &Opts::default());
    ctx.evals += 1;
    let fail = |c: &str, d: String, ctx: &mut CaseCtx| {
        ctx.want_render = true;
        ctx.render(|| json!({"source": src, "model": format!("ok {} bits {}", want_bits.len(), sut::bits_hex(&want_bits))}));
        Verdict::fail(format!("position-function|{}", c), d)
    };
    match &out {
        sut::AsmOutcome::Ok(ok) if ok.bits == want_bits => Verdict::Pass,
        sut::AsmOutcome::Ok(ok) => {
            let at = ok.bits.iter().zip(want_bits.iter()).position(|(a, b)| a != b);
            fail("bits-differ", format!("model {} / assembler {} (first difference at bit {:?})", sut::bits_hex(&want_bits), sut::bits_hex(&ok.bits), at), ctx)
        }
        other => fail("valid-program-rejected", other.brief(), ctx),
    }
}

/// v5 (round 11): a directed family around the WORD boundary of a mnemonic. For every pair there is a rule with an
/// expression operand (`ldx {v: u8}`), a constant (`a = 6`) and a second rule whose mnemonic is the first one with the
/// constant's name glued on (`ldxa`), mnemonic plus name at most four characters long. `ldx a` is the first rule applied
/// to the constant, `ldxa` is the second one: the blank ends the mnemonic. Sizes are fixed (2 bytes / 1 byte), the
/// reference is a direct computation. (Beyond four characters the pinned tree reads `push x` as `pushx`: the matcher
/// design question recorded under C08, see DESIGN section 7.2; those lengths are not generated.)
fn run_split_word(t: &mut Tape, ctx: &mut CaseCtx) -> Verdict {
    const FIRST: &[char] = &['b', 'd', 'f', 'g', 'h', 'j', 'k', 'm'];
    const REST: &[char] = &['c', 'n', 'q', 'r', 't', 'v', 'w', 'x', 'z'];
    let npairs = t.urange(1, 4);
    let mut firsts: Vec<char> = FIRST.to_vec();
    for i in (1..firsts.len()).rev() {
        let j = t.below(i + 1);
        firsts.swap(i, j);
    }
    let mut rules: Vec<String> = Vec::new();
    let mut consts = String::new();
    let mut pairs: Vec<(String, String, u8, u8, u8)> = Vec::new();
    for k in 0..npairs {
        let m = t.urange(1, 3);
        let sl = t.urange(1, 4 - m);
        let mut mn = String::new();
        mn.push(firsts[k]);
        for _ in 1..m {
            mn.push(*t.pick(REST));
        }
        // the constant's name starts with a letter no mnemonic starts with
        let mut name = String::new();
        for _ in 0..sl {
            name.push(*t.pick(REST));
        }
        if pairs.iter().any(|p| p.1 == name) {
            continue;
        }
        let (op1, op2, val) = (0x10 + k as u8, 0x80 + k as u8, t.below(256) as u8);
        rules.push(format!("    {} {{v: u8}} => 0x{:02x} @ v\n", mn, op1));
        rules.push(format!("    {}{} => 0x{:02x}\n", mn, name, op2));
        consts.push_str(&format!("{} = {}\n", name, val));
        pairs.push((mn, name, op1, op2, val));
    }
    for i in (1..rules.len()).rev() {
        let j = t.below(i + 1);
        rules.swap(i, j);
    }
    let mut src = format!("#ruledef\n{{\n{}}}\n{}", rules.concat(), consts);
    let mut want: Vec<u8> = Vec::new();
    let n = t.urange(2, 10);
    for _ in 0..n {
        let (mn, name, op1, op2, val) = &pairs[t.below(pairs.len())];
        match t.weighted(&[5, 3, 2]) {
            0 => {
                let gap = *t.pick(&[" ", " ", "  ", "\t"]);
                src.push_str(&format!("{}{}{}\n", mn, gap, name));
                want.extend([*op1, *val]);
            }
            1 => {
                src.push_str(&format!("{}{}\n", mn, name));
                want.push(*op2);
            }
            _ => {
                let lit = t.below(256) as u8;
                src.push_str(&format!("{} {}\n", mn, lit));
                want.extend([*op1, lit]);
            }
        }
    }
    ctx.set_hash_str(&src);
    ctx.label("split-word-family");
    ctx.nontrivial = true;
    let want_bits: Vec<bool> = want.iter().flat_map(|b| (0..8).rev().map(move |k| (b >> k) & 1 == 1)).collect();
    ctx.render(|| json!({"source": src, "model": format!("ok {} bits {}", want_bits.len(), sut::bits_hex(&want_bits))}));
    let out = sut::assemble_src(&src, &Opts::default());
    ctx.evals += 1;
    let fail = |c: &str, d: String, ctx: &mut CaseCtx| {
        ctx.want_render = true;
        ctx.render(|| json!({"source": src, "model": format!("ok {} bits {}", want_bits.len(), sut::bits_hex(&want_bits))}));
        Verdict::fail(format!("split-word|{}", c), d)
    };
    match &out {
        sut::AsmOutcome::Ok(ok) if ok.bits == want_bits => Verdict::Pass,
        sut::AsmOutcome::Ok(ok) => {
            let at = ok.bits.iter().zip(want_bits.iter()).position(|(a, b)| a != b);
            fail("bits-differ", format!("model {} / assembler {} (first difference at bit {:?})", sut::bits_hex(&want_bits), sut::bits_hex(&ok.bits), at), ctx)
        }
        other => fail("valid-program-rejected", other.brief(), ctx),
    }
}

impl Property for C01 {
    fn id(&self) -> &'static str {
        "C01"
    }
    fn rule(&self) -> String {
        "each case = a generated size-static instruction set (1-4 rule blocks, 0-2 sub-rule blocks, 3-14 rules, mnemonics sharing prefixes, literal/typed/untyped/ \
         sub-rule operands, [ ] ( ) # wrappers, productions of concatenated/sliced/little-endian/position-relative fields and assert blocks; ~40% of the rules are \
         variants of an earlier rule so that several rules match the same text) x a generated program (global and nested labels with forward and backward references, \
         constant chains, address-dependent constants, operands at every type boundary, #d/#dN of widths 1..64, strings, #res, #align, forward #addr, 0-3 banks with \
         units 4..32), one fifth with one injected fault (unknown mnemonic, operand count, wrapper, undefined symbol). Oracle = reference assembler R-ASM (structural \
         matcher + layout + R-EXPR): success iff the model succeeds, then identical bits (length included) and identical symbol table; model-reject => the assembler must \
         report an error and produce no output. Non-trivial = >= 3 instructions, >= 1 operand naming a label or constant, and two rules sharing a mnemonic (prefix); distinct by hash of the rendered source. (v4) one case in twelve is the directed position-function family: `#fn relq(t) => t - $ - 2`, `jrq` through it (in the production or in the operand), a pseudo-instruction `callq {a} => asm { pushq retq / jmpq {a} / retq: }`, fixed sizes (6/2/1 bytes); the reference is computed directly: addresses by summing sizes, every encoding applied to its arguments at its own address. (v5) one case in sixteen is the directed split-word family: pairs of rules `ldx {v: u8}` / `ldxa` with a constant `a` (mnemonic plus name at most four characters), lines `ldx a`, `ldx<TAB>a`, `ldxa`, `ldx 7` in any order with the rules shuffled; the blank ends the mnemonic, sizes are fixed, the reference is computed directly."
            .to_string()
    }
    fn assumptions(&self) -> Vec<String> {
        vec![
            "generated shapes keep the token reading of a line unique (operands are words, expressions without top-level commas, or wrapped), so the structural matcher coincides with the language's character-level matching".into(),
            "programs for which the model cannot fix sizes before values (not size-static) are discarded and counted under excluded_by_construction".into(),
        ]
    }
    fn tape_len(&self, _t: Tier) -> usize {
        420
    }
    fn fuzz_runs(&self, _tier: Tier) -> u64 {
        40_000
    }
    fn random_cases(&self, tier: Tier) -> u64 {
        tier.pick(600_000, 3_000_000)
    }
    fn run(&self, t: &mut Tape, ctx: &mut CaseCtx) -> Verdict {
        if crate::engine::gen_version() >= 4 && t.chance(1, 12) {
            return run_position_function(t, ctx);
        }
        if crate::engine::gen_version() >= 5 && t.chance(1, 16) {
            return run_split_word(t, ctx);
        }
        let (prog, info) = gen_case(t, 24, true, true);
        let (src, _) = render(&prog);
        ctx.set_hash_str(&src);
        let model = refasm::assemble(&prog);
        ctx.render(|| render_json(&prog, &model));
        match &model {
            RefResult::Invalid(w) => {
                ctx.excluded.push(format!("outside-model:{}", w.split(':').next().unwrap_or("").chars().take(40).collect::<String>()));
                ctx.label("model:invalid");
                return Verdict::Pass;
            }
            RefResult::Ok(_) => ctx.label("model:ok"),
            RefResult::Reject { class, .. } => ctx.label(format!("model:reject:{}", class)),
        }
        if let Some(f) = info.fault {
            ctx.label(format!("fault:{}", f));
        }
        if info.banks > 0 {
            ctx.label("banks");
        }
        if info.nested_labels {
            ctx.label("nested-labels");
        }
        if prog.isa.subrules.iter().any(|sr| sr.alts.iter().any(|a| matches!(a.op, crate::model::isa::POp::Param { ty: crate::model::isa::PType::Sub(_), .. }))) {
            ctx.label("nested-subrule");
        }
        if prog.items.iter().any(|it| matches!(it, Item::Label { dots, .. } if *dots >= 2)) {
            ctx.label("labels-depth>=3");
        }
        let fwd = has_forward_ref(&prog);
        if fwd {
            ctx.label("forward-ref");
        }
        ctx.nontrivial = info.n_instr >= 3 && info.symbol_operands >= 1 && isa_has_overlap(&prog.isa);
        let out = sut::assemble_src(&src, &Opts::default());
        ctx.evals += 1;
        match compare(&model, &out) {
            None => Verdict::Pass,
            Some((clause, detail)) => {
                ctx.want_render = true;
                ctx.render(|| render_json(&prog, &model));
                Verdict::fail(clause, detail)
            }
        }
    }
}
