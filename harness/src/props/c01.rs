//! C01 — assembled bits equal the language definition (size-static programs).

use crate::engine::sut::{self, AsmOutcome, Opts};
use crate::engine::{CaseCtx, Property, Tape, Tier, Verdict};
use crate::gen::isa::IsaGen;
use crate::gen::program::{ProgGen, ProgInfo};
use crate::model::isa::*;
use crate::model::program::*;
use crate::model::refasm::{self, RefResult};
use num_bigint::BigInt;
use serde_json::json;
use std::collections::HashMap;

pub struct C01;

pub fn gen_case(t: &mut Tape, max_items: usize, allow_banks: bool, allow_faults: bool) -> (Program, ProgInfo) {
    let isa = IsaGen { size_static: true, asserts: true }.gen(t);
    ProgGen { max_items, allow_banks, allow_faults, family_bias: false }.gen(t, isa)
}

/// rules sharing a mnemonic or a mnemonic prefix
pub fn isa_has_overlap(isa: &Isa) -> bool {
    let mns: Vec<String> = isa.blocks.iter().flat_map(|b| b.rules.iter().map(|r| r.mnemonic.to_ascii_lowercase())).collect();
    for i in 0..mns.len() {
        for j in 0..mns.len() {
            if i != j && (mns[i] == mns[j] || mns[j].starts_with(&mns[i])) {
                return true;
            }
        }
    }
    false
}

/// does some instruction reference a symbol that is declared later?
pub fn has_forward_ref(p: &Program) -> bool {
    let text: Vec<String> = p.items.iter().map(item_text).collect();
    for (i, it) in p.items.iter().enumerate() {
        if let Item::Label { name, .. } = it {
            for j in 0..i {
                if matches!(p.items[j], Item::Instr(_) | Item::Data { .. }) && text[j].contains(name.as_str()) {
                    return true;
                }
            }
        }
    }
    false
}

/// compare an assembly of the rendered program with the reference result
pub fn compare(model: &RefResult, out: &AsmOutcome) -> Option<(String, String)> {
    match (model, out) {
        (RefResult::Invalid(_), _) => None,
        (_, AsmOutcome::Panic(p)) => Some((format!("panic {}", sut::panic_site(p)), format!("panic: {}", p))),
        (_, AsmOutcome::Inconsistent { detail, .. }) => Some(("inconsistent-result".into(), detail.clone())),
        (RefResult::Ok(m), AsmOutcome::Ok(o)) => {
            if m.bits != o.bits {
                let first = m.bits.iter().zip(o.bits.iter()).position(|(a, b)| a != b);
                return Some((
                    "bits-differ".into(),
                    format!(
                        "model {} bits {} / assembler {} bits {} (first difference at bit {:?})",
                        m.bits.len(),
                        sut::bits_hex(&m.bits),
                        o.bits.len(),
                        sut::bits_hex(&o.bits),
                        first
                    ),
                ));
            }
            let got: HashMap<String, BigInt> = sut::parse_symbols(&o.symbols).into_iter().collect();
            let want: HashMap<String, BigInt> = m.symbols.iter().cloned().collect();
            if got != want {
                let mut diff = Vec::new();
                for (k, v) in &want {
                    if got.get(k) != Some(v) {
                        diff.push(format!("{}: model {} assembler {:?}", k, v, got.get(k)));
                    }
                }
                for k in got.keys() {
                    if !want.contains_key(k) {
                        diff.push(format!("{}: not in model", k));
                    }
                }
                diff.sort();
                return Some(("symbols-differ".into(), diff.join("; ")));
            }
            None
        }
        (RefResult::Ok(_), AsmOutcome::Err(msgs)) => Some(("valid-program-rejected".into(), format!("model accepts, assembler: {}", sut::first_error_text(msgs)))),
        (RefResult::Reject { class, detail, item }, AsmOutcome::Ok(o)) => Some((
            format!("invalid-program-accepted:{}", class),
            format!("the rules reject item {} ({}: {}), assembler produced {} bits {}", item, class, detail, o.bits.len(), sut::bits_hex(&o.bits)),
        )),
        (RefResult::Reject { .. }, AsmOutcome::Err(_)) => None,
    }
}

pub fn render_json(p: &Program, model: &RefResult) -> serde_json::Value {
    let (src, _) = render(p);
    json!({
        "source": src,
        "model": match model {
            RefResult::Ok(m) => format!("ok {} bits {}", m.bits.len(), sut::bits_hex(&m.bits)),
            RefResult::Reject { item, class, detail } => format!("reject item {} {}: {}", item, class, detail),
            RefResult::Invalid(w) => format!("outside the model: {}", w),
        },
    })
}

impl Property for C01 {
    fn id(&self) -> &'static str {
        "C01"
    }
    fn rule(&self) -> String {
        "each case = a generated size-static instruction set (1-4 rule blocks, 0-2 sub-rule blocks, 3-14 rules, mnemonics sharing prefixes, literal/typed/untyped/ \
         sub-rule operands, [ ] ( ) # wrappers, productions of concatenated/sliced/little-endian/position-relative fields and assert blocks; ~40% of the rules are \
         variants of an earlier rule so that several rules match the same text) x a generated program (global and nested labels with forward and backward references, \
         constant chains, address-dependent constants, operands at every type boundary, #d/#dN of widths 1..64, strings, #res, #align, forward #addr, 0-3 banks with \
         units 4..32), one fifth with one injected fault (unknown mnemonic, operand count, wrapper, undefined symbol). Oracle = reference assembler R-ASM (structural \
         matcher + layout + R-EXPR): success iff the model succeeds, then identical bits (length included) and identical symbol table; model-reject => the assembler must \
         report an error and produce no output. Non-trivial = >= 3 instructions, >= 1 operand naming a label or constant, and two rules sharing a mnemonic (prefix); distinct by hash of the rendered source."
            .to_string()
    }
    fn assumptions(&self) -> Vec<String> {
        vec![
            "generated shapes keep the token reading of a line unique (operands are words, expressions without top-level commas, or wrapped), so the structural matcher coincides with the language's character-level matching".into(),
            "programs for which the model cannot fix sizes before values (not size-static) are discarded and counted under excluded_by_construction".into(),
        ]
    }
    fn tape_len(&self, _t: Tier) -> usize {
        420
    }
    fn fuzz_runs(&self, _tier: Tier) -> u64 {
        40_000
    }
    fn random_cases(&self, tier: Tier) -> u64 {
        tier.pick(600_000, 3_000_000)
    }
    fn run(&self, t: &mut Tape, ctx: &mut CaseCtx) -> Verdict {
        let (prog, info) = gen_case(t, 24, true, true);
        let (src, _) = render(&prog);
        ctx.set_hash_str(&src);
        let model = refasm::assemble(&prog);
        ctx.render(|| render_json(&prog, &model));
        match &model {
            RefResult::Invalid(w) => {
                ctx.excluded.push(format!("outside-model:{}", w.split(':').next().unwrap_or("").chars().take(40).collect::<String>()));
                ctx.label("model:invalid");
                return Verdict::Pass;
            }
            RefResult::Ok(_) => ctx.label("model:ok"),
            RefResult::Reject { class, .. } => ctx.label(format!("model:reject:{}", class)),
        }
        if let Some(f) = info.fault {
            ctx.label(format!("fault:{}", f));
        }
        if info.banks > 0 {
            ctx.label("banks");
        }
        if info.nested_labels {
            ctx.label("nested-labels");
        }
        if prog.isa.subrules.iter().any(|sr| sr.alts.iter().any(|a| matches!(a.op, crate::model::isa::POp::Param { ty: crate::model::isa::PType::Sub(_), .. }))) {
            ctx.label("nested-subrule");
        }
        if prog.items.iter().any(|it| matches!(it, Item::Label { dots, .. } if *dots >= 2)) {
            ctx.label("labels-depth>=3");
        }
        let fwd = has_forward_ref(&prog);
        if fwd {
            ctx.label("forward-ref");
        }
        ctx.nontrivial = info.n_instr >= 3 && info.symbol_operands >= 1 && isa_has_overlap(&prog.isa);
        let out = sut::assemble_src(&src, &Opts::default());
        ctx.evals += 1;
        match compare(&model, &out) {
            None => Verdict::Pass,
            Some((clause, detail)) => {
                ctx.want_render = true;
                ctx.render(|| render_json(&prog, &model));
                Verdict::fail(clause, detail)
            }
        }
    }
}
