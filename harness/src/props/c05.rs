//! C05 — expressions compute exact unbounded-integer mathematics with tracked sizes.

use crate::engine::sut::{self, AsmOutcome, Opts};
use crate::engine::{CaseCtx, Property, Tape, Tier, Verdict};
use crate::gen::expr::{ExprGen, Ty};
use crate::model::expr::*;
use num_bigint::BigInt;
use serde_json::json;
use std::collections::HashMap;

pub struct C05;

pub fn base_env() -> (Vec<(String, Ty)>, HashMap<String, V>, String) {
    let mut vars = Vec::new();
    let mut env = HashMap::new();
    let mut src = String::new();
    let defs: Vec<(&str, &str, Ty, V)> = vec![
        ("ka", "5", Ty::Int, int(5)),
        ("kb", "0x00ff", Ty::Sized, sized(255, 16)),
        ("kc", "-17", Ty::Int, int(-17)),
        ("kd", "0b101", Ty::Sized, sized(5, 3)),
        ("ke", "340282366920938463463374607431768211456", Ty::Int, int(pow2(128))),
        ("kt", "1 == 1", Ty::Bool, V::Bool(true)),
        ("kf", "false", Ty::Bool, V::Bool(false)),
    ];
    for (n, text, ty, v) in defs {
        src.push_str(&format!("{} = {}\n", n, text));
        vars.push((n.to_string(), ty));
        env.insert(n.to_string(), v);
    }
    (vars, env, src)
}

pub struct Item {
    pub e: E,
    pub min: String,
    pub full: String,
    pub expect: R,
}

pub fn gen_items(t: &mut Tape, allow_quote_escape: bool) -> (Vec<Item>, HashMap<String, V>, String) {
    let (vars, env, src) = base_env();
    let g = ExprGen { vars: &vars, ill_typed_per_mille: 25, allow_quote_escape };
    let n = t.urange(1, 8);
    let mut items = Vec::new();
    for _ in 0..n {
        let ty = match t.weighted(&[9, 5, 3, 3]) {
            0 => Ty::Int,
            1 => Ty::Sized,
            2 => Ty::Bool,
            _ => Ty::Str,
        };
        let depth = t.urange(0, 5);
        let e = g.gen(t, ty, depth);
        let expect = eval(&e, &Env::of(&env));
        items.push(Item { min: print(&e, false), full: print(&e, true), e, expect });
    }
    (items, env, src)
}

fn predicate(items: &[&Item]) -> &'static str {
    if items.iter().any(|i| i.min.contains("\\\"")) {
        "escaped-quote"
    } else {
        "plain"
    }
}

/// observe one expression alone: returns Ok(Some(value)) for ints (via symbols), bits for #d
fn solo_program(base: &str, text: &str, how: &str) -> String {
    match how {
        "const" => format!("{}zz = {}\n", base, text),
        "bool" => format!("{}zz = ({}) ? 1 : 0\n", base, text),
        _ => format!("{}#d {}\n", base, text),
    }
}

impl Property for C05 {
    fn id(&self) -> &'static str {
        "C05"
    }
    fn rule(&self) -> String {
        "each case = 1..8 type-directed expression trees (depth <= 6) over every operator, literal form (dec, 0x/$, 0b/%, 0o, _ grouping, leading zeros, \
         upper-case digits), magnitudes of 0..200 bits and negatives, shifts/slices with boundary and invalid amounts, strings with every escape form and \
         2/3/4-byte characters through every encoding function, ~2.5% deliberately ill-typed sub-expressions; each printed twice (minimal parentheses from \
         the precedence table, and full parentheses). Plus six DIRECTED enumerated cases (round 13): concatenation whose left operand is a sized NEGATIVE value (`x: sN / iN`, N = 4, 8, 13, bound to -1, -2, -2^(N-1), -2^(N-1)+1, 3) with right operands of 1, 8 and 12 bits, consumed by value (`>> 3`, `> 5`, `+ 1`, `/ 3`, a wider slice) and plainly; expectation computed directly. Oracle = reference evaluator R-EXPR (arithmetic definitions of two's-complement operators): all \
         error-free expressions of a case are assembled in one program and observed as `name = expr` in the symbols output (value), `#d expr` (bits and \
         size; an unsized value must be rejected by #d) and `(expr) ? 1 : 0` (booleans); each expression the model calls an error is assembled alone and \
         must fail. Non-trivial expression = depth >= 3 with >= 2 operator classes, or an operand > 64 bits, or a negative operand of a shift/slice/bitwise \
         operator, or an adjacent operator pair printed without parentheses; a case is non-trivial if one of its expressions is; distinct by hash of the printed text. \
         labels `pair:a>b` count ordered precedence-level pairs exercised without parentheses."
            .to_string()
    }
    fn assumptions(&self) -> Vec<String> {
        vec![
            "operator precedence levels are taken from the pinned parser (the repository has no other documentation of them); a consistent change of both printings would be detected, see DESIGN section 4".into(),
            "the numeric value of a string is the unsigned number its encoded bytes spell (size 8 x bytes); ascii() of characters above U+007F follows the repository test tests/string_encoding/ok.asm (Latin-1 byte up to U+00FF, 0x00 above)".into(),
        ]
    }
    fn tape_len(&self, _t: Tier) -> usize {
        700
    }
    fn fuzz_runs(&self, _tier: Tier) -> u64 {
        40_000
    }
    fn random_cases(&self, tier: Tier) -> u64 {
        tier.pick(600_000, 4_000_000)
    }
    fn enumerated(&self, _tier: Tier) -> u64 {
        6
    }
    /// round 13, directed: concatenation whose LEFT operand is a sized NEGATIVE value (a typed parameter sN / iN bound
    /// to a negative argument - the only way to such a value), used by VALUE afterwards (shift, comparison, addition,
    /// division, a wider slice): `x @ r` joins exactly the N bits of x and the bits of r, a non-negative number.
    fn run_enumerated(&self, index: u64, ctx: &mut CaseCtx) -> Verdict {
        let n = [4usize, 8, 13][(index % 3) as usize];
        let ty = if index / 3 == 0 { 's' } else { 'i' };
        let rights: [(usize, &str, u64); 3] = [(8, "0x00", 0), (1, "0b1", 1), (12, "0xabc", 0xabc)];
        let mut rules = String::from("#ruledef\n{\n");
        let mut lines = String::new();
        let mut want: Vec<bool> = Vec::new();
        let push = |want: &mut Vec<bool>, v: &BigInt, w: usize| {
            for k in (0..w).rev() {
                want.push(((v >> k) & BigInt::from(1)) == BigInt::from(1));
            }
        };
        let half = 1i64 << (n - 1);
        let values: Vec<i64> = vec![-1, -2, -half, -half + 1, 3];
        for (ri, (m, rtext, r)) in rights.iter().enumerate() {
            let w = n + m + 8;
            rules.push_str(&format!("    shrq{ri} {{x: {ty}{n}}} => ((x @ {rtext}) >> 3)`{w}\n"));
            rules.push_str(&format!("    cmpq{ri} {{x: {ty}{n}}} => ((x @ {rtext}) > 5 ? 0x01 : 0x00)\n"));
            rules.push_str(&format!("    addq{ri} {{x: {ty}{n}}} => ((x @ {rtext}) + 1)`{w}\n"));
            rules.push_str(&format!("    divq{ri} {{x: {ty}{n}}} => ((x @ {rtext}) / 3)`{w}\n"));
            rules.push_str(&format!("    wideq{ri} {{x: {ty}{n}}} => (x @ {rtext})`{w}\n"));
            rules.push_str(&format!("    plainq{ri} {{x: {ty}{n}}} => x @ {rtext}\n"));
            for v in &values {
                let u: BigInt = ((BigInt::from(*v) & ((BigInt::from(1) << n) - 1)) << *m) | BigInt::from(*r);
                lines.push_str(&format!("shrq{ri} {v}\ncmpq{ri} {v}\naddq{ri} {v}\ndivq{ri} {v}\nwideq{ri} {v}\nplainq{ri} {v}\n"));
                push(&mut want, &(&u >> 3), w);
                push(&mut want, &BigInt::from(if u > BigInt::from(5) { 1 } else { 0 }), 8);
                push(&mut want, &(&u + 1), w);
                push(&mut want, &(&u / 3), w);
                push(&mut want, &u, w);
                push(&mut want, &u, n + m);
            }
        }
        let src = format!("{}}}\n{}", rules, lines);
        ctx.set_hash_str(&src);
        ctx.nontrivial = true;
        ctx.label("directed:concat-of-negative-sized-operand");
        ctx.render(|| json!({"source": src, "model": sut::bits_hex(&want)}));
        let out = sut::assemble_src(&src, &Opts::default());
        ctx.evals += 1;
        match &out {
            AsmOutcome::Ok(ok) if ok.bits == want => Verdict::Pass,
            AsmOutcome::Ok(ok) => {
                ctx.want_render = true;
                ctx.render(|| json!({"source": src, "model": sut::bits_hex(&want)}));
                let at = ok.bits.iter().zip(want.iter()).position(|(a, b)| a != b);
                Verdict::fail("concat-negative-sized|bits-differ", format!("{}{}: model {} / assembler {} (first difference at bit {:?})", ty, n, sut::bits_hex(&want), sut::bits_hex(&ok.bits), at))
            }
            other => {
                ctx.want_render = true;
                ctx.render(|| json!({"source": src, "model": sut::bits_hex(&want)}));
                Verdict::fail("concat-negative-sized|valid-program-rejected", other.brief())
            }
        }
    }
    fn run(&self, t: &mut Tape, ctx: &mut CaseCtx) -> Verdict {
        let allow_quote = !ctx.is_known("escaped-quote|unexpected-error");
        let (items, env, base) = gen_items(t, true);
        if !allow_quote && items.iter().any(|i| i.min.contains("\\\"")) {
            ctx.excluded.push("escaped-quote".into());
        }
        let envr = Env::of(&env);
        ctx.evals += items.len() as u64;
        let mut h = 0u64;
        for it in &items {
            h = crate::engine::mix(h, crate::engine::fnv(it.min.as_bytes()));
            let mut classes = std::collections::BTreeSet::new();
            op_classes(&it.e, &mut classes);
            let mut pairs = Vec::new();
            unparenthesised_pairs(&it.e, &mut pairs);
            for (a, b) in &pairs {
                ctx.label(format!("pair:{}>{}", a, b));
            }
            let nt = (depth(&it.e) >= 3 && classes.len() >= 2) || has_wide_or_negative_bitop(&it.e, &envr) || !pairs.is_empty();
            if nt {
                ctx.nontrivial = true;
            }
            ctx.label(match &it.expect {
                Ok(V::Int { size: Some(_), .. }) => "res:sized",
                Ok(V::Int { .. }) => "res:int",
                Ok(V::Bool(_)) => "res:bool",
                Ok(V::Str { .. }) => "res:str",
                Ok(V::Void) => "res:void",
                Err(EvalErr::Unspecified(_)) => "res:unspecified",
                Err(_) => "res:error",
            });
        }
        ctx.hash = h;
        ctx.render(|| json!({"expressions": items.iter().map(|i| json!({"min": i.min, "full": i.full, "model": format!("{:?}", i.expect)})).collect::<Vec<_>>()}));

        // 1. the error-free ones, batched
        let mut prog = base.clone();
        let mut expected_syms: Vec<(String, BigInt, usize)> = Vec::new(); // name, value, item index
        let mut expected_data: Vec<(BigInt, usize, usize, &str)> = Vec::new(); // pattern, size, item, which printing
        let mut unsized_items = Vec::new();
        for (k, it) in items.iter().enumerate() {
            if !allow_quote && it.min.contains("\\\"") {
                continue;
            }
            match &it.expect {
                Ok(V::Int { v, size }) => {
                    prog.push_str(&format!("a{} = {}\nb{} = {}\n", k, it.min, k, it.full));
                    expected_syms.push((format!("a{}", k), v.clone(), k));
                    expected_syms.push((format!("b{}", k), v.clone(), k));
                    if let Some(s) = size {
                        prog.push_str(&format!("#d {}\n#d {}\n", it.min, it.full));
                        expected_data.push((mod_pow2(v, *s), *s, k, "min"));
                        expected_data.push((mod_pow2(v, *s), *s, k, "full"));
                    } else {
                        unsized_items.push(k);
                    }
                }
                Ok(V::Bool(b)) => {
                    prog.push_str(&format!("a{} = ({}) ? 1 : 0\nb{} = ({}) ? 1 : 0\n", k, it.min, k, it.full));
                    expected_syms.push((format!("a{}", k), BigInt::from(*b as u8), k));
                    expected_syms.push((format!("b{}", k), BigInt::from(*b as u8), k));
                }
                Ok(V::Str { s, enc }) => match str_pattern(s, *enc) {
                    Ok((p, n)) => {
                        prog.push_str(&format!("#d {}\n#d {}\n", it.min, it.full));
                        expected_data.push((p.clone(), n, k, "min"));
                        expected_data.push((p, n, k, "full"));
                    }
                    Err(_) => {}
                },
                _ => {}
            }
        }
        let fail = |ctx: &mut CaseCtx, items: &[&Item], clause: &str, detail: String| -> Verdict {
            let _ = ctx;
            Verdict::fail(format!("{}|{}", predicate(items), clause), detail)
        };
        let out = sut::assemble_src(&prog, &Opts::default());
        match &out {
            AsmOutcome::Ok(ok) => {
                let syms: HashMap<String, BigInt> = sut::parse_symbols(&ok.symbols).into_iter().collect();
                for (name, v, k) in &expected_syms {
                    match syms.get(name) {
                        Some(got) if got == v => {}
                        Some(got) => {
                            let which = if name.starts_with('a') { &items[*k].min } else { &items[*k].full };
                            return fail(ctx, &[&items[*k]], "value-mismatch", format!("`{}`: model {} , assembler {}", which, v, got));
                        }
                        None => {
                            let which = if name.starts_with('a') { &items[*k].min } else { &items[*k].full };
                            return fail(ctx, &[&items[*k]], "value-missing", format!("`{}`: model {} , assembler produced no integer symbol", which, v));
                        }
                    }
                }
                // data elements in order
                let mut pos = 0usize;
                let data_spans: Vec<&sut::SpanInfo> = ok.spans.iter().filter(|s| s.offset.is_some()).collect();
                if data_spans.len() != expected_data.len() {
                    return fail(ctx, &items.iter().collect::<Vec<_>>(), "data-count-mismatch", format!("expected {} data elements, got {}", expected_data.len(), data_spans.len()));
                }
                for (i, (p, n, k, which)) in expected_data.iter().enumerate() {
                    let sp = data_spans[i];
                    let text = if *which == "min" { &items[*k].min } else { &items[*k].full };
                    if sp.size != *n {
                        return fail(ctx, &[&items[*k]], "size-mismatch", format!("`#d {}`: model size {}, assembler size {}", text, n, sp.size));
                    }
                    let mut got = BigInt::from(0);
                    for b in 0..*n {
                        got = got * 2 + BigInt::from(ok.bits.get(pos + b).copied().unwrap_or(false) as u8);
                    }
                    if &got != p {
                        return fail(ctx, &[&items[*k]], "bits-mismatch", format!("`#d {}`: model bits {:#x}, assembler {:#x} ({} bits)", text, p, got, n));
                    }
                    pos += n;
                }
            }
            AsmOutcome::Panic(p) => {
                return fail(ctx, &items.iter().collect::<Vec<_>>(), &format!("panic {}", sut::panic_site(p)), format!("panic: {}", p));
            }
            _ => {
                // find the culprit by assembling each alone
                for (k, it) in items.iter().enumerate() {
                    if !allow_quote && it.min.contains("\\\"") {
                        continue;
                    }
                    let how = match &it.expect {
                        Ok(V::Int { .. }) => "const",
                        Ok(V::Bool(_)) => "bool",
                        Ok(V::Str { s, enc }) if str_pattern(s, *enc).is_ok() => "data",
                        _ => continue,
                    };
                    for text in [&it.min, &it.full] {
                        let o = sut::assemble_src(&solo_program(&base, text, how), &Opts::default());
                        ctx.evals += 1;
                        if o.ok().is_none() {
                            return fail(ctx, &[&items[k]], "unexpected-error", format!("`{}`: model {:?}, assembler: {}", text, it.expect, o.brief()));
                        }
                    }
                }
                return fail(ctx, &items.iter().collect::<Vec<_>>(), "unexpected-error-batch", format!("batch failed but every expression assembles alone: {}", out.brief()));
            }
        }

        // 2. expressions the model rejects: each alone must fail; unsized integers: #d must be rejected
        for (k, it) in items.iter().enumerate() {
            match &it.expect {
                Err(EvalErr::Unspecified(_)) => {
                    ctx.excluded.push("unspecified-by-statement".into());
                }
                Err(e) => {
                    for text in [&it.min, &it.full] {
                        let o = sut::assemble_src(&solo_program(&base, text, "const"), &Opts::default());
                        ctx.evals += 1;
                        match o {
                            AsmOutcome::Err(_) => {}
                            AsmOutcome::Panic(p) => return fail(ctx, &[&items[k]], &format!("panic {}", sut::panic_site(&p)), format!("`{}`: panic {}", text, p)),
                            other => return fail(ctx, &[&items[k]], "missing-error", format!("`{}`: model says error ({:?}), assembler: {}", text, e, other.brief())),
                        }
                    }
                }
                _ => {}
            }
        }
        for k in unsized_items.iter().take(2) {
            let it = &items[*k];
            let o = sut::assemble_src(&solo_program(&base, &it.min, "data"), &Opts::default());
            ctx.evals += 1;
            match o {
                AsmOutcome::Err(_) => {}
                AsmOutcome::Panic(p) => return fail(ctx, &[it], &format!("panic {}", sut::panic_site(&p)), format!("`#d {}`: panic {}", it.min, p)),
                other => return fail(ctx, &[it], "unsized-accepted-by-d", format!("`#d {}`: model value is unsized, assembler: {}", it.min, other.brief())),
            }
        }
        Verdict::Pass
    }
}
