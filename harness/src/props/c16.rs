//! C16 — conditional assembly and command-line defines select exactly one world.

use crate::engine::sut::{self, AsmOutcome, DefVal, MemFs, Opts};
use crate::engine::{CaseCtx, Property, Tape, Tier, Verdict};
use crate::gen::expr::lit_of;
use crate::model::expr::*;
use crate::model::program::*;
use crate::model::refasm::{self, RefResult};
use num_bigint::BigInt;
use num_traits::Signed;
use serde_json::json;
use std::collections::HashMap;

pub struct C16;

#[derive(Clone, Debug)]
pub enum Node {
    Item(Item),
    /// chain: (condition, arm) ... ; optional else arm
    If { arms: Vec<(E, Vec<Node>)>, else_arm: Option<Vec<Node>> },
    /// v2: `#include "once<id>.asm"`, a file that says `#once` and emits one marker byte: contributes at its first
    /// occurrence in the selected world only
    Once(u8),
}

pub fn once_file(id: u8) -> (String, String) {
    (format!("once{}.asm", id), format!("#once\n#d8 0x{:02x}\n", 0xd0 + id as u32))
}

pub fn render_nodes(nodes: &[Node], indent: usize, out: &mut String) {
    render_nodes_split(nodes, indent, out, &mut None)
}

/// v2: some arms keep their content in a file of their own and hold only the `#include` line
pub struct IncSplit {
    pub files: Vec<(String, String)>,
    pub choose: Vec<bool>,
    pub next: usize,
}

fn render_arm(body: &[Node], indent: usize, out: &mut String, split: &mut Option<IncSplit>) {
    if let Some(sp) = split {
        let pick = !body.is_empty() && sp.choose[sp.next % sp.choose.len()];
        sp.next += 1;
        if pick {
            let name = format!("inc{}.asm", sp.files.len());
            sp.files.push((name.clone(), String::new()));
            let at = sp.files.len() - 1;
            let mut text = String::new();
            render_nodes_split(body, 0, &mut text, split);
            split.as_mut().unwrap().files[at].1 = text;
            out.push_str(&format!("{}#include \"{}\"\n", "    ".repeat(indent), name));
            return;
        }
    }
    render_nodes_split(body, indent, out, split);
}

pub fn render_nodes_split(nodes: &[Node], indent: usize, out: &mut String, split: &mut Option<IncSplit>) {
    let pad = "    ".repeat(indent);
    for n in nodes {
        match n {
            Node::Item(it) => {
                out.push_str(&pad);
                out.push_str(&item_text(it));
                out.push('\n');
            }
            Node::Once(id) => out.push_str(&format!("{}#include \"{}\"\n", pad, once_file(*id).0)),
            Node::If { arms, else_arm } => {
                for (k, (c, body)) in arms.iter().enumerate() {
                    out.push_str(&format!("{}{} {}\n{}{{\n", pad, if k == 0 { "#if" } else { "#elif" }, print(c, false), pad));
                    render_arm(body, indent + 1, out, split);
                    out.push_str(&format!("{}}}\n", pad));
                }
                if let Some(e) = else_arm {
                    out.push_str(&format!("{}#else\n{}{{\n", pad, pad));
                    render_arm(e, indent + 1, out, split);
                    out.push_str(&format!("{}}}\n", pad));
                }
            }
        }
    }
}

/// rewrites `.x` / `..x.y` in `e` to the absolute path they denote inside the scope chain `ctx` (the chain INCLUDING the
/// declaration that holds the expression)
fn absolutize(e: &E, ctx: &[String]) -> E {
    let r = |x: &E| Box::new(absolutize(x, ctx));
    match e {
        E::Var(n) if n.starts_with('.') => {
            let dots = n.chars().take_while(|c| *c == '.').count();
            if dots <= ctx.len() {
                let mut p: Vec<String> = ctx[..dots].to_vec();
                p.push(n[dots..].to_string());
                E::Var(p.join("."))
            } else {
                e.clone()
            }
        }
        E::Un(o, a) => E::Un(*o, r(a)),
        E::Bin(o, a, b) => E::Bin(*o, r(a), r(b)),
        E::Tern(a, b, c) => E::Tern(r(a), r(b), r(c)),
        E::Slice(a, b, c) => E::Slice(r(a), r(b), r(c)),
        E::SliceShort(a, b) => E::SliceShort(r(a), r(b)),
        E::Call(f, args) => E::Call(f.clone(), args.iter().map(|a| absolutize(a, ctx)).collect()),
        E::Block(args) => E::Block(args.iter().map(|a| absolutize(a, ctx)).collect()),
        other => other.clone(),
    }
}

fn defval_to_v(d: &DefVal) -> V {
    match d {
        DefVal::Bool(b) => V::Bool(*b),
        DefVal::Int(i) => int(i.clone()),
    }
}

fn v_to_e(v: &V) -> E {
    match v {
        V::Bool(b) => E::Bool(*b),
        V::Int { v, .. } => {
            let m = v.abs();
            let e = E::Lit { text: m.to_string(), v: m, size: None };
            if v.is_negative() {
                E::Un(UnOp::Neg, Box::new(e))
            } else {
                e
            }
        }
        _ => lit_of(0),
    }
}

pub enum World {
    Flat(Vec<Item>),
    Reject(String),
}

/// R-COND: least fixed point of "resolve constants, splice decided chains"
pub fn select_world(nodes: &[Node], defines: &[(String, DefVal)]) -> World {
    let mut nodes: Vec<Node> = nodes.to_vec();
    let overrides: HashMap<String, V> = defines.iter().map(|(n, v)| (n.clone(), defval_to_v(v))).collect();
    loop {
        // constants of the current top level (scope chain tracked over the items that are visible now)
        let mut consts: HashMap<String, V> = HashMap::new();
        let mut decl: Vec<(String, E)> = Vec::new();
        let mut ctx: Vec<String> = Vec::new();
        let mut declared_labels: Vec<String> = Vec::new();
        for n in &nodes {
            if let Node::Item(it) = n {
                match it {
                    Item::Const { dots, name, e, .. } => {
                        if *dots > ctx.len() {
                            return World::Reject("skips a level".into());
                        }
                        ctx.truncate(*dots);
                        ctx.push(name.clone());
                        // a relative reference in the initialiser (`.a`, `..b`) means the symbol under the
                        // enclosing declarations at the point of the constant
                        decl.push((ctx.join("."), absolutize(e, &ctx)));
                    }
                    Item::Label { dots, name } => {
                        if *dots > ctx.len() {
                            return World::Reject("skips a level".into());
                        }
                        ctx.truncate(*dots);
                        ctx.push(name.clone());
                        declared_labels.push(ctx.join("."));
                    }
                    _ => {}
                }
            }
        }
        for (p, _) in &decl {
            if let Some(v) = overrides.get(p) {
                consts.insert(p.clone(), v.clone());
            }
        }
        loop {
            let mut progress = false;
            for (p, e) in &decl {
                if consts.contains_key(p) {
                    continue;
                }
                let empty = HashMap::new();
                let lk = |n: &str| -> Result<V, EvalErr> {
                    if n.starts_with('.') || n == "$" || n == "pc" {
                        return Err(EvalErr::UnknownVar(n.to_string()));
                    }
                    consts.get(n).cloned().ok_or_else(|| EvalErr::UnknownVar(n.to_string()))
                };
                let env = Env { vars: &empty, lookup: Some(&lk) };
                match eval(e, &env) {
                    Ok(v) => {
                        consts.insert(p.clone(), v);
                        progress = true;
                    }
                    Err(EvalErr::UnknownVar(_)) => {}
                    Err(EvalErr::Unspecified(w)) => return World::Reject(format!("unspecified: {}", w)),
                    Err(e) => return World::Reject(format!("constant error {:?}", e)),
                }
            }
            if !progress {
                break;
            }
        }
        // splice every chain whose next undecided condition is decidable
        let mut changed = false;
        let mut next: Vec<Node> = Vec::new();
        for n in nodes.into_iter() {
            match n {
                Node::If { mut arms, else_arm } => {
                    let (cond, _) = &arms[0];
                    let empty = HashMap::new();
                    let lk = |n: &str| -> Result<V, EvalErr> {
                        if n.starts_with('.') || n == "$" || n == "pc" {
                            return Err(EvalErr::UnknownVar(n.to_string()));
                        }
                        consts.get(n).cloned().ok_or_else(|| EvalErr::UnknownVar(n.to_string()))
                    };
                    let env = Env { vars: &empty, lookup: Some(&lk) };
                    match eval(cond, &env) {
                        Ok(V::Bool(true)) => {
                            changed = true;
                            let (_, body) = arms.remove(0);
                            next.extend(body);
                        }
                        Ok(V::Bool(false)) => {
                            changed = true;
                            arms.remove(0);
                            if !arms.is_empty() {
                                next.push(Node::If { arms, else_arm });
                            } else if let Some(e) = else_arm {
                                next.extend(e);
                            }
                        }
                        Ok(_) | Err(EvalErr::UnknownVar(_)) => next.push(Node::If { arms, else_arm }),
                        Err(EvalErr::Unspecified(w)) => return World::Reject(format!("unspecified: {}", w)),
                        Err(e) => return World::Reject(format!("condition error {:?}", e)),
                    }
                }
                other => next.push(other),
            }
        }
        nodes = next;
        if !changed {
            break;
        }
    }
    if nodes.iter().any(|n| matches!(n, Node::If { .. })) {
        return World::Reject("a condition cannot be decided from constants alone".into());
    }
    let mut once_seen: Vec<u8> = Vec::new();
    let mut items: Vec<Item> = nodes
        .into_iter()
        .filter_map(|n| match n {
            Node::Item(i) => Some(i),
            Node::Once(id) => {
                if once_seen.contains(&id) {
                    None
                } else {
                    once_seen.push(id);
                    Some(Item::Data { width: Some(8), elems: vec![lit_of(0xd0 + id as u64)] })
                }
            }
            _ => unreachable!(),
        })
        .collect();
    // defines: override the constant of that name; a define naming nothing is an error
    let mut ctx: Vec<String> = Vec::new();
    let mut seen: Vec<String> = Vec::new();
    for it in items.iter_mut() {
        match it {
            Item::Const { dots, name, e, .. } => {
                ctx.truncate(*dots);
                ctx.push(name.clone());
                let p = ctx.join(".");
                if let Some(v) = overrides.get(&p) {
                    *e = v_to_e(v);
                }
                seen.push(p);
            }
            Item::Label { dots, name } => {
                ctx.truncate(*dots);
                ctx.push(name.clone());
                // (a label is no constant: a define that names it names no declared constant)
            }
            _ => {}
        }
    }
    for (n, _) in defines {
        if !seen.contains(n) {
            return World::Reject(format!("define `{}` names no declared constant", n));
        }
    }
    World::Flat(items)
}

// ---------------------------------------------------------------------------------------
// generator

struct G {
    marker: u8,
    label: usize,
    declared_consts: Vec<String>,
    /// constants declared at the top level (an arm must not declare them again)
    top: Vec<String>,
    fresh: usize,
    /// mode 2: arms declare only dotted children of the global label that precedes the chain
    dotted_mode: bool,
    cur_global: Option<String>,
    cond_names: Vec<String>,
    /// v3: global constants named like nested ones (declared at the end of the file)
    decoys: Vec<(String, E)>,
}

const CONSTS: &[&str] = &["c0", "c1", "c2", "c3", "c4"];

/// by convention c0, c1, cfg.dbg and names ending in an even digit are booleans, the others integers
fn is_bool_name(n: &str) -> bool {
    matches!(n, "c0" | "c1" | "cfg.dbg") || (n.len() > 2 && n.chars().last().map(|c| (c as u8) % 2 == 0).unwrap_or(false))
}

fn value_for(t: &mut Tape, name: &str) -> E {
    let mismatch = t.chance(1, 12);
    if is_bool_name(name) != mismatch {
        E::Bool(t.flip())
    } else {
        lit_of(t.draw(4) as u64)
    }
}

fn cond(t: &mut Tape, g: &G, depth: usize) -> E {
    let pick = |t: &mut Tape, want_bool: bool| -> E {
        let mut pool: Vec<String> = ["c0", "c1", "c2", "c3", "c4", "cfg.dbg", "cfg.lvl"].iter().map(|s| s.to_string()).collect();
        pool.extend(g.cond_names.iter().cloned());
        let typed: Vec<&String> = pool.iter().filter(|n| is_bool_name(n) == want_bool).collect();
        E::Var(typed[t.below(typed.len())].clone())
    };
    match t.weighted(&[10, 4, 10, 5, 1, 1]) {
        0 => pick(t, true),
        1 => E::Un(UnOp::Not, Box::new(pick(t, true))),
        2 => E::Bin(*t.pick(&[BinOp::Eq, BinOp::Ne, BinOp::Lt, BinOp::Ge]), Box::new(pick(t, false)), Box::new(lit_of(t.draw(4) as u64))),
        3 if depth > 0 => E::Bin(*t.pick(&[BinOp::LazyAnd, BinOp::LazyOr]), Box::new(cond(t, g, depth - 1)), Box::new(cond(t, g, depth - 1))),
        4 => E::Var("lbl0".into()), // a label: cannot be decided
        _ => lit_of(1),             // not a boolean
    }
}

fn body(t: &mut Tape, g: &mut G, depth: usize, max: usize) -> Vec<Node> {
    let n = t.urange(0, max);
    let mut out = Vec::new();
    for _ in 0..n {
        match t.weighted(&[6, 3, 2, if depth > 0 { 4 } else { 0 }]) {
            0 => {
                g.marker = g.marker.wrapping_add(1);
                out.push(Node::Item(Item::Data { width: Some(8), elems: vec![lit_of(g.marker as u64)] }));
            }
            1 => {
                // a constant (may be one that conditions read)
                if g.dotted_mode && depth < 4 {
                    if let Some(par) = g.cur_global.clone() {
                        let name = format!("k{}", g.fresh);
                        let mut e = value_for(t, &format!("{}.{}", par, name));
                        // v3: defined through a RELATIVE reference to an earlier sibling constant of the same kind
                        // (and, half of the time, a global constant of that sibling's bare name with another value)
                        if crate::engine::gen_version() >= 3 && t.chance(1, 3) {
                            let full = format!("{}.{}", par, name);
                            let sib: Vec<String> = g.cond_names.iter().filter(|n| n.starts_with(&format!("{}.", par)) && is_bool_name(n) == is_bool_name(&full)).cloned().collect();
                            if !sib.is_empty() {
                                let s = sib[t.below(sib.len())].clone();
                                let bare = s[par.len() + 1..].to_string();
                                e = E::Var(format!(".{}", bare));
                                if t.flip() && !g.decoys.iter().any(|d| d.0 == bare) {
                                    let dv = if is_bool_name(&full) { E::Bool(t.flip()) } else { lit_of(7 + t.draw(3) as u64) };
                                    g.decoys.push((bare, dv));
                                }
                            }
                        }
                        g.fresh += 1;
                        g.cond_names.push(format!("{}.{}", par, name));
                        out.push(Node::Item(Item::Const { dots: 1, name: name.clone(), e, noemit: false }));
                        if t.flip() {
                            out.push(Node::Item(Item::Data { width: Some(8), elems: vec![E::Bin(BinOp::Add, Box::new(E::Var(format!("{}.{}", par, name))), Box::new(lit_of(0)))] }));
                        }
                        continue;
                    }
                }
                let candidates: Vec<&&str> = CONSTS.iter().filter(|c| !g.top.contains(&c.to_string())).collect();
                let name = if depth == 4 {
                    // top level
                    let n = t.pick(CONSTS).to_string();
                    g.top.push(n.clone());
                    n
                } else if !candidates.is_empty() && t.flip() {
                    candidates[t.below(candidates.len())].to_string()
                } else {
                    g.fresh += 1;
                    let n = format!("d{}", g.fresh);
                    g.cond_names.push(n.clone());
                    n
                };
                g.declared_consts.push(name.clone());
                let e = if !is_bool_name(&name) && t.chance(1, 4) {
                    E::Bin(BinOp::Add, Box::new(E::Var(t.pick(&["c2", "c3", "c4"]).to_string())), Box::new(lit_of(1)))
                } else {
                    value_for(t, &name)
                };
                out.push(Node::Item(Item::Const { dots: 0, name, e, noemit: false }));
            }
            2 => {
                if g.dotted_mode && depth < 4 {
                    // a dotted label under the preceding global one
                    if let Some(par) = g.cur_global.clone() {
                        let name = format!("l{}", g.fresh);
                        g.fresh += 1;
                        out.push(Node::Item(Item::Label { dots: 1, name: name.clone() }));
                        out.push(Node::Item(Item::Data { width: Some(8), elems: vec![E::Var(format!("{}.{}", par, name))] }));
                    }
                    continue;
                }
                let name = format!("lbl{}", g.label);
                g.label += 1;
                out.push(Node::Item(Item::Label { dots: 0, name: name.clone() }));
                if depth == 4 {
                    g.cur_global = Some(name.clone());
                }
                if t.flip() {
                    out.push(Node::Item(Item::Data { width: Some(8), elems: vec![E::Var(name)] }));
                }
            }
            _ => {
                let narms = t.weighted(&[5, 3, 1]) + 1;
                let mut arms = Vec::new();
                for _ in 0..narms {
                    let c = cond(t, g, 1);
                    arms.push((c, body(t, g, depth - 1, 3)));
                }
                let else_arm = if t.flip() { Some(body(t, g, depth - 1, 3)) } else { None };
                out.push(Node::If { arms, else_arm });
            }
        }
    }
    out
}

pub fn gen_cond(t: &mut Tape) -> (Vec<Node>, Vec<(String, DefVal)>) {
    let mut g = G { marker: 0, label: 0, declared_consts: vec![], top: vec![], fresh: 0, dotted_mode: t.chance(1, 3), cur_global: None, cond_names: vec![], decoys: vec![] };
    let mut nodes: Vec<Node> = Vec::new();
    // hierarchical constants
    if t.chance(2, 3) {
        nodes.push(Node::Item(Item::Const { dots: 0, name: "cfg".into(), e: lit_of(0), noemit: false }));
        nodes.push(Node::Item(Item::Const { dots: 1, name: "dbg".into(), e: E::Bool(t.flip()), noemit: false }));
        nodes.push(Node::Item(Item::Const { dots: 1, name: "lvl".into(), e: lit_of(t.draw(4) as u64), noemit: false }));
    }
    // most constants up front or at the end, a few only inside arms
    let mut tail = Vec::new();
    for c in CONSTS {
        let e = value_for(t, c);
        match t.weighted(&[4, 3, 1]) {
            0 => {
                g.top.push(c.to_string());
                nodes.push(Node::Item(Item::Const { dots: 0, name: c.to_string(), e, noemit: false }))
            }
            1 => {
                g.top.push(c.to_string());
                tail.push(Node::Item(Item::Const { dots: 0, name: c.to_string(), e, noemit: false }))
            }
            _ => {}
        }
    }
    // v2: a chain of integer constants each defined through the NEXT one (use before declaration, several
    // links), read by conditions: the address-free pre-pass has to iterate to a fixed point before any arm is chosen
    if crate::engine::gen_version() >= 2 && t.chance(1, 3) {
        let names = ["rv1", "rv3", "rv5", "rv7", "rv9"];
        let len = t.urange(2, 5);
        let base = t.draw(3) as u64;
        let mut decls: Vec<Node> = Vec::new();
        for k in 0..len {
            let e = if k + 1 < len { E::Bin(BinOp::Add, Box::new(E::Var(names[k + 1].to_string())), Box::new(lit_of(t.draw(2) as u64))) } else { lit_of(base) };
            decls.push(Node::Item(Item::Const { dots: 0, name: names[k].to_string(), e, noemit: false }));
            g.top.push(names[k].to_string());
            g.cond_names.push(names[k].to_string());
        }
        // heads first (reverse dependency order), or the tail of the chain at the very end of the file
        if t.flip() {
            nodes.extend(decls);
        } else {
            let last = decls.pop().unwrap();
            nodes.extend(decls);
            tail.push(last);
        }
    }
    if g.dotted_mode {
        nodes.push(Node::Item(Item::Label { dots: 0, name: "gtop".into() }));
        g.cur_global = Some("gtop".into());
        // v3: nested constants at the top level, one defined through a relative reference to the other, read by the
        // conditions under their absolute names; half of the time a global constant of the same bare name exists too
        if crate::engine::gen_version() >= 3 && t.chance(1, 2) {
            let v = t.draw(4) as u64;
            let first = Node::Item(Item::Const { dots: 1, name: "q1".into(), e: lit_of(v), noemit: false });
            let second = Node::Item(Item::Const { dots: 1, name: "q3".into(), e: E::Bin(BinOp::Add, Box::new(E::Var(".q1".into())), Box::new(lit_of(t.draw(2) as u64))), noemit: false });
            if t.flip() {
                nodes.push(first);
                nodes.push(second);
            } else {
                nodes.push(second);
                nodes.push(first);
            }
            g.cond_names.push("gtop.q1".into());
            g.cond_names.push("gtop.q3".into());
            if t.flip() {
                g.decoys.push(("q1".into(), lit_of(9)));
            }
        }
    }
    // v2: a dispatch chain with many arms (`#if sel7 == 0 ... #elif sel7 == 1 ...`), the selected arm anywhere up to
    // the last one or the #else: "exactly the first arm whose condition is true", however far down the chain it is
    let mut dispatch = false;
    if crate::engine::gen_version() >= 2 && t.chance(1, 6) {
        dispatch = true;
        let narms = t.urange(6, 18);
        let sel = t.below(narms + 2) as u64;
        let decl = Node::Item(Item::Const { dots: 0, name: "sel7".into(), e: lit_of(sel), noemit: false });
        g.top.push("sel7".into());
        let late = t.flip();
        if !late {
            nodes.push(decl.clone());
        }
        let mut arms = Vec::new();
        for k in 0..narms {
            let c = E::Bin(BinOp::Eq, Box::new(E::Var("sel7".into())), Box::new(lit_of(k as u64)));
            let mut b = body(t, &mut g, 1, 2);
            g.marker = g.marker.wrapping_add(1);
            b.push(Node::Item(Item::Data { width: Some(8), elems: vec![lit_of(g.marker as u64)] }));
            arms.push((c, b));
        }
        let else_arm = if t.flip() { Some(body(t, &mut g, 1, 2)) } else { None };
        nodes.push(Node::If { arms, else_arm });
        if late {
            tail.push(decl);
        }
    }
    nodes.extend(body(t, &mut g, 4, if dispatch { 3 } else { 6 }));
    // v2: a #once file included from inside an arm of a top-level chain and again at the top level (before or after)
    if crate::engine::gen_version() >= 2 && t.chance(1, 6) {
        let ifs: Vec<usize> = nodes.iter().enumerate().filter(|(_, n)| matches!(n, Node::If { .. })).map(|(i, _)| i).collect();
        if !ifs.is_empty() {
            let at = ifs[t.below(ifs.len())];
            if let Node::If { arms, else_arm } = &mut nodes[at] {
                let k = t.below(arms.len() + 1);
                let body = if k < arms.len() { Some(&mut arms[k].1) } else { else_arm.as_mut() };
                if let Some(b) = body {
                    if t.flip() {
                        b.insert(0, Node::Once(0));
                    } else {
                        b.push(Node::Once(0));
                    }
                }
            }
            match t.draw(3) {
                0 => nodes.insert(0, Node::Once(0)),
                1 => nodes.push(Node::Once(0)),
                _ => {
                    nodes.insert(at, Node::Once(0));
                }
            }
        }
    }
    nodes.extend(tail);
    for (n, e) in g.decoys.clone() {
        nodes.push(Node::Item(Item::Const { dots: 0, name: n, e, noemit: false }));
    }
    // defines
    let mut defs = Vec::new();
    for _ in 0..t.weighted(&[3, 3, 2, 1, 1]) {
        let name = if dispatch && t.chance(1, 3) { "sel7".to_string() } else { t.pick(if crate::engine::gen_version() >= 2 { &["c0", "c1", "c2", "c3", "c4", "cfg.dbg", "cfg.lvl", "nosuch", "cfg.nosuch", "lbl0", "lbl1", "gtop"][..] } else { &["c0", "c1", "c2", "c3", "c4", "cfg.dbg", "cfg.lvl", "nosuch", "cfg.nosuch"][..] }).to_string() };
        if defs.iter().any(|d: &(String, DefVal)| d.0 == name) {
            continue;
        }
        let bias: [u32; 5] = if is_bool_name(&name) { [6, 5, 1, 0, 0] } else { [0, 1, 6, 2, 2] };
        let v = match t.weighted(&bias) {
            0 => DefVal::Bool(true),
            1 => DefVal::Bool(false),
            2 => DefVal::Int(BigInt::from(t.draw(4))),
            3 => DefVal::Int(BigInt::from(-(t.draw(4) as i64) - 1)),
            _ => DefVal::Int(BigInt::from(0x10 + t.draw(4))),
        };
        // v4: now and then a magnitude beyond the machine word
        let v = match v {
            DefVal::Int(i) if crate::engine::gen_version() >= 4 && t.chance(1, 8) => {
                let big = (BigInt::from(1) << (*t.pick(&[63usize, 64, 70]))) + BigInt::from(t.draw(3));
                DefVal::Int(if i.is_negative() { -big } else { big })
            }
            v => v,
        };
        defs.push((name, v));
    }
    (nodes, defs)
}

fn cli_of(defs: &[(String, DefVal)], t: &mut Tape) -> Vec<String> {
    let mut a = Vec::new();
    for (n, v) in defs {
        let v4 = crate::engine::gen_version() >= 4;
        // (v4: every spelling of an integer literal, also behind a minus sign: 0x / 0b / 0o prefixes, `_` separators)
        let spell = |t: &mut Tape, mag: &BigInt| -> String {
            match t.draw(5) {
                0 => format!("0x{}", mag.to_str_radix(16)),
                1 => format!("0b{}", mag.to_str_radix(2)),
                2 => format!("0o{}", mag.to_str_radix(8)),
                3 => {
                    let d = mag.to_string();
                    if d.len() >= 2 { format!("{}_{}", &d[..1], &d[1..]) } else { d }
                }
                _ => mag.to_string(),
            }
        };
        let val = match v {
            DefVal::Bool(true) if t.flip() => None,
            DefVal::Bool(b) => Some(b.to_string()),
            DefVal::Int(i) if i.is_negative() && v4 && t.flip() => Some(format!("-{}", spell(t, &-i))),
            DefVal::Int(i) if i.is_negative() => Some(i.to_string()),
            DefVal::Int(i) if v4 && t.flip() => Some(spell(t, i)),
            DefVal::Int(i) if t.flip() => Some(format!("0x{}", i.to_str_radix(16))),
            DefVal::Int(i) => Some(i.to_string()),
        };
        let nv = match val {
            Some(v) => format!("{}={}", n, v),
            None => n.clone(),
        };
        match t.draw(3) {
            0 => a.push(format!("-d{}", nv)),
            1 => {
                a.push("-d".into());
                a.push(nv);
            }
            _ => {
                a.push("--define".into());
                a.push(nv);
            }
        }
    }
    a
}

impl Property for C16 {
    fn id(&self) -> &'static str {
        "C16"
    }
    fn rule(&self) -> String {
        "each case = a tree of #if/#elif/#else chains to depth 4 whose conditions read global and hierarchical (cfg.dbg) constants - declared before, after, or only inside other arms, or through a chain of up to five constants each defined by the next one - through \
         !, comparisons, && and ||, plus rare undecidable (label) and non-boolean conditions; arms hold marker bytes, global labels (and data reading them), constants and nested chains; one case in six has a dispatch chain `#if sel7 == 0 ... #elif sel7 == k` of 6-18 arms with the selected arm anywhere; one in five keeps the content of some arms in #include'd files; in the dotted mode half of the cases declare nested constants at the top level of which one is defined through a relative reference to the other (`.q3 = .q1 + 0`, sometimes beside a global `q1` of another value) and conditions read them; one in six includes a #once file from inside an arm and again at the top level (there an implementation may refuse the combination with a diagnostic that names #once, but never mis-assemble it); x 0-4 \
         defines (true/false/small/negative/hex values, v4: every literal spelling also behind a minus sign - 0x, 0b, 0o, `_` separators - and magnitudes beyond 2^63; names of constants, hierarchical names, names of labels and names of nothing - a define must name a declared CONSTANT), passed both as driver symbol definitions to the library and as \
         -dN=V / -d N=V / --define N=V to the driver (one case in three with further output groups behind the group that carries the defines). Oracle R-COND: the reference computes the least fixed point (resolve address-free constants with overrides, splice every chain whose next \
         condition is decided), rejects leftover conditions, unused defines and duplicates, and hands the one live world to the reference assembler; bits and symbols must match, a rejected \
         program must fail, and both ways of passing the defines must agree. Non-trivial = nesting depth >= 2 and a condition reading a constant declared inside another arm or overridden by a define."
            .to_string()
    }
    fn assumptions(&self) -> Vec<String> {
        vec![
            "all symbols in these programs are referenced by absolute names and arms declare only global symbols, so that splicing cannot re-parent declarations made in earlier rounds (the statement is silent on that)".into(),
            "a define that names a label names no declared constant (an error); a #once file included from inside an arm may be refused with a diagnostic naming #once (whether it was included before is not known until the conditions are decided), but must never be mis-assembled".into(),
        ]
    }
    fn tape_len(&self, _t: Tier) -> usize {
        400
    }
    fn enumerated(&self, _tier: Tier) -> u64 {
        2
    }
    /// directed probes of shapes the random generator keeps out by its scope-neutrality guard
    fn run_enumerated(&self, index: u64, ctx: &mut CaseCtx) -> Verdict {
        // a selected arm that declares a global label, followed (outside the chain) by a nested declaration:
        // written in place, the nested symbol belongs to the arm's label
        let arm = vec![Node::Item(Item::Label { dots: 0, name: "b".into() })];
        let chain = if index == 0 {
            Node::If { arms: vec![(E::Bin(BinOp::Eq, Box::new(lit_of(1)), Box::new(lit_of(1))), arm)], else_arm: None }
        } else {
            Node::If { arms: vec![(E::Bool(false), vec![])], else_arm: Some(arm) }
        };
        let nodes = vec![
            Node::Item(Item::Label { dots: 0, name: "a".into() }),
            Node::Item(Item::Data { width: Some(8), elems: vec![lit_of(7)] }),
            chain,
            Node::Item(Item::Label { dots: 1, name: "x".into() }),
            Node::Item(Item::Data { width: Some(8), elems: vec![E::Var("b.x".into())] }),
        ];
        let mut src = String::new();
        render_nodes(&nodes, 0, &mut src);
        ctx.hash = crate::engine::fnv(src.as_bytes());
        ctx.nontrivial = true;
        ctx.label("probe:arm-global-then-outside-local");
        ctx.want_render = true;
        ctx.render(|| json!({"source": src}));
        let World::Flat(items) = select_world(&nodes, &[]) else { return Verdict::fail("probe-model", "model rejects the probe") };
        let model = refasm::assemble(&Program { isa: Default::default(), items });
        let out = sut::assemble_src(&src, &Opts::default());
        ctx.evals += 1;
        match crate::props::c01::compare(&model, &out) {
            None => Verdict::Pass,
            Some((c, d)) => Verdict::fail(format!("arm-global-then-outside-local|{}", c), d),
        }
    }
    fn fuzz_runs(&self, _tier: Tier) -> u64 {
        40_000
    }
    fn random_cases(&self, tier: Tier) -> u64 {
        tier.pick(800_000, 4_000_000)
    }
    fn run(&self, t: &mut Tape, ctx: &mut CaseCtx) -> Verdict {
        let (nodes, defs) = gen_cond(t);
        let mut src = String::new();
        // v2: one case in five keeps the content of some arms in included files
        fn once_in_arm(nodes: &[Node], inside: bool) -> (bool, bool) {
            // (any Once node, a Once node inside an arm)
            let mut r = (false, false);
            for n in nodes {
                match n {
                    Node::Once(_) => {
                        r.0 = true;
                        r.1 |= inside;
                    }
                    Node::If { arms, else_arm } => {
                        for a in arms.iter().map(|a| &a.1).chain(else_arm.iter()) {
                            let x = once_in_arm(a, true);
                            r.0 |= x.0;
                            r.1 |= x.1;
                        }
                    }
                    _ => {}
                }
            }
            r
        }
        let (has_once, once_inside_arm) = once_in_arm(&nodes, false);
        // v3: when a #once file is included from inside an arm, the arm's content moves to an included file more often,
        // so that the #once file is reached through a SECOND inclusion level under the conditional
        let deep_once = crate::engine::gen_version() >= 3 && once_inside_arm && t.chance(1, 2);
        let mut split = if deep_once {
            Some(IncSplit { files: vec![], choose: (0..8).map(|_| t.chance(2, 3)).collect(), next: 0 })
        } else if crate::engine::gen_version() >= 2 && t.chance(1, 5) {
            Some(IncSplit { files: vec![], choose: (0..8).map(|_| t.chance(1, 3)).collect(), next: 0 })
        } else {
            None
        };
        render_nodes_split(&nodes, 0, &mut src, &mut split);
        let mut inc_files: Vec<(String, String)> = split.map(|s| s.files).unwrap_or_default();
        if has_once {
            inc_files.push(once_file(0));
            ctx.label(if once_inside_arm { "once-file-included-in-an-arm-and-at-top-level" } else { "once-file-at-top-level-only" });
        }
        if !inc_files.is_empty() {
            ctx.label("arm-content-in-included-file");
        }
        let cli = cli_of(&defs, t);
        ctx.hash = crate::engine::mix(crate::engine::fnv(src.as_bytes()), crate::engine::fnv(cli.join(" ").as_bytes()));
        for f in &inc_files {
            ctx.hash = crate::engine::mix(ctx.hash, crate::engine::fnv(f.1.as_bytes()));
        }
        let render = || json!({"source": src, "defines": cli, "included_files": inc_files.iter().map(|f| json!({"name": f.0, "text": f.1})).collect::<Vec<_>>()});
        ctx.render(render);
        let world = select_world(&nodes, &defs);
        if src.lines().any(|l| l.trim_start().starts_with('.') && l.contains(" = .")) {
            ctx.label("constant-defined-through-a-relative-reference");
        }
        if src.contains("#elif sel7 == 10") {
            ctx.label("dispatch-chain:11-arms-or-more");
        } else if src.contains("#if sel7 == 0") {
            ctx.label("dispatch-chain:up-to-10-arms");
        }
        let model = match &world {
            World::Reject(r) if r.starts_with("unspecified") => {
                ctx.skipped = true;
                return Verdict::Pass;
            }
            World::Reject(r) => RefResult::Reject { item: 0, class: "world", detail: r.clone() },
            World::Flat(items) => refasm::assemble(&Program { isa: Default::default(), items: items.clone() }),
        };
        if let RefResult::Invalid(_) = model {
            ctx.skipped = true;
            return Verdict::Pass;
        }
        ctx.label(match &model {
            RefResult::Ok(_) => "model:ok".to_string(),
            RefResult::Reject { class, detail, .. } => format!("model:reject:{}:{}", class, detail.split(' ').take(3).collect::<Vec<_>>().join("-")),
            _ => String::new(),
        });
        fn depth(nodes: &[Node]) -> usize {
            nodes.iter().map(|n| match n { Node::If { arms, else_arm } => 1 + arms.iter().map(|a| depth(&a.1)).chain(else_arm.iter().map(|e| depth(e))).max().unwrap_or(0), _ => 0 }).max().unwrap_or(0)
        }
        ctx.nontrivial = depth(&nodes) >= 2 && (!defs.is_empty() || src.contains("    c"));
        // 1. library entry point with driver symbol definitions
        let out = {
            let mut fs = MemFs::new();
            fs.add("main.asm", src.as_bytes().to_vec());
            for f in &inc_files {
                fs.add(&f.0, f.1.as_bytes().to_vec());
            }
            sut::assemble(&mut fs, &["main.asm"], &Opts { defines: defs.clone(), ..Opts::default() })
        };
        ctx.evals += 1;
        // a #once file included from inside an arm: whether it was included before is not known until the conditions
        // are decided; an implementation may refuse the combination with a diagnostic that says so, but never
        // mis-assemble it
        let refused = once_inside_arm && matches!(&out, AsmOutcome::Err(m) if sut::first_error_text(m).contains("#once"));
        if refused {
            ctx.label("once-in-arm:refused-with-diagnostic");
        }
        if let Some((c, d)) = if refused { None } else { crate::props::c01::compare(&model, &out) } {
            ctx.want_render = true;
            ctx.render(render);
            return Verdict::fail(format!("library|{}", c), d);
        }
        // 2. the driver with -d options
        let mut fs = MemFs::new();
        fs.add("main.asm", src.as_bytes().to_vec());
        for f in &inc_files {
            fs.add(&f.0, f.1.as_bytes().to_vec());
        }
        let mut args: Vec<String> = vec!["-q".into(), "main.asm".into(), "-f".into(), "binary".into(), "-o".into(), "out.bin".into()];
        args.extend(cli.iter().cloned());
        // v2: further output groups behind the one that carries the defines (defines are global options)
        if crate::engine::gen_version() >= 2 && t.chance(1, 3) {
            ctx.label("defines-in-an-earlier-output-group");
            for g in 0..t.urange(1, 2) {
                args.extend(["--".to_string(), "-f".into(), (*t.pick(&["hexstr", "symbols", "annotated"])).into(), "-o".into(), format!("extra{}.txt", g)]);
            }
        }
        let r = sut::drive(&mut fs, &args);
        ctx.evals += 1;
        let cli_ok: Option<Vec<u8>> = match &r {
            Ok(o) if o.ok => o.writes.iter().find(|w| w.0 == "out.bin").map(|w| w.1.clone()),
            _ => None,
        };
        let lib_ok: Option<Vec<u8>> = match &out {
            AsmOutcome::Ok(ok) => Some(ok.bits.chunks(8).map(|c| c.iter().fold(0u8, |a, b| (a << 1) | *b as u8)).collect()),
            _ => None,
        };
        if let Err(p) = &r {
            ctx.want_render = true;
            ctx.render(render);
            return Verdict::fail(format!("cli|panic {}", sut::panic_site(p)), p.clone());
        }
        if cli_ok != lib_ok {
            ctx.want_render = true;
            ctx.render(render);
            return Verdict::fail("cli|differs-from-library", format!("library result {:?}, driver with {:?} -> {:?}", lib_ok, cli, cli_ok));
        }
        Verdict::Pass
    }
}
