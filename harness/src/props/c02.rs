//! C02 — a successful result is a genuine fixed point, never a stale guess.

use crate::engine::sut::{self, AsmOutcome, Opts};
use crate::engine::{CaseCtx, Property, Tape, Tier, Verdict};
use crate::gen::isa::IsaGen;
use crate::gen::program::{ProgGen, ProgInfo};
use crate::model::isa::*;
use crate::model::program::*;
use crate::model::refasm::{self, RefResult};
use crate::model::expr::E;
use std::collections::HashMap;

pub struct C02;

pub const BUDGETS: &[usize] = &[1, 2, 3, 4, 5, 6, 7, 8, 9, 10, 11, 12, 15, 20, 30];

pub fn gen_cascade(t: &mut Tape, max_items: usize) -> (Program, ProgInfo) {
    let isa = IsaGen { size_static: false, asserts: true }.gen(t);
    let shadow = t.chance(1, 5);
    let mut isa = isa;
    if shadow {
        // a two-operand rule whose first parameter name will also be a label name
        let mn = "mvq".to_string();
        isa.blocks[0].rules.push(Rule {
            mnemonic: mn,
            ops: vec![
                PatOp { wrap: Wrap::None, op: POp::Param { name: "p0".into(), ty: PType::U(8) } },
                PatOp { wrap: Wrap::None, op: POp::Param { name: "p1".into(), ty: PType::U(8) } },
            ],
            prod: crate::gen::isa::concat_all(vec![crate::gen::isa::sized_lit(0x10, 8), E::Var("p0".into()), E::Var("p1".into())]),
            size: 24,
        });
    }
    let (mut prog, info) = ProgGen { max_items, allow_banks: t.chance(1, 3), allow_faults: false, family_bias: true }.gen(t, isa);
    if shadow && !prog.items.iter().any(|i| matches!(i, Item::BankDef(_))) {
        // somewhere in the program: a label named like the first parameter, then an instruction
        // whose first operand is a literal and whose second operand is that label
        let has_p0 = prog.items.iter().any(|i| matches!(i, Item::Label { name, .. } if name == "p0"));
        let at = t.below(prog.items.len() + 1);
        let ins = Item::Instr(Instr {
            mnemonic: "mvq".into(),
            ops: vec![
                InsOp { wrap: Wrap::None, op: IOp::Expr(crate::gen::expr::lit_of(t.draw(4) as u64)) },
                InsOp { wrap: Wrap::None, op: IOp::Word("p0".into()) },
            ],
        });
        if has_p0 {
            prog.items.insert(at, ins);
        } else {
            prog.items.insert(at, ins);
            prog.items.insert(at, Item::Label { dots: 0, name: "p0".into() });
            prog.items.insert(at, Item::Align(crate::gen::expr::lit_of(8)));
        }
    }
    (prog, info)
}

/// sizes the assembler claims for every instruction item (spans are recorded in item order:
/// one per label, instruction and data element)
pub fn claimed_sizes(p: &Program, ok: &sut::AsmOk) -> Option<HashMap<usize, usize>> {
    let mut k = 0;
    let mut out = HashMap::new();
    for (i, it) in p.items.iter().enumerate() {
        match it {
            Item::Label { .. } => k += 1,
            Item::Instr(_) => {
                out.insert(i, ok.spans.get(k)?.size);
                k += 1;
            }
            Item::Data { elems, .. } => k += elems.len(),
            _ => {}
        }
    }
    if k == ok.spans.len() {
        Some(out)
    } else {
        None
    }
}

/// the certificate: None = the claimed success is self-consistent
pub fn certificate(p: &Program, ok: &sut::AsmOk) -> Option<(String, String)> {
    let Some(sizes) = claimed_sizes(p, ok) else {
        return Some(("span-count".into(), format!("{} spans do not correspond to the program's items", ok.spans.len())));
    };
    let m = refasm::assemble_forced(p, Some(&sizes));
    match &m {
        RefResult::Invalid(_) => None,
        RefResult::Reject { item, class, detail } => Some((
            format!("success-is-not-a-fixed-point:{}", class),
            format!("assembler succeeded ({} bits {}), but recomputing from its own final layout: item {} {}: {}", ok.bits.len(), sut::bits_hex(&ok.bits), item, class, detail),
        )),
        RefResult::Ok(_) => crate::props::c01::compare(&m, &AsmOutcome::Ok(ok.clone())).map(|(c, d)| (format!("certificate:{}", c), d)),
    }
}

/// largest size among the syntactic survivors of each instruction (the pessimistic first guess)
pub fn has_value_dependent_choice(p: &Program, ok: &sut::AsmOk) -> bool {
    let Some(sizes) = claimed_sizes(p, ok) else { return false };
    for (i, it) in p.items.iter().enumerate() {
        if let Item::Instr(ins) = it {
            let s = survivors(&p.isa, ins);
            let max = s.iter().map(|m| match_size(&p.isa, m)).max().unwrap_or(0);
            if sizes.get(&i).map(|x| *x != max).unwrap_or(false) {
                return true;
            }
        }
    }
    false
}

impl Property for C02 {
    fn id(&self) -> &'static str {
        "C02"
    }
    fn rule(&self) -> String {
        "each case = a generated instruction set with 1-3 cascading families (same pattern, different sizes, selected by typed widths, disjoint or overlapping assert \
         ranges, or position-relative ranges) plus ordinary rules, and a program with forward/backward references, data, reservations, alignments and banks; assembled under \
         iteration budgets from {1..12,15,20,30} x the four optimisation-switch combinations (quick: 2 budgets drawn per case + budget 10, thorough: all 15). Oracle = \
         certificate check on whatever state the assembler claims: instruction sizes are read from output.spans, the layout and every label are recomputed from them, \
         every instruction's syntactic survivors are evaluated with the FINAL symbol values at its ACTUAL address, failed constraints discarded, and the unique smallest \
         encoding must have the claimed size and equal the emitted bits; bits, length and symbols must equal the recomputation. An error outcome is accepted. \
         Non-trivial = success with an instruction whose emitted size differs from the largest candidate size, or >= 3 passes; distinct by hash of source."
            .to_string()
    }
    fn assumptions(&self) -> Vec<String> {
        vec!["spans are recorded one per label, instruction and data element in source order (checked: a different count is reported)".into()]
    }
    fn tape_len(&self, _t: Tier) -> usize {
        460
    }
    fn fuzz_runs(&self, _tier: Tier) -> u64 {
        40_000
    }
    fn random_cases(&self, tier: Tier) -> u64 {
        tier.pick(12_000, 80_000)
    }
    fn run(&self, t: &mut Tape, ctx: &mut CaseCtx) -> Verdict {
        let (prog, _info) = gen_cascade(t, 22);
        let (src, _) = render(&prog);
        ctx.set_hash_str(&src);
        let budgets: Vec<usize> = if ctx.tier == Tier::Thorough {
            BUDGETS.to_vec()
        } else {
            let mut b = vec![*t.pick(BUDGETS), *t.pick(BUDGETS), 10];
            b.sort();
            b.dedup();
            b
        };
        ctx.render(|| serde_json::json!({"source": src, "budgets": budgets}));
        let mut any_ok = false;
        for &budget in &budgets {
            for (st, mt) in [(true, true), (false, true), (true, false), (false, false)] {
                let o = sut::assemble_src(&src, &Opts { max_iterations: budget, opt_static: st, opt_matcher: mt, defines: vec![] });
                ctx.evals += 1;
                match &o {
                    AsmOutcome::Ok(ok) => {
                        any_ok = true;
                        if has_value_dependent_choice(&prog, ok) || ok.iterations >= 3 {
                            ctx.nontrivial = true;
                        }
                        ctx.label(format!("passes:{}", ok.iterations.min(12)));
                        if let Some((clause, detail)) = certificate(&prog, ok) {
                            ctx.want_render = true;
                            ctx.render(|| serde_json::json!({"source": src, "budget": budget, "opt_static": st, "opt_matcher": mt}));
                            return Verdict::fail(clause, format!("budget {} static={} matcher={}: {}", budget, st, mt, detail));
                        }
                    }
                    AsmOutcome::Err(_) => ctx.label("error"),
                    AsmOutcome::Panic(p) => {
                        ctx.want_render = true;
                        ctx.render(|| serde_json::json!({"source": src, "budget": budget}));
                        return Verdict::fail(format!("panic {}", sut::panic_site(p)), p.clone());
                    }
                    AsmOutcome::Inconsistent { detail, .. } => {
                        ctx.want_render = true;
                        ctx.render(|| serde_json::json!({"source": src, "budget": budget}));
                        return Verdict::fail("inconsistent-result", detail.clone());
                    }
                }
            }
        }
        ctx.label(if any_ok { "some-success" } else { "never-succeeds" });
        Verdict::Pass
    }
}
