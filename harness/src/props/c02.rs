//! C02 — a successful result is a genuine fixed point, never a stale guess.

use crate::engine::sut::{self, AsmOutcome, Opts};
use crate::engine::{CaseCtx, Property, Tape, Tier, Verdict};
use crate::gen::isa::IsaGen;
use crate::gen::program::{ProgGen, ProgInfo};
use crate::model::isa::*;
use crate::model::program::*;
use crate::model::refasm::{self, RefResult};
use crate::model::expr::{BinOp, E};
use std::collections::HashMap;

pub struct C02;

pub const BUDGETS: &[usize] = &[1, 2, 3, 4, 5, 6, 7, 8, 9, 10, 11, 12, 15, 20, 30];

/// v2, directed: a non-integer (boolean) constant that depends on an address and LAGS one pass behind it, read by an
/// item that stands before it; the address itself settles late because an instruction in front of it names a
/// constant that is a later label:
///     #d8 (kbool ? 0xff : 0x11) / kbool = tgt > K / lag kfwd / tgt: / kfwd = far / #addr N / far: / #d8 0xbb
pub fn gen_lagging_constant(t: &mut Tape) -> (Program, ProgInfo) {
    let mut isa = IsaGen { size_static: false, asserts: true }.gen(t);
    let p = || E::Var("p0".into());
    let lit = crate::gen::expr::lit_of;
    let ops = || vec![PatOp { wrap: Wrap::None, op: POp::Param { name: "p0".into(), ty: PType::Untyped } }];
    isa.blocks[0].rules.push(Rule {
        mnemonic: "lag".into(),
        ops: ops(),
        prod: E::Block(vec![
            E::Call("assert".into(), vec![E::Bin(BinOp::Lt, Box::new(p()), Box::new(lit(0x100)))]),
            crate::gen::isa::concat_all(vec![crate::gen::isa::sized_lit(0x10, 8), E::SliceShort(Box::new(p()), Box::new(lit(8)))]),
        ]),
        size: 16,
    });
    isa.blocks[0].rules.push(Rule { mnemonic: "lag".into(), ops: ops(), prod: crate::gen::isa::concat_all(vec![crate::gen::isa::sized_lit(0x20, 8), E::SliceShort(Box::new(p()), Box::new(lit(16)))]), size: 24 });
    let mut items: Vec<Item> = Vec::new();
    let npre = t.draw(3) as u64;
    let reader = Item::Data { width: Some(8), elems: vec![E::Tern(Box::new(E::Var("kbool".into())), Box::new(lit(0xff)), Box::new(lit(0x11)))] };
    for k in 0..npre {
        items.push(Item::Data { width: Some(8), elems: vec![lit(k)] });
    }
    // tgt lies at 1 + npre + 2 (short form) or + 3 (long form): the threshold separates the two
    let short_at = 1 + npre + 2;
    let (op, k) = match t.draw(3) {
        0 => (BinOp::Gt, short_at),
        1 => (BinOp::Ge, short_at + 1),
        _ => (BinOp::Lt, short_at + 1),
    };
    let decl = Item::Const { dots: 0, name: "kbool".into(), e: E::Bin(op, Box::new(E::Var("tgt".into())), Box::new(lit(k))), noemit: false };
    if t.chance(3, 4) {
        items.push(reader);
        items.push(decl);
    } else {
        items.push(decl);
        items.push(reader);
    }
    let operand = if t.chance(3, 4) { "kfwd" } else { "far" };
    items.push(Item::Instr(Instr { mnemonic: "lag".into(), ops: vec![InsOp { wrap: Wrap::None, op: IOp::Word(operand.into()) }] }));
    items.push(Item::Label { dots: 0, name: "tgt".into() });
    items.push(Item::Const { dots: 0, name: "kfwd".into(), e: E::Var("far".into()), noemit: false });
    items.push(Item::Addr(lit(*t.pick(&[0x20u64, 0x40, 0x80, 0x180]))));
    items.push(Item::Label { dots: 0, name: "far".into() });
    items.push(Item::Data { width: Some(8), elems: vec![lit(0xbb)] });
    let info = ProgInfo { n_instr: 1, symbol_operands: 1, forward_refs: true, ..Default::default() };
    (Program { isa, items }, info)
}

/// v2 directed template: a statically known prefix, then a reservation / alignment / address whose operand is only
/// known from labels further down, then a label and an instruction of the short/long family naming it:
///     #d8 .. / #res rsz / buf_end: / lag buf_end / tstart: / #res K / tend: / lag tend / rsz = tend - tstart
pub fn gen_moving_directive_behind_static_prefix(t: &mut Tape) -> (Program, ProgInfo) {
    let zeros = [0u32; 4];
    let (base, _) = gen_lagging_constant(&mut Tape::new(&zeros));
    // only the instruction set of that template is reused (the two `lag` rules)
    let mut isa = IsaGen { size_static: false, asserts: true }.gen(t);
    for r in base.isa.blocks[0].rules.iter().filter(|r| r.mnemonic == "lag") {
        isa.blocks[0].rules.push(r.clone());
    }
    let lit = crate::gen::expr::lit_of;
    let mut items: Vec<Item> = Vec::new();
    let npre = t.draw(4) as u64;
    for k in 0..npre {
        items.push(Item::Data { width: Some(8), elems: vec![lit(k + 1)] });
    }
    let k = *t.pick(&[0x08u64, 0xf0, 0xf8, 0xfb, 0xfc, 0xfd, 0xfe, 0x100, 0x140]);
    let decl = Item::Const { dots: 0, name: "rsz".into(), e: E::Bin(BinOp::Sub, Box::new(E::Var("tend".into())), Box::new(E::Var("tstart".into()))), noemit: false };
    let early = t.chance(1, 3);
    if early {
        items.push(decl.clone());
    }
    match t.draw(3) {
        0 => items.push(Item::Res(E::Var("rsz".into()))),
        1 => items.push(Item::Addr(E::Bin(BinOp::Add, Box::new(E::Var("rsz".into())), Box::new(lit(npre))))),
        _ => items.push(Item::Res(E::Bin(BinOp::Sub, Box::new(E::Var("tend".into())), Box::new(E::Var("tstart".into()))))),
    }
    items.push(Item::Label { dots: 0, name: "buf_end".into() });
    items.push(Item::Instr(Instr { mnemonic: "lag".into(), ops: vec![InsOp { wrap: Wrap::None, op: IOp::Word("buf_end".into()) }] }));
    // v3: a fixed-size rule with an UNTYPED parameter naming the (moving) label behind it, in a program that may also
    // declare a literal constant spelled like that parameter (`p0 = 0x1234`): the parameter, not the constant, is meant
    let jq = crate::engine::gen_version() >= 3 && t.chance(2, 3);
    if jq {
        isa.blocks[0].rules.push(Rule {
            mnemonic: "jq".into(),
            ops: vec![PatOp { wrap: Wrap::None, op: POp::Param { name: "p0".into(), ty: PType::Untyped } }],
            prod: crate::gen::isa::concat_all(vec![crate::gen::isa::sized_lit(0x40, 8), E::SliceShort(Box::new(E::Var("p0".into())), Box::new(lit(16)))]),
            size: 24,
        });
        items.push(Item::Instr(Instr { mnemonic: "jq".into(), ops: vec![InsOp { wrap: Wrap::None, op: IOp::Word("buf_end".into()) }] }));
    }
    items.push(Item::Label { dots: 0, name: "tstart".into() });
    items.push(Item::Res(lit(k)));
    items.push(Item::Label { dots: 0, name: "tend".into() });
    items.push(Item::Instr(Instr { mnemonic: "lag".into(), ops: vec![InsOp { wrap: Wrap::None, op: IOp::Word("tend".into()) }] }));
    items.push(Item::Data { width: Some(8), elems: vec![lit(0xbb)] });
    if !early {
        items.push(decl);
    }
    if jq && t.flip() {
        items.push(Item::Const { dots: 0, name: "p0".into(), e: lit(0x1234), noemit: false });
    }
    let info = ProgInfo { n_instr: 2, symbol_operands: 2, forward_refs: true, ..Default::default() };
    (Program { isa, items }, info)
}

/// v3 directed template: the WIDTH of a constant (not its number) depends on a label behind the instruction that
/// reads it through a chain of forward-declared constants, and the instruction's size is that width:
///     ldv c2 / c2 = c1 / c1 = end > K ? 0x00 : 0x0000 / end:          with  ldv {v} => 0x10 @ v
pub fn gen_width_carrying_constant(t: &mut Tape) -> (Program, ProgInfo) {
    let mut isa = IsaGen { size_static: false, asserts: true }.gen(t);
    let lit = crate::gen::expr::lit_of;
    isa.blocks[0].rules.push(Rule {
        mnemonic: "ldv".into(),
        ops: vec![PatOp { wrap: Wrap::None, op: POp::Param { name: "p0".into(), ty: PType::Untyped } }],
        prod: crate::gen::isa::concat_all(vec![crate::gen::isa::sized_lit(0x10, 8), E::Var("p0".into())]),
        size: 16,
    });
    let mut items: Vec<Item> = Vec::new();
    let npre = t.draw(3) as u64;
    for k in 0..npre {
        items.push(Item::Data { width: Some(8), elems: vec![lit(k + 1)] });
    }
    let links = t.urange(1, 3);
    items.push(Item::Instr(Instr { mnemonic: "ldv".into(), ops: vec![InsOp { wrap: Wrap::None, op: IOp::Word(format!("wc{}", links)) }] }));
    for k in (2..=links).rev() {
        items.push(Item::Const { dots: 0, name: format!("wc{}", k), e: E::Var(format!("wc{}", k - 1)), noemit: false });
    }
    // end = npre + 2 with the narrow value, npre + 3 with the wide one; the threshold keeps exactly one of them consistent
    let narrow = crate::gen::isa::sized_lit(0, 8);
    let wide = crate::gen::isa::sized_lit(0, 16);
    let (a, b) = if t.flip() { (narrow.clone(), wide.clone()) } else { (wide, narrow) };
    let k = npre + 1 + t.draw(3) as u64;
    items.push(Item::Const { dots: 0, name: "wc1".into(), e: E::Tern(Box::new(E::Bin(BinOp::Gt, Box::new(E::Var("wend".into())), Box::new(lit(k)))), Box::new(a), Box::new(b)), noemit: false });
    items.push(Item::Label { dots: 0, name: "wend".into() });
    items.push(Item::Data { width: Some(8), elems: vec![lit(0xbb)] });
    let info = ProgInfo { n_instr: 1, symbol_operands: 1, forward_refs: true, ..Default::default() };
    (Program { isa, items }, info)
}

/// v4 directed template: the SAME instruction text in two scopes, where the relative name it mentions is a literal
/// constant in the first scope and an address-dependent constant in the second (which already has a value in the first
/// pass, and a different one once the short/long instructions in front of it have settled):
///     first: / .len = 2 / lit .len / second: / lag far (x n) / .len = $ - second / lit .len / #res K / far:
/// with the width cascade  lit {x: u4} => 0xa @ x  |  lit {x: u8} => 0xb0 @ x
pub fn gen_same_text_two_scopes(t: &mut Tape) -> (Program, ProgInfo) {
    let zeros = [0u32; 4];
    let (base, _) = gen_lagging_constant(&mut Tape::new(&zeros));
    let mut isa = IsaGen { size_static: false, asserts: true }.gen(t);
    for r in base.isa.blocks[0].rules.iter().filter(|r| r.mnemonic == "lag") {
        isa.blocks[0].rules.push(r.clone());
    }
    let lit = crate::gen::expr::lit_of;
    let one = |ty: PType, head: E, size: usize| Rule {
        mnemonic: "lit".into(),
        ops: vec![PatOp { wrap: Wrap::None, op: POp::Param { name: "p0".into(), ty } }],
        prod: crate::gen::isa::concat_all(vec![head, E::Var("p0".into())]),
        size,
    };
    let cascade = t.chance(2, 3);
    if cascade {
        isa.blocks[0].rules.push(one(PType::U(4), crate::gen::isa::sized_lit(0xa, 4), 8));
        isa.blocks[0].rules.push(one(PType::U(8), crate::gen::isa::sized_lit(0xb0, 8), 16));
    } else {
        isa.blocks[0].rules.push(one(PType::U(8), crate::gen::isa::sized_lit(0xc0, 8), 16));
    }
    let name = *t.pick(&["len", "n", "cnt"]);
    let use_ = || Item::Instr(Instr { mnemonic: "lit".into(), ops: vec![InsOp { wrap: Wrap::None, op: IOp::Word(format!(".{}", name)) }] });
    let mut items: Vec<Item> = Vec::new();
    let swap = t.chance(1, 4);
    let first = |items: &mut Vec<Item>, t: &mut Tape| {
        items.push(Item::Label { dots: 0, name: "first".into() });
        items.push(Item::Const { dots: 1, name: name.into(), e: lit(t.urange(1, 9) as u64), noemit: false });
        items.push(use_());
    };
    if !swap {
        first(&mut items, t);
    }
    items.push(Item::Label { dots: 0, name: "second".into() });
    let nlag = t.urange(1, 8);
    for _ in 0..nlag {
        items.push(Item::Instr(Instr { mnemonic: "lag".into(), ops: vec![InsOp { wrap: Wrap::None, op: IOp::Word("far".into()) }] }));
    }
    let decl = Item::Const { dots: 1, name: name.into(), e: E::Bin(BinOp::Sub, Box::new(E::Var("$".into())), Box::new(E::Var("second".into()))), noemit: false };
    if t.chance(3, 4) {
        items.push(decl);
        items.push(use_());
    } else {
        items.push(use_());
        items.push(decl);
    }
    if swap {
        first(&mut items, t);
    }
    items.push(Item::Res(lit(*t.pick(&[0u64, 8, 0x40, 0xc0]))));
    items.push(Item::Label { dots: 0, name: "far".into() });
    items.push(Item::Data { width: Some(8), elems: vec![lit(0xbb)] });
    let info = ProgInfo { n_instr: 2 + nlag, symbol_operands: 2 + nlag, forward_refs: true, ..Default::default() };
    (Program { isa, items }, info)
}

/// v4 directed template: a constant that merely ALIASES a label which moves after the first pass, and a second constant
/// computed from the first (both declared in file order, behind the label), read by a fixed-size instruction and a data
/// directive:    lag far / table: / #d8 .. / qa = table / qb = qa + 4 / jq qb / #d8 qb / #res K / far:
pub fn gen_constant_through_alias_of_moving_label(t: &mut Tape) -> (Program, ProgInfo) {
    let zeros = [0u32; 4];
    let (base, _) = gen_lagging_constant(&mut Tape::new(&zeros));
    let mut isa = IsaGen { size_static: false, asserts: true }.gen(t);
    for r in base.isa.blocks[0].rules.iter().filter(|r| r.mnemonic == "lag") {
        isa.blocks[0].rules.push(r.clone());
    }
    let lit = crate::gen::expr::lit_of;
    isa.blocks[0].rules.push(Rule {
        mnemonic: "jq".into(),
        ops: vec![PatOp { wrap: Wrap::None, op: POp::Param { name: "p0".into(), ty: PType::Untyped } }],
        prod: crate::gen::isa::concat_all(vec![crate::gen::isa::sized_lit(0x40, 8), E::SliceShort(Box::new(E::Var("p0".into())), Box::new(lit(16)))]),
        size: 24,
    });
    let mut items: Vec<Item> = Vec::new();
    let label_after = t.chance(1, 4);
    for _ in 0..t.urange(1, 3) {
        items.push(Item::Instr(Instr { mnemonic: "lag".into(), ops: vec![InsOp { wrap: Wrap::None, op: IOp::Word("far".into()) }] }));
    }
    if !label_after {
        items.push(Item::Label { dots: 0, name: "table".into() });
    }
    for k in 0..t.draw(4) as u64 {
        items.push(Item::Data { width: Some(8), elems: vec![lit(k + 1)] });
    }
    items.push(Item::Const { dots: 0, name: "qa".into(), e: E::Var("table".into()), noemit: false });
    let qb = match t.draw(3) {
        0 => E::Bin(BinOp::Add, Box::new(E::Var("qa".into())), Box::new(lit(4))),
        1 => E::Bin(BinOp::Mul, Box::new(E::Var("qa".into())), Box::new(lit(2))),
        _ => E::Var("qa".into()),
    };
    items.push(Item::Const { dots: 0, name: "qb".into(), e: qb, noemit: false });
    if t.flip() {
        items.push(Item::Const { dots: 0, name: "qc".into(), e: E::Bin(BinOp::Add, Box::new(E::Var("qb".into())), Box::new(lit(1))), noemit: false });
        items.push(Item::Data { width: Some(8), elems: vec![E::Var("qc".into())] });
    }
    items.push(Item::Instr(Instr { mnemonic: "jq".into(), ops: vec![InsOp { wrap: Wrap::None, op: IOp::Word("qb".into()) }] }));
    items.push(Item::Data { width: Some(8), elems: vec![E::Var("qb".into())] });
    if label_after {
        items.push(Item::Label { dots: 0, name: "table".into() });
    }
    items.push(Item::Res(lit(*t.pick(&[0u64, 8, 0x40]))));
    items.push(Item::Label { dots: 0, name: "far".into() });
    items.push(Item::Data { width: Some(8), elems: vec![lit(0xbb)] });
    let info = ProgInfo { n_instr: 3, symbol_operands: 3, forward_refs: true, ..Default::default() };
    (Program { isa, items }, info)
}

pub fn gen_cascade(t: &mut Tape, max_items: usize) -> (Program, ProgInfo) {
    if crate::engine::gen_version() >= 4 && t.chance(1, 24) {
        return if t.flip() { gen_same_text_two_scopes(t) } else { gen_constant_through_alias_of_moving_label(t) };
    }
    if crate::engine::gen_version() >= 3 && t.chance(1, 16) {
        return match t.draw(3) {
            0 => gen_lagging_constant(t),
            1 => gen_moving_directive_behind_static_prefix(t),
            _ => gen_width_carrying_constant(t),
        };
    }
    if crate::engine::gen_version() == 2 && t.chance(1, 16) {
        return if t.flip() { gen_lagging_constant(t) } else { gen_moving_directive_behind_static_prefix(t) };
    }
    let isa = IsaGen { size_static: false, asserts: true }.gen(t);
    let shadow = t.chance(1, 5);
    let mut isa = isa;
    if shadow {
        // a two-operand rule whose first parameter name will also be a label name
        let mn = "mvq".to_string();
        isa.blocks[0].rules.push(Rule {
            mnemonic: mn,
            ops: vec![
                PatOp { wrap: Wrap::None, op: POp::Param { name: "p0".into(), ty: PType::U(8) } },
                PatOp { wrap: Wrap::None, op: POp::Param { name: "p1".into(), ty: PType::U(8) } },
            ],
            prod: crate::gen::isa::concat_all(vec![crate::gen::isa::sized_lit(0x10, 8), E::Var("p0".into()), E::Var("p1".into())]),
            size: 24,
        });
    }
    let (mut prog, info) = ProgGen { max_items, allow_banks: t.chance(1, 3), allow_faults: false, family_bias: true }.gen(t, isa);
    if shadow && !prog.items.iter().any(|i| matches!(i, Item::BankDef(_))) {
        // somewhere in the program: a label named like the first parameter, then an instruction
        // whose first operand is a literal and whose second operand is that label
        let has_p0 = prog.items.iter().any(|i| matches!(i, Item::Label { name, .. } if name == "p0"));
        let at = t.below(prog.items.len() + 1);
        let ins = Item::Instr(Instr {
            mnemonic: "mvq".into(),
            ops: vec![
                InsOp { wrap: Wrap::None, op: IOp::Expr(crate::gen::expr::lit_of(t.draw(4) as u64)) },
                InsOp { wrap: Wrap::None, op: IOp::Word("p0".into()) },
            ],
        });
        if has_p0 {
            prog.items.insert(at, ins);
        } else {
            prog.items.insert(at, ins);
            prog.items.insert(at, Item::Label { dots: 0, name: "p0".into() });
            prog.items.insert(at, Item::Align(crate::gen::expr::lit_of(8)));
        }
    }
    (prog, info)
}

/// sizes the assembler claims for every instruction item (spans are recorded in item order:
/// one per label, instruction and data element)
pub fn claimed_sizes(p: &Program, ok: &sut::AsmOk) -> Option<HashMap<usize, usize>> {
    let mut k = 0;
    let mut out = HashMap::new();
    for (i, it) in p.items.iter().enumerate() {
        match it {
            Item::Label { .. } => k += 1,
            Item::Instr(_) => {
                out.insert(i, ok.spans.get(k)?.size);
                k += 1;
            }
            Item::Data { elems, .. } => k += elems.len(),
            _ => {}
        }
    }
    if k != ok.spans.len() {
        return None;
    }
    // for #res / #align / #addr: the output position the assembler gives the next item that has a span
    // (key = number of items + item index; used only when the directive's amount depends on the layout itself)
    let mut k = 0;
    let n = p.items.len();
    let mut pending: Vec<usize> = Vec::new();
    for (i, it) in p.items.iter().enumerate() {
        let span_here = match it {
            Item::Label { .. } | Item::Instr(_) => Some(k),
            Item::Data { elems, .. } if !elems.is_empty() => Some(k),
            _ => None,
        };
        if let Some(sk) = span_here {
            if let Some(off) = ok.spans[sk].offset {
                // (two directives in a row share one following position: which of them moved is not told apart)
                if pending.len() == 1 {
                    out.insert(n + pending[0], off);
                }
                pending.clear();
            } else {
                pending.clear();
            }
        }
        match it {
            Item::Label { .. } | Item::Instr(_) => k += 1,
            Item::Data { elems, .. } => k += elems.len(),
            Item::Res(_) | Item::Align(_) | Item::Addr(_) => pending.push(i),
            Item::Bank(_) | Item::BankDef(_) => pending.clear(),
            _ => {}
        }
    }
    Some(out)
}

/// the certificate: None = the claimed success is self-consistent
pub fn certificate(p: &Program, ok: &sut::AsmOk) -> Option<(String, String)> {
    let Some(sizes) = claimed_sizes(p, ok) else {
        return Some(("span-count".into(), format!("{} spans do not correspond to the program's items", ok.spans.len())));
    };
    let m = refasm::assemble_forced(p, Some(&sizes));
    match &m {
        RefResult::Invalid(_) => None,
        RefResult::Reject { item, class, detail } => Some((
            format!("success-is-not-a-fixed-point:{}", class),
            format!("assembler succeeded ({} bits {}), but recomputing from its own final layout: item {} {}: {}", ok.bits.len(), sut::bits_hex(&ok.bits), item, class, detail),
        )),
        RefResult::Ok(_) => crate::props::c01::compare(&m, &AsmOutcome::Ok(ok.clone())).map(|(c, d)| (format!("certificate:{}", c), d)),
    }
}

/// largest size among the syntactic survivors of each instruction (the pessimistic first guess)
pub fn has_value_dependent_choice(p: &Program, ok: &sut::AsmOk) -> bool {
    let Some(sizes) = claimed_sizes(p, ok) else { return false };
    for (i, it) in p.items.iter().enumerate() {
        if let Item::Instr(ins) = it {
            let s = survivors(&p.isa, ins);
            let max = s.iter().map(|m| match_size(&p.isa, m)).max().unwrap_or(0);
            if sizes.get(&i).map(|x| *x != max).unwrap_or(false) {
                return true;
            }
        }
    }
    false
}

// ---------------------------------------------------------------------------------------
// part B: asm blocks over cascading instruction sets (the inner fixed-point loop of eval_asm.rs)

fn e_mentions_dot(e: &E) -> bool {
    match e {
        E::Var(n) => n.starts_with('.'),
        E::Un(_, a) => e_mentions_dot(a),
        E::Bin(_, a, b) | E::SliceShort(a, b) => e_mentions_dot(a) || e_mentions_dot(b),
        E::Tern(a, b, c) | E::Slice(a, b, c) => e_mentions_dot(a) || e_mentions_dot(b) || e_mentions_dot(c),
        E::Call(_, args) | E::Block(args) => args.iter().any(e_mentions_dot),
        _ => false,
    }
}

fn item_is_scope_sensitive(it: &Item) -> bool {
    match it {
        Item::Label { dots, .. } => *dots > 0,
        Item::Const { dots, e, .. } => *dots > 0 || e_mentions_dot(e),
        Item::Instr(ins) => ins.ops.iter().any(|o| match &o.op {
            IOp::Word(w) => w.starts_with('.'),
            IOp::Expr(e) => e_mentions_dot(e),
        }),
        Item::Data { elems, .. } => elems.iter().any(e_mentions_dot),
        Item::Res(e) | Item::Align(e) | Item::Addr(e) => e_mentions_dot(e),
        _ => false,
    }
}

pub struct BlockCase {
    /// the hand-inlined program (block labels are the global labels bq0, bq1, ...)
    pub inlined: Program,
    /// item indices [a, b) of the inlined program that form the block (instructions and bq labels)
    pub window: (usize, usize),
    /// the same program with the window replaced by one macro call
    pub macro_src: String,
    pub nlabels: usize,
}

pub fn gen_block_case(t: &mut Tape) -> Option<BlockCase> {
    let mut isa = IsaGen { size_static: false, asserts: true }.gen(t);
    let directed = t.flip();
    // directed template: the block stands at a known address (program start, or right behind an `#addr`)
    let template: Option<u64> = if directed && t.flip() { Some(*t.pick(&[0u64, 0, 8, 16, 40, 100])) } else { None };
    // two more families under their own mnemonics: one grows with the operand, one SHRINKS with it
    // (a short form that is only valid for large values), so that sizes can move in opposite directions
    {
        let p = || E::Var("p0".into());
        let ops = || vec![PatOp { wrap: Wrap::None, op: POp::Param { name: "p0".into(), ty: PType::Untyped } }];
        let (k1, k2) = match template {
            // thresholds a few bytes behind the start of the block: the two families then move in opposite
            // directions while the block settles (an early label moves, a later one may stay)
            Some(base) => (base + t.draw(3) as u64, base + 1 + t.draw(4) as u64),
            None => (*t.pick(&[4u64, 8, 16, 32, 64]), *t.pick(&[4u64, 8, 16, 32, 64])),
        };
        let lit = crate::gen::expr::lit_of;
        let short = |opc: u64, c: E| E::Block(vec![E::Call("assert".into(), vec![c]), crate::gen::isa::concat_all(vec![crate::gen::isa::sized_lit(opc, 4), E::SliceShort(Box::new(p()), Box::new(lit(4)))])]);
        let long = |opc: u64, w: u64| crate::gen::isa::concat_all(vec![crate::gen::isa::sized_lit(opc, 4), E::SliceShort(Box::new(p()), Box::new(lit(w)))]);
        let b0 = &mut isa.blocks[0].rules;
        b0.push(Rule { mnemonic: "bgr".into(), ops: ops(), prod: short(0x1, E::Bin(BinOp::Lt, Box::new(p()), Box::new(lit(k1)))), size: 8 });
        b0.push(Rule { mnemonic: "bgr".into(), ops: ops(), prod: long(0x2, 20), size: 24 });
        b0.push(Rule { mnemonic: "bsh".into(), ops: ops(), prod: short(0x3, E::Bin(BinOp::Ge, Box::new(p()), Box::new(lit(k2)))), size: 8 });
        b0.push(Rule { mnemonic: "bsh".into(), ops: ops(), prod: long(0x4, 20), size: 24 });
    }
    let (mut prog, _info) = ProgGen { max_items: 14, allow_banks: false, allow_faults: false, family_bias: true }.gen(t, isa);
    // the block: either a run of the generated instructions, or the directed shape
    //   bgr/bsh L0 ; L0: ; bsh/bgr L0|L1 ; L1: ; ...
    let (a, mut b);
    if directed {
        let at = if template.is_some() { 0 } else { t.below(prog.items.len() + 1) };
        match template {
            Some(base) if base > 0 => prog.items.insert(at, Item::Addr(crate::gen::expr::lit_of(base))),
            _ => prog.items.insert(at, Item::Align(crate::gen::expr::lit_of(8))),
        }
        a = at + 1;
        let n = t.urange(2, 4);
        for k in 0..n {
            let mn = if t.flip() { "bgr" } else { "bsh" };
            let target = format!("bq{}", t.below(2));
            let e = if t.chance(1, 3) { E::Bin(BinOp::Add, Box::new(E::Var(target)), Box::new(crate::gen::expr::lit_of(t.draw(6) as u64))) } else { E::Var(target) };
            prog.items.insert(a + k, Item::Instr(Instr { mnemonic: mn.into(), ops: vec![InsOp { wrap: Wrap::None, op: IOp::Expr(e) }] }));
        }
        b = a + n;
    } else {
        let runs: Vec<usize> = (0..prog.items.len()).filter(|&i| matches!(prog.items[i], Item::Instr(_))).collect();
        if runs.is_empty() {
            return None;
        }
        a = *t.pick(&runs);
        b = a;
        let want = t.urange(1, 4);
        while b < prog.items.len() && b - a < want && matches!(prog.items[b], Item::Instr(_)) {
            b += 1;
        }
        // retarget some expression operands to the block labels
        for i in a..b {
            if let Item::Instr(ins) = &mut prog.items[i] {
                for o in ins.ops.iter_mut() {
                    if matches!(o.op, IOp::Expr(_)) && t.flip() {
                        o.op = IOp::Expr(E::Var(format!("bq{}", t.below(2))));
                    }
                }
            }
        }
    }
    // inlining bq labels as global labels must not re-parent what follows
    for it in prog.items[a..].iter().skip(b - a) {
        if matches!(it, Item::Label { dots: 0, .. }) {
            break;
        }
        if item_is_scope_sensitive(it) {
            return None;
        }
    }
    if prog.items[a..b].iter().any(item_is_scope_sensitive) {
        return None;
    }
    // both labels are declared somewhere in the window (positions a..=b)
    let nlabels = 2;
    let mut pos: Vec<usize> = (0..nlabels).map(|_| t.urange(0, b - a)).collect();
    pos.sort();
    for (k, p) in pos.iter().enumerate().rev() {
        prog.items.insert(a + p, Item::Label { dots: 0, name: format!("bq{}", k) });
    }
    // labels were inserted from the back, so names may be out of order relative to positions: harmless
    b += nlabels;
    // macro program text
    let mut src = isa_text(&prog.isa);
    src.push_str("#ruledef\n{\n    blkq => asm\n    {\n");
    for it in &prog.items[a..b] {
        src.push_str("        ");
        src.push_str(&item_text(it));
        src.push('\n');
    }
    src.push_str("    }\n}\n");
    for (i, it) in prog.items.iter().enumerate() {
        if i == a {
            src.push_str("blkq\n");
        }
        if i >= a && i < b {
            continue;
        }
        src.push_str(&item_text(it));
        src.push('\n');
    }
    if a == prog.items.len() {
        src.push_str("blkq\n");
    }
    Some(BlockCase { inlined: prog, window: (a, b), macro_src: src, nlabels })
}

/// Certificate for a macro program: SOME assignment of sizes to the instructions inside the block, summing to
/// the size the assembler gave the macro call, must make the hand-inlined program a consistent fixed point
/// with exactly the emitted bits and symbols. None = certified (or outside the model: not judged).
pub fn block_certificate(c: &BlockCase, ok: &sut::AsmOk) -> Option<(String, String)> {
    let (a, b) = c.window;
    let p = &c.inlined;
    // spans of the macro program: one per label / instruction / data element outside the window, one for the call
    let mut k = 0;
    let mut sizes: HashMap<usize, usize> = HashMap::new();
    let mut block_size = None;
    for (i, it) in p.items.iter().enumerate() {
        if i == a {
            block_size = Some(ok.spans.get(k)?.size);
            k += 1;
        }
        if i >= a && i < b {
            continue;
        }
        match it {
            Item::Label { .. } => k += 1,
            Item::Instr(_) => {
                sizes.insert(i, ok.spans.get(k)?.size);
                k += 1;
            }
            Item::Data { elems, .. } => k += elems.len(),
            _ => {}
        }
    }
    if a == p.items.len() {
        block_size = Some(ok.spans.get(k)?.size);
        k += 1;
    }
    if k != ok.spans.len() {
        return Some(("span-count".into(), format!("{} spans do not correspond to the macro program's items", ok.spans.len())));
    }
    let block_size = block_size?;
    let inner: Vec<usize> = (a..b).filter(|&i| matches!(p.items[i], Item::Instr(_))).collect();
    let cands: Vec<Vec<usize>> = inner
        .iter()
        .map(|&i| {
            let Item::Instr(ins) = &p.items[i] else { unreachable!() };
            let mut v: Vec<usize> = Vec::new();
            for m in survivors(&p.isa, ins) {
                v.push(match_size(&p.isa, &m));
                // a production that is a conditional has the size of either arm
                if let E::Tern(_, x, y) = &rule_of(&p.isa, &m).prod {
                    for arm in [x, y] {
                        if let Some(sz) = refasm::static_size(arm, &HashMap::new()) {
                            v.push(sz);
                        }
                    }
                }
            }
            v.sort();
            v.dedup();
            v
        })
        .collect();
    if cands.iter().any(|c| c.is_empty()) {
        return None; // an inner instruction has no syntactic match in the model: not judged
    }
    let mut idx = vec![0usize; inner.len()];
    let mut tried = 0;
    let mut last_reject = String::new();
    loop {
        let total: usize = idx.iter().enumerate().map(|(j, &x)| cands[j][x]).sum();
        if total == block_size {
            tried += 1;
            let mut s2 = sizes.clone();
            for (j, &i) in inner.iter().enumerate() {
                s2.insert(i, cands[j][idx[j]]);
            }
            match refasm::assemble_forced(p, Some(&s2)) {
                RefResult::Invalid(_) => return None,
                RefResult::Ok(mut m) => {
                    m.symbols.retain(|(n, _)| !n.starts_with("bq"));
                    match crate::props::c01::compare(&RefResult::Ok(m), &AsmOutcome::Ok(ok.clone())) {
                        None => return None,
                        Some((cl, d)) => last_reject = format!("{}: {}", cl, d),
                    }
                }
                // a block label off an address-unit boundary: a top-level label must be aligned, what a block label
                // does there is not fixed by the statement, so such cases are not judged
                RefResult::Reject { class: "unaligned-label", .. } => return None,
                RefResult::Reject { item, class, detail } => last_reject = format!("item {} {}: {}", item, class, detail),
            }
        }
        // next combination
        let mut j = 0;
        loop {
            if j == idx.len() {
                return Some((
                    "success-is-not-a-fixed-point:asm-block".into(),
                    format!(
                        "assembler succeeded ({} bits {}; the macro call occupies {} bits) but none of the {} size assignments of the block's instructions makes the inlined program self-consistent with these bits (last: {})",
                        ok.bits.len(),
                        sut::bits_hex(&ok.bits),
                        block_size,
                        tried,
                        last_reject
                    ),
                ));
            }
            idx[j] += 1;
            if idx[j] < cands[j].len() {
                break;
            }
            idx[j] = 0;
            j += 1;
        }
    }
}

impl Property for C02 {
    fn id(&self) -> &'static str {
        "C02"
    }
    fn rule(&self) -> String {
        "each case = a generated instruction set with 1-3 cascading families (same pattern, different sizes, selected by typed widths, disjoint or overlapping assert \
         ranges, or position-relative ranges) plus ordinary rules, and a program with forward/backward references, data, reservations, alignments and banks; assembled under \
         iteration budgets from {1..12,15,20,30} x the four optimisation-switch combinations (quick: 2 budgets drawn per case + budget 10, thorough: all 15). Oracle = \
         certificate check on whatever state the assembler claims: instruction sizes are read from output.spans, the layout and every label are recomputed from them, \
         every instruction's syntactic survivors are evaluated with the FINAL symbol values at its ACTUAL address, failed constraints discarded, and the unique smallest \
         encoding must have the claimed size and equal the emitted bits; bits, length and symbols must equal the recomputation; a #res / #align / #addr whose amount depends on the layout itself (a constant defined from labels further down) takes the position the assembler gives the next item and must evaluate to exactly that amount with the final symbols (directed templates: a lagging constant; a statically known prefix followed by such a directive, a label and a short/long instruction naming it; a constant whose WIDTH depends on a label behind the instruction that reads it through forward constants). An error outcome is accepted. \
         (v4) one case in 24 is one of two templates - a constant computed from a constant that aliases a label which moves after the first pass (`qa = table / qb = qa + 4 / jq qb / #d8 qb` behind short/long instructions), or same-text-in-two-scopes: `lit .len` under two global labels, a literal constant in the first scope, `.len = $ - second` behind 1-8 short/long instructions in the second, with the width cascade `lit {x: u4}` / `lit {x: u8}`. \
         Non-trivial = success with an instruction whose emitted size differs from the largest candidate size, or >= 3 passes; distinct by hash of source."
            .to_string()
    }
    fn assumptions(&self) -> Vec<String> {
        vec!["spans are recorded one per label, instruction and data element in source order (checked: a different count is reported)".into()]
    }
    fn tape_len(&self, _t: Tier) -> usize {
        900
    }
    fn fuzz_runs(&self, _tier: Tier) -> u64 {
        40_000
    }
    fn random_cases(&self, tier: Tier) -> u64 {
        tier.pick(50_000, 250_000)
    }
    fn run(&self, t: &mut Tape, ctx: &mut CaseCtx) -> Verdict {
        let (prog, _info) = gen_cascade(t, 22);
        let (src, _) = render(&prog);
        ctx.set_hash_str(&src);
        let budgets: Vec<usize> = if ctx.tier == Tier::Thorough {
            BUDGETS.to_vec()
        } else {
            let mut b = vec![*t.pick(BUDGETS), *t.pick(BUDGETS), 10];
            b.sort();
            b.dedup();
            b
        };
        ctx.render(|| serde_json::json!({"source": src, "budgets": budgets}));
        let mut any_ok = false;
        for &budget in &budgets {
            for (st, mt) in [(true, true), (false, true), (true, false), (false, false)] {
                let o = sut::assemble_src(&src, &Opts { max_iterations: budget, opt_static: st, opt_matcher: mt, defines: vec![] });
                ctx.evals += 1;
                match &o {
                    AsmOutcome::Ok(ok) => {
                        any_ok = true;
                        if has_value_dependent_choice(&prog, ok) || ok.iterations >= 3 {
                            ctx.nontrivial = true;
                        }
                        ctx.label(format!("passes:{}", ok.iterations.min(12)));
                        if let Some((clause, detail)) = certificate(&prog, ok) {
                            ctx.want_render = true;
                            ctx.render(|| serde_json::json!({"source": src, "budget": budget, "opt_static": st, "opt_matcher": mt}));
                            return Verdict::fail(clause, format!("budget {} static={} matcher={}: {}", budget, st, mt, detail));
                        }
                    }
                    AsmOutcome::Err(_) => ctx.label("error"),
                    AsmOutcome::Panic(p) => {
                        ctx.want_render = true;
                        ctx.render(|| serde_json::json!({"source": src, "budget": budget}));
                        return Verdict::fail(format!("panic {}", sut::panic_site(p)), p.clone());
                    }
                    AsmOutcome::Inconsistent { detail, .. } => {
                        ctx.want_render = true;
                        ctx.render(|| serde_json::json!({"source": src, "budget": budget}));
                        return Verdict::fail("inconsistent-result", detail.clone());
                    }
                }
            }
        }
        ctx.label(if any_ok { "some-success" } else { "never-succeeds" });
        // part B uses the rest of the tape (an exhausted tape skips it, so older replay tapes keep their meaning)
        if crate::engine::gen_version() >= 2 && t.chance(1, 2) {
            if let Some(c) = gen_block_case(t) {
                ctx.label("block:case");
                let (inl_src, _) = render(&c.inlined);
                ctx.add_hash(&c.macro_src);
                for budget in [10usize, *t.pick(BUDGETS)] {
                    for (st, mt) in [(true, true), (false, false)] {
                        let o = sut::assemble_src(&c.macro_src, &Opts { max_iterations: budget, opt_static: st, opt_matcher: mt, defines: vec![] });
                        ctx.evals += 1;
                        match &o {
                            AsmOutcome::Ok(ok) => {
                                ctx.label("block:ok");
                                if ok.iterations >= 2 {
                                    ctx.nontrivial = true;
                                }
                                if let Some((clause, detail)) = block_certificate(&c, ok) {
                                    ctx.want_render = true;
                                    ctx.render(|| serde_json::json!({"macro_program": c.macro_src, "inlined_program": inl_src, "budget": budget, "opt_static": st, "opt_matcher": mt}));
                                    return Verdict::fail(clause, format!("budget {} static={} matcher={}: {}", budget, st, mt, detail));
                                }
                            }
                            AsmOutcome::Err(_) => ctx.label("block:error"),
                            AsmOutcome::Panic(p) => {
                                ctx.want_render = true;
                                ctx.render(|| serde_json::json!({"macro_program": c.macro_src, "budget": budget}));
                                return Verdict::fail(format!("panic {}", sut::panic_site(p)), p.clone());
                            }
                            AsmOutcome::Inconsistent { detail, .. } => {
                                ctx.want_render = true;
                                ctx.render(|| serde_json::json!({"macro_program": c.macro_src, "budget": budget}));
                                return Verdict::fail("inconsistent-result", detail.clone());
                            }
                        }
                    }
                }
            } else {
                ctx.label("block:skipped-scope-sensitive");
            }
        }
        Verdict::Pass
    }
}
