//! C11 — every output format carries exactly the assembled bits.

use crate::engine::sut::{self, MemFs};
use crate::engine::{CaseCtx, Property, Tape, Tier, Verdict};
use crate::model::formats::*;
use customasm::{asm, diagn, driver, util};
use serde_json::json;

pub struct C11;

pub const FORMATS: &[&str] = &[
    "binary", "binstr", "hexstr", "bindump", "hexdump", "mif", "intelhex", "intelhex,addr_unit:8", "intelhex,addr_unit:16", "intelhex,addr_unit:32",
    "deccomma", "hexcomma", "decspace", "hexspace", "decc", "hexc", "c", "logisim8", "logisim16",
];

fn parse_format(name: &str) -> Result<driver::OutputFormat, String> {
    let mut r = diagn::Report::new();
    driver::parse_output_format(&mut r, name).map_err(|_| format!("format name `{}` rejected", name))
}

/// check one formatted text against the bits it must carry. `blocks`: written (offset,size) ranges.
pub fn check_format(name: &str, data: &[u8], bits: &[bool], blocks: &[(usize, usize)]) -> Result<(), String> {
    let text = || String::from_utf8(data.to_vec()).map_err(|_| "output is not UTF-8".to_string());
    let expect = |got: Bits, granule: usize| -> Result<(), String> {
        let want = pad(bits, granule);
        if got != want {
            let first = got.iter().zip(want.iter()).position(|(a, b)| a != b);
            return Err(format!(
                "decodes to {} bits {}, expected {} bits {} (first difference at {:?})",
                got.len(),
                sut::bits_hex(&got),
                want.len(),
                sut::bits_hex(&want),
                first
            ));
        }
        Ok(())
    };
    let base = name.split(',').next().unwrap();
    match base {
        "binary" => expect(decode_binary(data)?, 8),
        "binstr" => expect(decode_digit_string(&text()?, 1)?, 1),
        "hexstr" => expect(decode_digit_string(&text()?, 4)?, 4),
        "bindump" => expect(decode_dump(&text()?, 1, 8, bits.len())?, 1),
        "hexdump" => expect(decode_dump(&text()?, 4, 16, bits.len())?, 4),
        "mif" => expect(decode_mif(&text()?)?, 8),
        "intelhex" => {
            let unit = name.split("addr_unit:").nth(1).and_then(|s| s.parse().ok()).unwrap_or(8);
            let recs = decode_intelhex(&text()?, unit)?;
            // every record shows the bits really at its position (zero past the end)
            let mut covered = vec![false; bits.len() + 64];
            for r in &recs {
                if r.data.len() > 32 {
                    return Err(format!("record with {} data bytes", r.data.len()));
                }
                for (k, byte) in r.data.iter().enumerate() {
                    for b in 0..8 {
                        let pos = r.bit_offset + k * 8 + b;
                        let want = bits.get(pos).copied().unwrap_or(false);
                        let got = (byte >> (7 - b)) & 1 == 1;
                        if got != want {
                            return Err(format!("record at bit offset {} shows bit {} = {}, output has {}", r.bit_offset, pos, got as u8, want as u8));
                        }
                        if pos < covered.len() {
                            if covered[pos] && pos < bits.len() {
                                return Err(format!("bit {} is carried by two records", pos));
                            }
                            covered[pos] = true;
                        }
                    }
                }
            }
            for (o, s) in blocks {
                for pos in *o..(o + s) {
                    if !covered[pos] {
                        return Err(format!("written bit {} (block at {} size {}) is carried by no record", pos, o, s));
                    }
                }
            }
            Ok(())
        }
        "deccomma" => expect(decode_separated(&text()?, 10, ", ")?, 8),
        "hexcomma" => expect(decode_separated(&text()?, 16, ", ")?, 8),
        "decspace" => expect(decode_separated(&text()?, 10, " ")?, 8),
        "hexspace" => expect(decode_separated(&text()?, 16, " ")?, 8),
        "decc" => expect(decode_c_array(&text()?, 10)?, 8),
        "hexc" | "c" => expect(decode_c_array(&text()?, 16)?, 8),
        "logisim8" => expect(decode_logisim(&text()?, 8)?, 8),
        "logisim16" => expect(decode_logisim(&text()?, 16)?, 16),
        _ => Err(format!("no decoder for {}", name)),
    }
}

/// a trivial successful assembly, to obtain decls/defs for driver::format_output
fn assemble_for(fs: &mut MemFs, src: &str) -> Result<asm::AssemblyResult, String> {
    fs.add("main.asm", src.as_bytes().to_vec());
    let mut report = diagn::Report::new();
    let res = asm::assemble(&mut report, &asm::AssemblyOptions::new(), fs, &["main.asm"]);
    if res.output.is_none() {
        return Err(format!("program does not assemble: {}", sut::first_error_text(&sut::messages(&report, fs))));
    }
    Ok(res)
}

pub fn run_all_formats(res: &asm::AssemblyResult, fs: &MemFs, output: &util::BitVec, bits: &[bool], blocks: &[(usize, usize)], ctx: &mut CaseCtx) -> Option<(String, String)> {
    for name in FORMATS {
        let fmt = match parse_format(name) {
            Ok(f) => f,
            Err(e) => return Some((format!("{}|format-name-rejected", name), e)),
        };
        ctx.evals += 1;
        let data = sut::catch(|| driver::format_output(fs, res.decls.as_ref().unwrap(), res.defs.as_ref().unwrap(), output, fmt));
        let fail = match data {
            Err(p) => Some((format!("{}|panic {}", name, sut::panic_site(&p)), format!("{} bits: panic {}", bits.len(), p))),
            Ok(d) => match check_format(name, &d, bits, blocks) {
                Ok(()) => None,
                Err(e) => Some((
                    format!("{}|wrong-content", name.split(',').next().unwrap()),
                    format!("{} bits, format {}: {} -- text: {:?}", bits.len(), name, e, String::from_utf8_lossy(&d).chars().take(300).collect::<String>()),
                )),
            },
        };
        if let Some((clause, detail)) = fail {
            if !ctx.is_known(&clause) {
                return Some((clause, detail));
            }
            ctx.known_hits.push(clause);
        }
    }
    None
}

pub fn lengths(tier: Tier) -> Vec<usize> {
    match tier {
        Tier::Thorough => (0..=4096).collect(),
        Tier::Quick => {
            let mut v: Vec<usize> = (0..=520).collect();
            for l in 521..=4096usize {
                if matches!(l % 256, 0 | 1 | 7 | 8 | 9 | 15 | 16 | 17 | 127 | 128 | 129 | 255) {
                    v.push(l);
                }
            }
            v
        }
    }
}

fn content(kind: usize, len: usize, seed: u64) -> Vec<bool> {
    match kind {
        0 => {
            let mut s = seed | 1;
            (0..len)
                .map(|_| {
                    s ^= s << 13;
                    s ^= s >> 7;
                    s ^= s << 17;
                    s & 1 == 1
                })
                .collect()
        }
        1 => vec![true; len],
        _ => vec![false; len],
    }
}

impl Property for C11 {
    fn id(&self) -> &'static str {
        "C11"
    }
    fn rule(&self) -> String {
        "ENUMERATED: single-block outputs of every length (thorough: 0..=4096 bits; quick: 0..=520 and every length congruent to 0,1,7,8,9,15,16,17,127,128,129,255 mod 256 up to 4096) \
         x content {pseudo-random, all ones, all zeros}, built directly through the BitVec API with one span, formatted by driver::format_output in each of 19 format spellings \
         (binary, binstr, hexstr, bindump, hexdump, mif, intelhex with addr_unit default/8/16/32, dec/hex comma/space, decc, hexc, c, logisim8/16). RANDOM: programs of #dN pieces \
         (N = 1..64) with 1-4 blocks separated by forward #addr gaps (on any byte boundary), labels and #res reservations between the pieces, or - one case in four - in a bank with 1-, 2- or 4-bit addresses where #res and forward #addr let a written range start at ANY bit offset, assembled and formatted the same way, and then once more through the command-line driver with three output groups in ONE invocation (three consecutive format spellings of the list, so that the parameter variants of one format meet), each written file decoded by its own format and parameters. Oracle = an independent decoder \
         per format (addresses, '.' padding and ASCII column of the dumps, DEPTH/addresses/END of MIF, record length/address/type/checksum/EOF of Intel HEX with union of records = \
         every written bit, 16-per-line structure and address comments of the list formats): the decoded bits must equal the output zero-padded to the format's granule. \
         Non-trivial = length not a multiple of the granule (8), or within +-1 of a line/record size (128, 256 bits), or >= 2 blocks, or length 0; distinct by (length, content kind) / hash of source."
            .to_string()
    }
    fn exhaustive(&self, tier: Tier) -> bool {
        tier == Tier::Thorough
    }
    fn enumerated(&self, tier: Tier) -> u64 {
        lengths(tier).len() as u64 * 3
    }
    fn run_enumerated(&self, index: u64, ctx: &mut CaseCtx) -> Verdict {
        let ls = lengths(ctx.tier);
        let len = ls[(index / 3) as usize];
        let kind = (index % 3) as usize;
        let bits = content(kind, len, 0x9e3779b97f4a7c15 ^ (len as u64 * 31 + 7));
        ctx.hash = crate::engine::mix(len as u64, kind as u64);
        ctx.nontrivial = len % 8 != 0 || len == 0 || [127, 128, 129, 255, 256, 257].contains(&(len % 256)) || kind == 0;
        ctx.label(format!("len-mod-8:{}", len % 8));
        ctx.render(|| json!({"construction": "direct BitVec", "length": len, "content": (["random", "ones", "zeros"][kind]), "bits": sut::bits_hex(&bits)}));
        let mut fs = MemFs::new();
        let res = match assemble_for(&mut fs, "#d8 0\n") {
            Ok(r) => r,
            Err(e) => return Verdict::fail("setup", e),
        };
        let mut bv = util::BitVec::new();
        for (i, b) in bits.iter().enumerate() {
            bv.write_bit(i, *b);
        }
        let mut blocks = vec![];
        if len > 0 {
            bv.mark_span(Some(0), len, util::BigInt::from(0), diagn::Span::new_dummy());
            blocks.push((0, len));
        }
        if bv.len() != len {
            return Verdict::fail("bitvec-length", format!("wrote {} bits, len() = {}", len, bv.len()));
        }
        match run_all_formats(&res, &fs, &bv, &bits, &blocks, ctx) {
            None => Verdict::Pass,
            Some((c, d)) => {
                ctx.want_render = true;
                ctx.render(|| json!({"construction": "direct BitVec", "length": len, "content": (["random", "ones", "zeros"][kind]), "bits": sut::bits_hex(&bits)}));
                Verdict::fail(c, d)
            }
        }
    }
    fn random_cases(&self, tier: Tier) -> u64 {
        tier.pick(60_000, 300_000)
    }
    fn tape_len(&self, _t: Tier) -> usize {
        400
    }
    fn run(&self, t: &mut Tape, ctx: &mut CaseCtx) -> Verdict {
        // assembled programs: #dN pieces in 1..4 blocks separated by forward #addr
        let nblocks = t.weighted(&[5, 3, 2, 1]) + 1;
        let mut src = String::new();
        let mut bits: Vec<bool> = Vec::new();
        let mut blocks: Vec<(usize, usize)> = Vec::new();
        let mut nlabels = 0;
        // v2: a bank with address units of 1, 2 or 4 bits, where reservations and forward #addr let a written range
        // start at ANY bit offset (not only on the granule of a format)
        let fine = crate::engine::gen_version() >= 2 && t.chance(1, 4);
        if fine {
            let u = *t.pick(&[1usize, 2, 4]);
            ctx.label(format!("fine-bank:unit-{}", u));
            src.push_str(&format!("#bankdef a\n{{\n    bits = {}\n    addr = 0\n    outp = 0\n}}\n", u));
            let pieces = t.urange(2, 14);
            let mut start = 0usize;
            for i in 0..pieces {
                if t.chance(1, 3) {
                    if bits.len() > start {
                        blocks.push((start, bits.len() - start));
                    }
                    let k = t.urange(1, 40);
                    if t.flip() {
                        src.push_str(&format!("#res {}\n", k));
                    } else {
                        src.push_str(&format!("#addr {}\n", bits.len() / u + k));
                    }
                    bits.resize(bits.len() + u * k, false);
                    start = bits.len();
                }
                if t.chance(1, 6) {
                    nlabels += 1;
                    src.push_str(&format!("lb{}:\n", nlabels));
                }
                let n = u * t.urange(1, (64 / u).min(if i % 2 == 0 { 64 } else { 9 }));
                let v = t.bits64() & if n == 64 { u64::MAX } else { (1u64 << n) - 1 };
                src.push_str(&format!("#d{} {}\n", n, v));
                for k in (0..n).rev() {
                    bits.push((v >> k) & 1 == 1);
                }
            }
            if bits.len() > start {
                blocks.push((start, bits.len() - start));
            }
        }
        for b in 0..if fine { 0 } else { nblocks } {
            if b > 0 {
                // start the next block on a byte boundary strictly after the current end, with a gap
                let end_bytes = (bits.len() + 7) / 8;
                // on a 32-bit boundary, so that the start is expressible at every Intel HEX address unit
                // (v2: on any byte boundary: a format has to widen a range to its own granule)
                let start = if crate::engine::gen_version() >= 2 && t.flip() { end_bytes + t.urange(1, 40) } else { ((end_bytes + t.urange(1, 40)) + 3) / 4 * 4 };
                src.push_str(&format!("#addr {}\n", start));
                bits.resize(start * 8, false);
            }
            let mut start = bits.len();
            let pieces = t.urange(1, 12);
            let v2 = crate::engine::gen_version() >= 2;
            for _ in 0..pieces {
                // v2: labels (zero-size items) and reservations (unwritten zero bits) between the data pieces
                if v2 && bits.len() % 8 == 0 && t.chance(1, 6) {
                    nlabels += 1;
                    src.push_str(&format!("lb{}:\n", nlabels));
                }
                if v2 && bits.len() % 8 == 0 && t.chance(1, 4) {
                    if bits.len() > start {
                        blocks.push((start, bits.len() - start));
                    }
                    let k = if bits.len() % 32 == 0 && t.flip() { 4 * t.urange(1, 3) } else { t.urange(1, 9) };
                    src.push_str(&format!("#res {}\n", k));
                    bits.resize(bits.len() + 8 * k, false);
                    start = bits.len();
                    if t.chance(1, 3) {
                        nlabels += 1;
                        src.push_str(&format!("lb{}:\n", nlabels));
                    }
                }
                let n = if t.chance(3, 4) { 8 * t.urange(1, 8) } else { t.urange(1, 64) };
                let v = t.bits64() & if n == 64 { u64::MAX } else { (1u64 << n) - 1 };
                src.push_str(&format!("#d{} {}\n", n, v));
                for k in (0..n).rev() {
                    bits.push((v >> k) & 1 == 1);
                }
            }
            if bits.len() > start {
                blocks.push((start, bits.len() - start));
            }
        }
        ctx.set_hash_str(&src);
        ctx.nontrivial = blocks.len() >= 2 || bits.len() % 8 != 0;
        ctx.label(format!("blocks:{}", blocks.len().min(6)));
        if blocks.iter().any(|b| b.0 % 8 != 0) {
            ctx.label("a-written-range-starts-off-byte");
        }
        ctx.render(|| json!({"construction": "assembled", "source": src, "length": bits.len()}));
        let mut fs = MemFs::new();
        let res = match assemble_for(&mut fs, &src) {
            Ok(r) => r,
            Err(e) => return Verdict::fail("valid-program-rejected", e),
        };
        let out = res.output.as_ref().unwrap();
        let got = sut::bitvec_bits(out);
        if got != bits {
            ctx.want_render = true;
            ctx.render(|| json!({"source": src}));
            return Verdict::fail("assembled-bits-differ", format!("expected {} got {}", sut::bits_hex(&bits), sut::bits_hex(&got)));
        }
        let all = run_all_formats(&res, &fs, out, &bits, &blocks, ctx);
        // round 12: the same program through the command-line driver with THREE output groups in one invocation
        // (three consecutive format spellings, so that the parameter variants of one format meet): every file must
        // still decode to the assembled bits by the rules of ITS OWN format and parameters
        let all = if all.is_some() {
            all
        } else {
            let start = bits.len() % FORMATS.len();
            let names: Vec<&str> = (0..3).map(|k| FORMATS[(start + k) % FORMATS.len()]).collect();
            let mut args: Vec<String> = vec!["main.asm".into(), "-q".into()];
            for (k, n) in names.iter().enumerate() {
                if k > 0 {
                    args.push("--".into());
                }
                args.extend(["-f".to_string(), n.to_string(), "-o".to_string(), format!("o{}.out", k)]);
            }
            let mut fs2 = MemFs::new();
            fs2.add("main.asm", src.as_bytes().to_vec());
            ctx.evals += 1;
            match sut::drive(&mut fs2, &args) {
                Err(p) => Some(("groups|panic".to_string(), format!("{:?}: panic {}", args, p))),
                Ok(o) if !o.ok => Some(("groups|valid-command-line-rejected".to_string(), format!("{:?}: {}", args, sut::first_error_text(&o.msgs)))),
                Ok(o) => {
                    let mut bad = None;
                    for (k, n) in names.iter().enumerate() {
                        let fname = format!("o{}.out", k);
                        match o.writes.iter().rev().find(|w| w.0 == fname) {
                            None => {
                                bad = Some(("groups|file-missing".to_string(), format!("{:?}: {} was not written", args, fname)));
                                break;
                            }
                            Some(w) => {
                                if let Err(e) = check_format(n, &w.1, &bits, &blocks) {
                                    let clause = format!("groups|{}|wrong-content", n.split(',').next().unwrap());
                                    if ctx.is_known(&clause) {
                                        ctx.known_hits.push(clause);
                                        continue;
                                    }
                                    bad = Some((clause, format!("{:?}: group {} ({}): {} -- text: {:?}", args, k, n, e, String::from_utf8_lossy(&w.1).chars().take(300).collect::<String>())));
                                    break;
                                }
                            }
                        }
                    }
                    bad
                }
            }
        };
        match all {
            None => Verdict::Pass,
            Some((c, d)) => {
                ctx.want_render = true;
                ctx.render(|| json!({"construction": "assembled", "source": src, "length": bits.len()}));
                Verdict::fail(c, d)
            }
        }
    }
}
