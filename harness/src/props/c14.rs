//! C14 — file inclusion is relative, confined, acyclic and once-only where asked.

use crate::engine::realbin;
use crate::engine::sut::{self, AsmOutcome, MemFs, Opts};
use crate::engine::{CaseCtx, Property, Tape, Tier, Verdict};
use crate::model::incl::*;
use serde_json::json;
use std::collections::{HashMap, HashSet};

pub struct C14;

const DIRS: &[&str] = &["", "a/", "a/b/", "lib/", "a/b/c/", "lib/x/"];
const STD_OK: &str = "<std>/cpu/6502.asm";
const SENTINEL: u8 = 0xEE;

fn dir_of(name: &str) -> Vec<&str> {
    let mut c: Vec<&str> = name.split('/').collect();
    c.pop();
    c
}

/// a spelling of `target` as seen from `from` (both project-relative names)
fn spell(t: &mut Tape, from: &str, target: &str) -> String {
    let fd = dir_of(from);
    let tc: Vec<&str> = target.split('/').collect();
    let mut s = match t.weighted(&[5, 3, 1]) {
        0 => {
            // relative: up to the common prefix, then down
            let mut common = 0;
            while common < fd.len() && common + 1 < tc.len() && fd[common] == tc[common] {
                common += 1;
            }
            let mut parts: Vec<String> = Vec::new();
            for _ in common..fd.len() {
                parts.push("..".into());
            }
            for c in &tc[common..] {
                parts.push(c.to_string());
            }
            parts.join("/")
        }
        1 => format!("/{}", target),
        _ => {
            // up to the root and down again
            let mut parts: Vec<String> = fd.iter().map(|_| "..".to_string()).collect();
            parts.push(target.to_string());
            parts.join("/")
        }
    };
    // decorations that must not change the meaning
    if t.chance(1, 4) && !s.starts_with('/') {
        s = format!("./{}", s);
    }
    if t.chance(1, 6) {
        s = s.replacen('/', "//", 1);
    }
    if t.chance(1, 5) {
        s = s.replace('/', "\\");
    }
    if t.chance(1, 8) {
        if let Some((d, f)) = s.rsplit_once('/') {
            s = format!("{}/zz/../{}", d, f);
        }
    }
    if t.chance(1, 10) {
        if let Some((d, f)) = s.rsplit_once('/') {
            s = format!("{}/./{}", d, f);
        }
    }
    s
}

pub struct Tree {
    pub files: HashMap<String, SrcFile>,
    pub order: Vec<String>,
    pub root: String,
    pub hostile: bool,
    pub has_dotdot: bool,
    pub depth2: bool,
    pub conditional: bool,
}

pub fn gen_tree(t: &mut Tape) -> Tree {
    let n = t.urange(1, 8);
    let mut order: Vec<String> = Vec::new();
    for i in 0..n {
        let d = if i == 0 && t.chance(2, 3) { "" } else { *t.pick(DIRS) };
        order.push(format!("{}f{}.asm", d, i));
    }
    let mut files: HashMap<String, SrcFile> = HashMap::new();
    let mut hostile = false;
    let mut has_dotdot = false;
    let mut conditional = false;
    for (i, name) in order.iter().enumerate() {
        let ne = t.urange(1, 4);
        let mut entries = Vec::new();
        for k in 0..ne {
            if t.chance(1, 2) || (i + 1 == n && k == 0) {
                entries.push(Entry::Marker((i * 16 + k + 1) as u8));
            } else {
                let p = match t.weighted(&[24, 2, 1, 1, 1, 2]) {
                    5 => {
                        // one `..` too many in front of a file that exists: must be rejected, not clamped
                        hostile = true;
                        let target = t.below(n);
                        format!("{}{}", "../".repeat(dir_of(name).len() + 1), order[target])
                    }
                    0 => {
                        // mostly forward (acyclic), sometimes any file (cycles, self-inclusion)
                        let target = if t.chance(1, 6) { t.below(n) } else { (i + 1 + t.below(n - i)).min(n - 1) };
                        spell(t, name, &order[target])
                    }
                    1 => {
                        hostile = true;
                        t.pick(&["../secret.asm", "../../secret.asm", "/../secret.asm", "a/../../secret.asm", "..\\secret.asm", "<std>/../../secret.asm", "<std>/../secret.asm", "./../../../secret.asm"])
                            .to_string()
                    }
                    2 => STD_OK.to_string(),
                    3 => "<std>/nope.asm".to_string(),
                    _ => "missing.asm".to_string(),
                };
                if p.contains("..") {
                    has_dotdot = true;
                }
                entries.push(Entry::Include(p));
            }
        }
        // v4: one file in four puts a run of its entries into the taken arm of a conditional block (constant
        // condition), with markers / an inclusion in the arm that is not taken; files may then hold inclusions ONLY
        // inside arms. (A #once file reached from inside a block is an error: see the model.)
        if crate::engine::gen_version() >= 4 && t.chance(1, 4) {
            let a = t.below(entries.len());
            let b = a + 1 + t.below(entries.len() - a);
            let taken: Vec<Entry> = entries.drain(a..b).collect();
            let mut dead = Vec::new();
            for _ in 0..t.draw(3) {
                if t.chance(1, 3) {
                    let target = (i + 1 + t.below(n - i)).min(n - 1);
                    dead.push(Entry::Include(spell(t, name, &order[target])));
                } else {
                    dead.push(Entry::Marker(0xee));
                }
            }
            let form = t.draw(4) as u8;
            let nested = t.chance(1, 5);
            let c = Entry::Cond { taken, dead, form };
            entries.insert(a, if nested { Entry::Cond { taken: vec![c], dead: vec![Entry::Marker(0xed)], form: t.draw(4) as u8 } } else { c });
            conditional = true;
        }
        files.insert(name.clone(), SrcFile { once: t.chance(1, if conditional { 8 } else { 4 }), entries });
    }
    // the one library file that may be named (rules only, no output)
    files.insert(STD_OK.to_string(), SrcFile::default());
    let root = order[0].clone();
    // inclusion depth >= 2 ?
    let depth2 = order.len() >= 3;
    Tree { files, order, root, hostile, has_dotdot, depth2, conditional }
}

/// some inclusion of these entries (also inside conditional blocks) satisfies the predicate
fn any_include(entries: &[Entry], pred: &dyn Fn(&str) -> bool) -> bool {
    entries.iter().any(|e| match e {
        Entry::Include(p) => pred(p),
        Entry::Cond { taken, dead, .. } => any_include(taken, pred) || any_include(dead, pred),
        Entry::Marker(_) => false,
    })
}

fn tree_json(tr: &Tree) -> serde_json::Value {
    json!({"root": tr.root, "files": tr.order.iter().map(|n| json!({"name": n, "text": file_text(&tr.files[n])})).collect::<Vec<_>>()})
}

// ---------------------------------------------------------------------------------------
// inclusion functions

const INCFN_BASE: u64 = 3 * 13 * 16 * 17;
const FUNCS: &[&str] = &["incbin", "incbinstr", "inchexstr"];

/// enumerated index -> (func, file length, start (15 = absent), len (15 = absent, 16 = huge))
fn incfn_case(index: u64) -> (usize, usize, usize, usize) {
    let f = (index % 3) as usize;
    let r = index / 3;
    let flen = (r % 13) as usize;
    let r = r / 13;
    let start = (r % 16) as usize;
    let len = (r / 16) as usize;
    (f, flen, start, len)
}

fn run_incfn(index: u64, ctx: &mut CaseCtx) -> Verdict {
    // variant 0: lower-case digits; 1: upper-case hexadecimal digits; 2: one character that is no digit of the radix
    let variant = index / INCFN_BASE;
    let index = index % INCFN_BASE;
    let (f, flen, start, len) = incfn_case(index);
    if variant > 0 && (f == 0 || flen == 0) || variant == 1 && f != 2 {
        ctx.skipped = true; // digit variants apply to the text functions only
        return Verdict::Pass;
    }
    if len > 16 {
        ctx.skipped = true;
        return Verdict::Pass;
    }
    if start == 15 && len != 15 {
        ctx.skipped = true; // a length without a start cannot be written
        return Verdict::Pass;
    }
    let func = FUNCS[f];
    let bits_per = [8usize, 1, 4][f];
    // file content
    let content: Vec<u8> = match f {
        0 => (0..flen).map(|i| 0x10 + i as u8 * 7).collect(),
        1 => (0..flen).map(|i| if (i * 5 + 1) % 3 == 0 { b'1' } else { b'0' }).collect(),
        _ if variant == 1 => (0..flen).map(|i| b"0123456789ABCDEF"[(i * 7 + 3) % 16]).collect(),
        _ => (0..flen).map(|i| b"0123456789abcdef"[(i * 7 + 3) % 16]).collect(),
    };
    let mut content = content;
    let bad_at = if variant == 2 {
        let at = (flen * 2) / 3;
        content[at] = if f == 1 { *[b'2', b'A', b'b', b'9'].get(flen % 4).unwrap() } else { *[b'g', b'G', b'x', b'Z'].get(flen % 4).unwrap() };
        Some(at)
    } else {
        None
    };
    let mut args = "\"data.bin\"".to_string();
    let s = if start == 15 { None } else { Some(start) };
    let l = match len {
        15 => None,
        16 => Some(usize::MAX),
        x => Some(x),
    };
    if let Some(s) = s {
        args.push_str(&format!(", {}", s));
    }
    if let Some(l) = l {
        args.push_str(&format!(", {}", if l == usize::MAX { "0xffff_ffff_ffff_ffff".to_string() } else { l.to_string() }));
    }
    let src = format!("#d {}({})\n", func, args);
    ctx.hash = crate::engine::mix(index + variant * INCFN_BASE, 0xc14);
    ctx.label(format!("fn:{}", func));
    if variant > 0 {
        ctx.label(["", "digits:upper-case", "digits:one-non-digit"][variant as usize]);
    }
    ctx.render(|| json!({"source": src, "data_file_length": flen}));
    let mut fs = MemFs::new();
    fs.add("main.asm", src.as_bytes().to_vec());
    fs.add("data.bin", content.clone());
    let out = sut::assemble(&mut fs, &["main.asm"], &Opts::default());
    ctx.evals += 1;
    // what the statement fixes
    let s0 = s.unwrap_or(0);
    let l0 = l.unwrap_or_else(|| flen.saturating_sub(s0));
    let end = s0.checked_add(l0);
    let bad_in_range = bad_at.map(|b| b >= s0 && end.map(|e| b < e).unwrap_or(true)).unwrap_or(false);
    let expect: Option<Result<Vec<bool>, ()>> = if bad_at.is_some() {
        // a non-digit inside the requested range cannot be returned as a digit; outside the range nothing is asserted
        if bad_in_range && l0 > 0 { Some(Err(())) } else { None }
    } else if flen == 0 && f == 0 && (s0 > 0 || l.map(|x| x > 0).unwrap_or(false)) {
        Some(Err(())) // any non-empty or displaced range of an empty file lies past its end
    } else if flen == 0 || l0 == 0 || s0 >= flen && l.is_none() {
        None // empty file, empty range, start at the end: not asserted
    } else if end.map(|e| e <= flen).unwrap_or(false) {
        let mut bits = Vec::new();
        for i in s0..s0 + l0 {
            let v = match f {
                0 => content[i] as u32,
                1 => (content[i] - b'0') as u32,
                _ => (content[i] as char).to_digit(16).unwrap(), // upper- and lower-case digits alike
            };
            for k in (0..bits_per).rev() {
                bits.push((v >> k) & 1 == 1);
            }
        }
        Some(Ok(bits))
    } else {
        Some(Err(()))
    };
    ctx.nontrivial = expect.is_some() && (s.is_some() || l.is_some());
    let fail = match (&expect, &out) {
        (_, AsmOutcome::Panic(p)) => Some((format!("{}|panic {}", func, sut::panic_site(p)), format!("`{}` with a {}-byte file: panic {}", src.trim(), flen, p))),
        (_, AsmOutcome::Inconsistent { detail, .. }) => Some((format!("{}|inconsistent", func), detail.clone())),
        (None, _) => None,
        (Some(Ok(bits)), AsmOutcome::Ok(ok)) => {
            if &ok.bits != bits {
                Some((format!("{}|wrong-data", func), format!("`{}` on a file of {} units gave {}, expected {}", src.trim(), flen, sut::bits_hex(&ok.bits), sut::bits_hex(bits))))
            } else {
                None
            }
        }
        (Some(Ok(_)), AsmOutcome::Err(m)) => Some((format!("{}|valid-range-rejected", func), format!("`{}` on a file of {} units: {}", src.trim(), flen, sut::first_error_text(m)))),
        (Some(Err(())), AsmOutcome::Ok(ok)) if bad_at.is_some() => Some((
            format!("{}|non-digit-accepted", func),
            format!("`{}` on a file holding `{}`: the character at {} is no digit of this radix but the call gave {}", src.trim(), String::from_utf8_lossy(&content), bad_at.unwrap(), sut::bits_hex(&ok.bits)),
        )),
        (Some(Err(())), AsmOutcome::Ok(ok)) => Some((
            format!("{}|range-past-end-accepted", func),
            format!("`{}` on a file of {} units reaches past its end but gave {} bits {}", src.trim(), flen, ok.bits.len(), sut::bits_hex(&ok.bits)),
        )),
        (Some(Err(())), AsmOutcome::Err(_)) => None,
    };
    match fail {
        None => Verdict::Pass,
        Some((c, d)) => {
            ctx.want_render = true;
            ctx.render(|| json!({"source": src, "data_file_length": flen}));
            Verdict::fail(c, d)
        }
    }
}

/// v2: inclusion functions written in INSTRUCTION OPERANDS, with the rules defined in a file of another
/// directory. The path is resolved relative to the file that contains the text: the file of the instruction for an
/// operand (also when the operand is matched through a sub-rule), the rule's file for a path in a production.
fn run_rulefile_case(t: &mut Tape, ctx: &mut CaseCtx) -> Verdict {
    ctx.label("rulefile-case");
    let dirs = ["", "cpu/", "lib/isa/", "app/"];
    let rule_dir = *t.pick(&dirs);
    let use_dir = *t.pick(&dirs);
    let mut files: Vec<(String, Vec<u8>)> = Vec::new();
    let content = |d: &str| -> Vec<u8> {
        match d {
            "" => vec![0x10, 0x11],
            "cpu/" => vec![0x20, 0x21, 0x22],
            "lib/isa/" => vec![0x30],
            _ => vec![0x40, 0x41],
        }
    };
    for d in dirs {
        files.push((format!("{}d.bin", d), content(d)));
    }
    let rules = "#subruledef operand\n{\n    #{v} => v\n    [{v}] => v\n}\n#ruledef\n{\n    ld {o: operand} => 0xaa @ o\n    raw {v} => 0xbb @ v\n    self => 0xcc @ incbin(\"d.bin\")\n    selfsub {o: operand} => 0xdd @ incbin(\"d.bin\") @ o\n    viaasm {v} => asm { raw {v} }\n}\n#fn fdata() => incbin(\"d.bin\")\n#fn fwrap(x) => 0xee @ x @ incbin(\"./d.bin\")\n";
    files.push((format!("{}rules.asm", rule_dir), rules.as_bytes().to_vec()));
    let mut body = String::new();
    let mut expect: Vec<u8> = Vec::new();
    let here = content(use_dir);
    let there = content(rule_dir);
    let n = t.urange(1, 5);
    let mut via_asm = false;
    for _ in 0..n {
        match if crate::engine::gen_version() >= 3 { t.draw(11) } else { t.draw(10) } {
            10 => {
                // v3: the argument text is written HERE and substituted into an asm block of the rules file
                body.push_str("viaasm incbin(\"d.bin\")\n");
                expect.push(0xbb);
                expect.extend(&here);
                via_asm = true;
            }
            7 => {
                // a function defined in the rules file names the file next to ITS text
                body.push_str("#d fdata()\n");
                expect.extend(&there);
            }
            8 => {
                body.push_str("raw fdata()\n");
                expect.push(0xbb);
                expect.extend(&there);
            }
            9 => {
                // the argument is written here, the body there
                body.push_str("#d fwrap(incbin(\"d.bin\"))\n");
                expect.push(0xee);
                expect.extend(&here);
                expect.extend(&there);
            }
            0 => {
                body.push_str("ld #incbin(\"d.bin\")\n");
                expect.push(0xaa);
                expect.extend(&here);
            }
            1 => {
                body.push_str("ld [incbin(\"d.bin\")]\n");
                expect.push(0xaa);
                expect.extend(&here);
            }
            2 => {
                body.push_str("raw incbin(\"d.bin\")\n");
                expect.push(0xbb);
                expect.extend(&here);
            }
            3 => {
                body.push_str("#d incbin(\"d.bin\")\n");
                expect.extend(&here);
            }
            4 => {
                body.push_str("self\n");
                expect.push(0xcc);
                expect.extend(&there);
            }
            5 => {
                body.push_str("selfsub #incbin(\"d.bin\")\n");
                expect.push(0xdd);
                expect.extend(&there);
                expect.extend(&here);
            }
            _ => {
                body.push_str("ld #incbin(\"./d.bin\")\n");
                expect.push(0xaa);
                expect.extend(&here);
            }
        }
    }
    // main.asm includes the rules (and the user file when that lives elsewhere)
    let mut main = format!("#include \"{}rules.asm\"\n", rule_dir);
    if use_dir.is_empty() {
        main.push_str(&body);
    } else {
        main.push_str(&format!("#include \"{}prog.asm\"\n", use_dir));
        files.push((format!("{}prog.asm", use_dir), body.clone().into_bytes()));
    }
    files.push(("main.asm".to_string(), main.clone().into_bytes()));
    let mut h = crate::engine::fnv(main.as_bytes());
    h = crate::engine::mix(h, crate::engine::fnv(body.as_bytes()));
    h = crate::engine::mix(h, crate::engine::fnv(rule_dir.as_bytes()));
    ctx.hash = h;
    ctx.nontrivial = rule_dir != use_dir;
    let render = || json!({"rules_in": format!("{}rules.asm", rule_dir), "instructions_in": if use_dir.is_empty() { "main.asm".to_string() } else { format!("{}prog.asm", use_dir) }, "main.asm": main, "instructions": body, "rules": rules});
    ctx.render(render);
    let mut fs = MemFs::from_files(&files);
    let o = sut::assemble(&mut fs, &["main.asm"], &sut::Opts::default());
    ctx.evals += 1;
    let want_bits: Vec<bool> = expect.iter().flat_map(|b| (0..8).rev().map(move |k| (b >> k) & 1 == 1)).collect();
    let res = match &o {
        sut::AsmOutcome::Ok(ok) if ok.bits == want_bits => None,
        // input predicate of a listed finding: an inclusion function written in an argument that is substituted
        // textually into an asm block of a rule defined in another directory
        sut::AsmOutcome::Ok(ok) if via_asm && rule_dir != use_dir => Some(("inclusion-function-in-macro-argument|wrong-file-included".to_string(), format!("expected {} , assembler {}", sut::bits_hex(&want_bits), sut::bits_hex(&ok.bits)))),
        sut::AsmOutcome::Ok(ok) => Some(("rulefile|wrong-file-included".to_string(), format!("expected {} , assembler {}", sut::bits_hex(&want_bits), sut::bits_hex(&ok.bits)))),
        sut::AsmOutcome::Panic(p) => Some((format!("rulefile|panic {}", sut::panic_site(p)), p.clone())),
        other => Some(("rulefile|valid-tree-rejected".to_string(), other.brief())),
    };
    match res {
        None => Verdict::Pass,
        Some((c, d)) => {
            ctx.want_render = true;
            ctx.render(render);
            Verdict::fail(c, d)
        }
    }
}

impl Property for C14 {
    fn id(&self) -> &'static str {
        "C14"
    }
    fn rule(&self) -> String {
        "RANDOM: directory trees (<= 6 directories to 3 levels, 1-8 source files, each emitting its own marker bytes) with inclusion graphs (forward chains and diamonds, one include in six \
         to an arbitrary file = cycles and self-inclusion, #once on a quarter of the files) whose paths are spelled relative (with the needed ../), root-anchored (leading /), up-to-the-root-and-down, \
         decorated with ./, doubled separators, backslashes, x/../ and /./ insertions; plus hostile spellings aiming at a sentinel outside the project (../, /../, a/../../, ..\\\\, <std>/../../), \
         <std>/ names inside and outside the built-in library and missing files. One case in five names a second root file on the command line (one assembly: shared #once set, inclusion stack per root). Oracle R-INCL on the in-memory file server: the expected marker sequence, or rejection. One case in ten instead puts the rules (and `#fn` functions) in a file of another directory and writes inclusion functions in instruction operands (direct, through a sub-rule), in productions, in function bodies and in an argument that a rule substitutes textually into an asm block: each path is relative to the file that contains its text. One case in twelve is \
         also materialised on the real file system in a scratch project directory (with a directory literally named `<std>` and a sentinel file one and two levels above) and assembled by the \
         real binary with a relative root: exit status and output must match the model and the sentinel's marker must never appear; a third of these runs spell the root `./name` (with a decoy of the hostile target's name inside the project). ENUMERATED: incbin / incbinstr / inchexstr on files of length \
         0..12 x every start 0..14 or absent x every length 0..14, absent or 2^64-1: ranges inside the file give exactly those bytes/digits, ranges past the end are rejected, also for an empty file (empty ranges and start = size are run but not asserted); x digit variants for the text functions: lower-case digits, upper-case hexadecimal digits, one character that is no digit of the radix inside the requested range (must be rejected). Non-trivial = (tree) a `..` or root-anchored spelling with >= 3 files, or a hostile path, (function) an explicit start or length. (v4) one file in four puts a run of its entries into the taken arm of a conditional block with a constant condition (`#if 1 == 1 {..} #else {..}`, `#if 1 == 0 {..} #else {..}`, `#if false {..} #elif true {..}`, `#if true {..}`, sometimes nested), with markers or an inclusion in the arm that is not taken: inclusions are resolved in BOTH arms (missing files and cycles are errors there too), markers only count in the taken one, and a #once file reached from inside a block is an error."
            .to_string()
    }
    fn assumptions(&self) -> Vec<String> {
        vec![
            "<std>/cpu/6502.asm is the library file used as the valid <std> target (rules only, no output)".into(),
            "a cycle that runs through a #once file and a library file included twice are run but not asserted (the statement does not say which rule wins)".into(),
        ]
    }
    fn setup(&self, _tier: Tier) -> Result<(), String> {
        realbin::build(false).map(|_| ())
    }
    fn crash_is_violation(&self) -> bool {
        true // an inclusion cycle that is not detected ends in a stack overflow / memory exhaustion
    }
    fn enumerated(&self, _tier: Tier) -> u64 {
        3 * INCFN_BASE
    }
    fn run_enumerated(&self, index: u64, ctx: &mut CaseCtx) -> Verdict {
        run_incfn(index, ctx)
    }
    fn tape_len(&self, _t: Tier) -> usize {
        300
    }
    fn fuzz_runs(&self, _tier: Tier) -> u64 {
        40_000
    }
    fn random_cases(&self, tier: Tier) -> u64 {
        tier.pick(200_000, 1_000_000)
    }
    fn run(&self, t: &mut Tape, ctx: &mut CaseCtx) -> Verdict {
        if crate::engine::gen_version() >= 2 && t.chance(1, 10) {
            return run_rulefile_case(t, ctx);
        }
        let tr = gen_tree(t);
        let std_names: HashSet<String> = sut::std_files().iter().map(|f| f.0.clone()).collect();
        // v2: one case in five names a second root file on the command line (one assembly, shared #once set)
        let second_root: Option<String> = if crate::engine::gen_version() >= 2 && tr.order.len() >= 2 && t.chance(1, 5) { Some(tr.order[1 + t.below(tr.order.len() - 1)].clone()) } else { None };
        let roots: Vec<&str> = match &second_root {
            Some(r) => vec![tr.root.as_str(), r.as_str()],
            None => vec![tr.root.as_str()],
        };
        let model = expand_many(&tr.files, &std_names, &roots);
        let mut h = if second_root.is_some() { crate::engine::fnv(roots[1].as_bytes()) } else { 0u64 };
        for n in &tr.order {
            h = crate::engine::mix(h, crate::engine::fnv(file_text(&tr.files[n]).as_bytes()));
            h = crate::engine::mix(h, crate::engine::fnv(n.as_bytes()));
        }
        ctx.hash = h;
        ctx.render(|| tree_json(&tr));
        if let Err(e) = &model {
            if e.contains("too large") || e.starts_with("unspecified") {
                ctx.excluded.push(e.chars().take(50).collect());
                ctx.skipped = true;
                return Verdict::Pass;
            }
        }
        ctx.label(match &model {
            Ok(_) => "model:ok".to_string(),
            Err(e) => format!("model:reject:{}", e.split(':').last().unwrap_or("").trim().split(' ').take(3).collect::<Vec<_>>().join("-")),
        });
        ctx.nontrivial = (tr.has_dotdot && tr.depth2) || tr.hostile;
        if tr.conditional {
            ctx.label("inclusion-inside-conditional-block");
        }
        // in-memory server
        let mut fs = MemFs::new();
        for n in &tr.order {
            fs.add(n, file_text(&tr.files[n]).into_bytes());
        }
        fs.add_std();
        // a file that an escaping path would find if confinement failed
        fs.add("../secret.asm", format!("#d8 {}\n", SENTINEL).into_bytes());
        let out = sut::assemble(&mut fs, &roots, &Opts::default());
        ctx.evals += 1;
        if second_root.is_some() {
            ctx.label("two-root-files");
        }
        let judge = |out_bytes: Option<Vec<u8>>, what: &str, brief: String| -> Option<(String, String)> {
            match (&model, out_bytes) {
                (Ok(seq), Some(b)) => {
                    if &b != seq {
                        Some((format!("{}|wrong-expansion", what), format!("expected marker sequence {:?}, got {:?}", seq, b)))
                    } else {
                        None
                    }
                }
                (Ok(seq), None) => Some((format!("{}|valid-tree-rejected", what), format!("expected marker sequence {:?}, got: {}", seq, brief))),
                (Err(e), Some(b)) => Some((
                    format!("{}|invalid-tree-accepted{}", what, if b.contains(&SENTINEL) { ":sentinel-read" } else { "" }),
                    format!("the rules reject the tree ({}), but it assembled to {:?}", e, b),
                )),
                (Err(_), None) => None,
            }
        };
        let bytes = match &out {
            AsmOutcome::Ok(ok) => Some(ok.bits.chunks(8).map(|c| c.iter().fold(0u8, |a, b| (a << 1) | *b as u8)).collect::<Vec<u8>>()),
            AsmOutcome::Err(_) => None,
            other => {
                ctx.want_render = true;
                ctx.render(|| tree_json(&tr));
                return Verdict::fail(format!("mock|abnormal {}", other.brief().chars().take(60).collect::<String>()), other.brief());
            }
        };
        if let Some((c, d)) = judge(bytes, "mock", out.brief()) {
            ctx.want_render = true;
            ctx.render(|| tree_json(&tr));
            return Verdict::fail(c, d);
        }
        // real file system
        if t.chance(1, 12) {
            ctx.label("real-fs");
            let top = realbin::scratch("c14");
            let proj = top.join("outer").join("proj");
            std::fs::create_dir_all(&proj).unwrap();
            let files: Vec<(String, Vec<u8>)> = tr.order.iter().map(|n| (n.clone(), file_text(&tr.files[n]).into_bytes())).collect();
            realbin::materialize(&proj, &files);
            std::fs::create_dir_all(proj.join("<std>")).unwrap();
            std::fs::write(proj.join("<std>").join("nope.asm"), format!("#d8 {}\n", SENTINEL)).unwrap();
            std::fs::write(top.join("outer").join("secret.asm"), format!("#d8 {}\n", SENTINEL)).unwrap();
            std::fs::write(top.join("secret.asm"), format!("#d8 {}\n", SENTINEL)).unwrap();
            // v3: the root may be spelled `./name` (the same file; `..` must not be allowed to cancel that dot). A file
            // named like the hostile targets then also exists INSIDE the project: a `../secret.asm` that is resolved
            // to it instead of being rejected shows as an accepted tree
            let dot_slash = crate::engine::gen_version() >= 3 && t.chance(1, 3);
            if dot_slash {
                ctx.label("real-fs:root-spelled-dot-slash");
                // (not when a path of the tree legitimately names `secret.asm` inside the project: the model has no such file)
                if !matches!(&model, Err(e) if e.contains("file not found")) {
                    std::fs::write(proj.join("secret.asm"), format!("#d8 {}\n", SENTINEL)).unwrap();
                }
            }
            let spell = |n: &str| if dot_slash { format!("./{}", n) } else { n.to_string() };
            let mut args: Vec<String> = vec!["-q".into(), spell(&tr.root)];
            if let Some(r2) = &second_root {
                args.push(spell(r2));
            }
            args.extend(["-f".to_string(), "binary".into(), "-o".into(), "out.bin".into()]);
            let r = realbin::run(&realbin::bin_path(false), &proj, &args, &realbin::Limits::default());
            ctx.evals += 1;
            let outb = std::fs::read(proj.join("out.bin")).ok();
            let _ = std::fs::remove_dir_all(&top);
            let res = if r.signal.is_some() || r.timed_out || !matches!(r.code, Some(0) | Some(1)) {
                Some(("real|abnormal-exit".to_string(), r.brief()))
            } else if r.code == Some(0) {
                judge(Some(outb.unwrap_or_default()), "real", r.brief())
            } else {
                judge(None, "real", r.brief())
            };
            if let Some((c, d)) = res {
                ctx.want_render = true;
                ctx.render(|| tree_json(&tr));
                // input predicate of a listed finding: the root is spelled `./name` and the model rejects the tree
                // because a path leaves the project directory (the in-project decoy is no breach of confinement)
                let c = if dot_slash && matches!(&model, Err(e) if e.contains("leaves the project directory")) && c.starts_with("real|invalid-tree-accepted") {
                    "real|root-spelled-dot-slash|path-out-of-project-accepted".to_string()
                } else if dot_slash
                    && (c == "real|wrong-expansion" || c == "real|valid-tree-rejected")
                    && tr.files.values().any(|f| any_include(&f.entries, &|p| p.replace('\\', "/").starts_with('/') || p.contains("..")))
                {
                    // same root cause: names keep the `./`, names reached through `/x` or `..` do not - one file,
                    // two names, so #once and cycle detection see two files
                    "real|root-spelled-dot-slash|same-file-under-two-names".to_string()
                } else {
                    c
                };
                return Verdict::fail(c, d);
            }
        }
        Verdict::Pass
    }
}
