//! Property trait, per-case context, worker loop (proptest-driven tape search + enumerated
//! cases), supervisor (process isolation, merging, evidence, known findings, replay).

use super::tape::Tape;
use super::{fnv, mix};
use proptest::test_runner::{Config, RngSeed, TestCaseError, TestError, TestRunner};
use serde_json::{json, Value};
use std::cell::RefCell;
use std::collections::{BTreeMap, HashSet};
use std::io::Write;
use std::path::{Path, PathBuf};

#[derive(Clone, Copy, PartialEq, Eq, Debug)]
pub enum Tier {
    Quick,
    Thorough,
}

impl Tier {
    pub fn name(self) -> &'static str {
        match self {
            Tier::Quick => "quick",
            Tier::Thorough => "thorough",
        }
    }
    pub fn parse(s: &str) -> Tier {
        if s == "thorough" {
            Tier::Thorough
        } else {
            Tier::Quick
        }
    }
    pub fn pick<T>(self, quick: T, thorough: T) -> T {
        match self {
            Tier::Quick => quick,
            Tier::Thorough => thorough,
        }
    }
}

#[derive(Clone, Debug)]
pub enum Verdict {
    Pass,
    /// `clause` is the stable signature "input-predicate|outcome"; `detail` is for humans
    Fail { clause: String, detail: String },
}

impl Verdict {
    pub fn fail(clause: impl Into<String>, detail: impl Into<String>) -> Verdict {
        Verdict::Fail { clause: clause.into(), detail: detail.into() }
    }
    pub fn is_pass(&self) -> bool {
        matches!(self, Verdict::Pass)
    }
}

pub struct CaseCtx {
    pub tier: Tier,
    /// replay mode: no known-finding tolerance inside the property
    pub strict: bool,
    pub nontrivial: bool,
    pub hash: u64,
    pub labels: Vec<String>,
    pub evals: u64,
    pub want_render: bool,
    pub rendered: Option<Value>,
    /// cases the generator had to steer away from a listed known finding
    pub excluded: Vec<String>,
    /// known-finding clauses observed and tolerated inside a multi-part case
    pub known_hits: Vec<String>,
    pub known: std::sync::Arc<HashSet<String>>,
    /// the index/tape denotes no case at all (not counted)
    pub skipped: bool,
}

impl CaseCtx {
    pub fn new(tier: Tier, strict: bool, known: std::sync::Arc<HashSet<String>>) -> CaseCtx {
        CaseCtx {
            tier,
            strict,
            nontrivial: false,
            hash: 0,
            labels: Vec::new(),
            evals: 0,
            want_render: false,
            rendered: None,
            excluded: Vec::new(),
            known_hits: Vec::new(),
            known,
            skipped: false,
        }
    }
    pub fn label(&mut self, l: impl Into<String>) {
        self.labels.push(l.into());
    }
    pub fn set_hash_str(&mut self, s: &str) {
        self.hash = fnv(s.as_bytes());
    }
    pub fn add_hash(&mut self, s: &str) {
        self.hash = mix(self.hash, fnv(s.as_bytes()));
    }
    /// the rendering is only built when somebody will look at it
    pub fn render(&mut self, f: impl FnOnce() -> Value) {
        if self.want_render {
            self.rendered = Some(f());
        }
    }
    /// true if this clause is a listed known finding (and we are not replaying strictly)
    pub fn is_known(&self, clause: &str) -> bool {
        !self.strict && self.known.contains(clause)
    }
    /// inside multi-part cases: tolerate a known clause, otherwise return the failure
    pub fn judge(&mut self, clause: String, detail: String) -> Option<Verdict> {
        if self.is_known(&clause) {
            self.known_hits.push(clause);
            None
        } else {
            Some(Verdict::Fail { clause, detail })
        }
    }
}

pub trait Property: Sync + Send {
    fn id(&self) -> &'static str;
    fn level(&self) -> &'static str {
        "exploration"
    }
    fn rule(&self) -> String;
    fn assumptions(&self) -> Vec<String> {
        vec![]
    }
    fn tape_len(&self, _tier: Tier) -> usize {
        256
    }
    fn random_cases(&self, tier: Tier) -> u64;
    fn run(&self, tape: &mut Tape, ctx: &mut CaseCtx) -> Verdict;
    fn enumerated(&self, _tier: Tier) -> u64 {
        0
    }
    fn run_enumerated(&self, _index: u64, _ctx: &mut CaseCtx) -> Verdict {
        Verdict::Pass
    }
    fn exhaustive(&self, _tier: Tier) -> bool {
        false
    }
    /// called once in the supervisor before the workers start (e.g. build the real binary)
    fn setup(&self, _tier: Tier) -> Result<(), String> {
        Ok(())
    }
    fn max_shrink_iters(&self) -> u32 {
        4000
    }
    /// whether the death of a worker process (signal, abort) while running a case is a
    /// violation of this property (otherwise it is reported as a broken check, exit 2)
    fn crash_is_violation(&self) -> bool {
        false
    }
    fn workers(&self, _tier: Tier) -> usize {
        crate::ncpu()
    }
    fn extra_coverage(&self, _tier: Tier) -> Value {
        json!({})
    }
    /// libFuzzer iterations per job of the coverage-guided phase (thorough tier only; 0 = none)
    fn fuzz_runs(&self, _tier: Tier) -> u64 {
        0
    }
    /// true: the fuzzer's bytes go to `run_raw` instead of being decoded into a choice tape
    fn fuzz_raw(&self) -> bool {
        false
    }
    fn fuzz_seeds(&self) -> Vec<Vec<u8>> {
        vec![]
    }
    fn run_raw(&self, _data: &[u8], _ctx: &mut CaseCtx) -> Verdict {
        Verdict::Pass
    }
}

// ---------------------------------------------------------------------------------------
// known findings file

#[derive(Clone, Debug)]
pub struct FindingLine {
    pub kind: String, // "known" | "fixed"
    pub property: String,
    pub sig: String,
    pub probe: Option<String>,
    pub text: String,
}

pub fn load_findings() -> Vec<FindingLine> {
    let p = crate::verif_dir().join("known_findings.txt");
    let mut out = Vec::new();
    let Ok(s) = std::fs::read_to_string(p) else { return out };
    for line in s.lines() {
        let line = line.trim();
        let (kind, rest) = if let Some(r) = line.strip_prefix("known:") {
            ("known", r)
        } else if let Some(r) = line.strip_prefix("fixed:") {
            ("fixed", r)
        } else {
            continue;
        };
        // fields: property=.. [commit=..] [probe=..] sig="..." free text
        let mut property = String::new();
        let mut probe = None;
        let mut sig = String::new();
        let mut text = rest.trim().to_string();
        if let Some(i) = rest.find("sig=\"") {
            let after = &rest[i + 5..];
            if let Some(j) = after.find('"') {
                sig = after[..j].to_string();
                text = after[j + 1..].trim().to_string();
            }
        }
        for tok in rest.split_whitespace() {
            if let Some(v) = tok.strip_prefix("property=") {
                property = v.to_string();
            } else if let Some(v) = tok.strip_prefix("probe=") {
                probe = Some(v.to_string());
            }
        }
        out.push(FindingLine { kind: kind.to_string(), property, sig, probe, text });
    }
    out
}

pub fn known_set(id: &str) -> HashSet<String> {
    load_findings()
        .into_iter()
        .filter(|f| f.kind == "known" && f.property == id)
        .map(|f| f.sig)
        .collect()
}

// ---------------------------------------------------------------------------------------
// worker

#[derive(Default)]
struct Stats {
    evaluations: u64,
    cases: u64,
    nontrivial: HashSet<u64>,
    labels: BTreeMap<String, u64>,
    samples: Vec<Value>,
    known_hits: BTreeMap<String, u64>,
    excluded: BTreeMap<String, u64>,
    failure: Option<Value>,
    more_failures: Vec<Value>,
    harness_error: Option<String>,
    frozen: bool,
}

enum CaseId<'a> {
    Tape(&'a [u32]),
    Enum(u64),
}

struct Worker<'p> {
    prop: &'p dyn Property,
    tier: Tier,
    known: std::sync::Arc<HashSet<String>>,
    stats: RefCell<Stats>,
    cur: RefCell<Option<std::fs::File>>,
}

impl<'p> Worker<'p> {
    fn announce(&self, id: &CaseId) {
        use std::os::unix::fs::FileExt;
        if let Some(f) = self.cur.borrow_mut().as_mut() {
            let mut buf: Vec<u8> = Vec::new();
            match id {
                CaseId::Tape(w) => {
                    buf.push(b'T');
                    buf.extend_from_slice(&(w.len() as u32).to_le_bytes());
                    for x in *w {
                        buf.extend_from_slice(&x.to_le_bytes());
                    }
                }
                CaseId::Enum(i) => {
                    buf.push(b'E');
                    buf.extend_from_slice(&8u32.to_le_bytes());
                    buf.extend_from_slice(&i.to_le_bytes());
                }
            }
            let _ = f.write_all_at(&buf, 0);
        }
    }

    /// run one case, update statistics, return the verdict after known-finding tolerance
    fn run_case(&self, id: CaseId, want_render: bool) -> (Verdict, Option<Value>) {
        self.announce(&id);
        let mut ctx = CaseCtx::new(self.tier, false, self.known.clone());
        let frozen = self.stats.borrow().frozen;
        let nsamples = self.stats.borrow().samples.len();
        ctx.want_render = want_render || (!frozen && nsamples < 3);
        let prop = self.prop;
        let res = crate::engine::sut::catch(|| match &id {
            CaseId::Tape(w) => {
                let mut t = Tape::new(w);
                prop.run(&mut t, &mut ctx)
            }
            CaseId::Enum(i) => prop.run_enumerated(*i, &mut ctx),
        });
        let verdict = match res {
            Ok(v) => v,
            Err(p) => {
                let mut st = self.stats.borrow_mut();
                if st.harness_error.is_none() {
                    st.harness_error = Some(format!("harness panic: {}", p));
                }
                // treated as pass for the search; the supervisor will exit 2
                return (Verdict::Pass, None);
            }
        };
        let mut st = self.stats.borrow_mut();
        if !st.frozen && !ctx.skipped {
            st.cases += 1;
            st.evaluations += ctx.evals.max(1);
            if ctx.nontrivial {
                st.nontrivial.insert(ctx.hash);
            }
            for l in &ctx.labels {
                *st.labels.entry(l.clone()).or_insert(0) += 1;
            }
            for l in &ctx.excluded {
                *st.excluded.entry(l.clone()).or_insert(0) += 1;
            }
            for l in &ctx.known_hits {
                *st.known_hits.entry(l.clone()).or_insert(0) += 1;
            }
            if ctx.nontrivial && st.samples.len() < 3 {
                if let Some(r) = &ctx.rendered {
                    st.samples.push(r.clone());
                }
            }
        }
        match verdict {
            Verdict::Fail { clause, detail } => {
                if self.known.contains(&clause) {
                    if !st.frozen {
                        *st.known_hits.entry(clause).or_insert(0) += 1;
                    }
                    (Verdict::Pass, ctx.rendered)
                } else {
                    (Verdict::Fail { clause, detail }, ctx.rendered)
                }
            }
            Verdict::Pass => (Verdict::Pass, ctx.rendered),
        }
    }

    fn record_failure(&self, id: CaseId, clause: &str, detail: &str, rendered: Option<Value>, shrunk: bool) {
        let mut st = self.stats.borrow_mut();
        if st.failure.is_some() {
            return;
        }
        let mut v = json!({
            "property": self.prop.id(),
            "tier": self.tier.name(),
            "clause": clause,
            "detail": detail,
            "shrunk": shrunk,
            "gen_version": super::CURRENT_GEN_VERSION,
            "rendered": rendered,
        });
        match id {
            CaseId::Tape(w) => {
                v["kind"] = json!("tape");
                v["tape"] = json!(w);
            }
            CaseId::Enum(i) => {
                v["kind"] = json!("enum");
                v["index"] = json!(i);
            }
        }
        st.failure = Some(v);
    }
}

pub fn worker_main(prop: &dyn Property, tier: Tier, seed: u64, w: usize, n: usize, out: &Path) {
    crate::engine::sut::install_panic_hook();
    let known = std::sync::Arc::new(known_set(prop.id()));
    let cur = std::fs::File::create(out.with_extension("cur")).ok();
    let worker = Worker { prop, tier, known, stats: RefCell::new(Stats::default()), cur: RefCell::new(cur) };

    // enumerated part
    let total = prop.enumerated(tier);
    let mut idx = w as u64;
    while idx < total {
        let (v, r) = worker.run_case(CaseId::Enum(idx), false);
        if let Verdict::Fail { clause, detail } = v {
            // enumerated cases are independent: keep going so that one shallow failure does not hide the rest
            let mut st = worker.stats.borrow_mut();
            if st.more_failures.len() < 40 {
                st.more_failures.push(json!({
                    "property": prop.id(), "tier": tier.name(), "clause": clause, "detail": detail, "shrunk": false,
                    "gen_version": super::CURRENT_GEN_VERSION, "rendered": r, "kind": "enum", "index": idx,
                }));
            }
        }
        idx += n as u64;
    }

    // random part
    let cases = prop.random_cases(tier);
    let share = cases / n as u64 + if (w as u64) < cases % n as u64 { 1 } else { 0 };
    let batch = 200u64;
    let nb = (share + batch - 1) / batch;
    let len = prop.tape_len(tier);
    let strat = proptest::collection::vec(proptest::num::u32::ANY, 0..=len);
    let mut done = 0u64;
    for b in 0..nb {
        if worker.stats.borrow().failure.is_some() {
            break;
        }
        let this = batch.min(share - done);
        done += this;
        let s = mix(mix(mix(seed, fnv(prop.id().as_bytes())), w as u64), b);
        let mut cfg = Config::default();
        cfg.cases = this as u32;
        cfg.failure_persistence = None;
        cfg.max_shrink_iters = prop.max_shrink_iters();
        cfg.rng_seed = RngSeed::Fixed(s);
        cfg.max_global_rejects = 0;
        cfg.verbose = 0;
        let mut runner = TestRunner::new(cfg);
        let result = runner.run(&strat, |words| {
            let (v, _) = worker.run_case(CaseId::Tape(&words), false);
            match v {
                Verdict::Pass => Ok(()),
                Verdict::Fail { clause, .. } => {
                    worker.stats.borrow_mut().frozen = true;
                    Err(TestCaseError::fail(clause))
                }
            }
        });
        match result {
            Ok(()) => {}
            Err(TestError::Fail(_, minimal)) => {
                // re-run the shrunk case to get its clause, detail and rendering
                let (v, r) = worker.run_case(CaseId::Tape(&minimal), true);
                match v {
                    Verdict::Fail { clause, detail } => {
                        worker.record_failure(CaseId::Tape(&minimal), &clause, &detail, r, true)
                    }
                    Verdict::Pass => {
                        let mut st = worker.stats.borrow_mut();
                        st.harness_error =
                            Some("shrunk case does not reproduce (non-deterministic property?)".to_string());
                    }
                }
            }
            Err(TestError::Abort(r)) => {
                worker.stats.borrow_mut().harness_error = Some(format!("proptest aborted: {}", r));
            }
        }
    }

    let st = worker.stats.borrow();
    let v = json!({
        "cases": st.cases,
        "evaluations": st.evaluations,
        "nontrivial": st.nontrivial.iter().map(|h| format!("{:016x}", h)).collect::<Vec<_>>(),
        "labels": st.labels,
        "samples": st.samples,
        "known_hits": st.known_hits,
        "excluded": st.excluded,
        "failure": st.failure,
        "more_failures": st.more_failures,
        "harness_error": st.harness_error,
    });
    let tmp = out.with_extension("tmp");
    std::fs::write(&tmp, serde_json::to_vec(&v).unwrap()).unwrap();
    std::fs::rename(&tmp, out).unwrap();
}

// ---------------------------------------------------------------------------------------
// replay (one case, strict)

pub fn run_replay_value(prop: &dyn Property, v: &Value, strict: bool) -> Verdict {
    run_replay_value_rendered(prop, v, strict).0
}

pub fn run_replay_value_rendered(prop: &dyn Property, v: &Value, strict: bool) -> (Verdict, Option<Value>) {
    super::set_gen_version(v["gen_version"].as_u64().unwrap_or(1) as u32);
    let tier = Tier::parse(v["tier"].as_str().unwrap_or("quick"));
    let known = std::sync::Arc::new(if strict { HashSet::new() } else { known_set(prop.id()) });
    let mut ctx = CaseCtx::new(tier, strict, known);
    ctx.want_render = true;
    let verdict = match v["kind"].as_str() {
        Some("enum") => prop.run_enumerated(v["index"].as_u64().unwrap_or(0), &mut ctx),
        Some("raw") => {
            let data: Vec<u8> = v["bytes"].as_array().map(|a| a.iter().map(|x| x.as_u64().unwrap_or(0) as u8).collect()).unwrap_or_default();
            prop.run_raw(&data, &mut ctx)
        }
        _ => {
            let words: Vec<u32> = v["tape"]
                .as_array()
                .map(|a| a.iter().map(|x| x.as_u64().unwrap_or(0) as u32).collect())
                .unwrap_or_default();
            let mut t = Tape::new(&words);
            prop.run(&mut t, &mut ctx)
        }
    };
    (verdict, ctx.rendered)
}

/// `casverif replay-raw <file>`: prints one JSON line {"verdict":"pass"|"fail","clause":..,"detail":..}
pub fn replay_raw_main(prop: &dyn Property, file: &Path) -> i32 {
    crate::engine::sut::install_panic_hook();
    let v: Value = match std::fs::read(file).ok().and_then(|b| serde_json::from_slice(&b).ok()) {
        Some(v) => v,
        None => {
            println!("{}", json!({"verdict":"error","detail":"cannot read replay file"}));
            return 2;
        }
    };
    let r = crate::engine::sut::catch(|| run_replay_value(prop, &v, true));
    match r {
        Ok(Verdict::Pass) => println!("{}", json!({"verdict":"pass"})),
        Ok(Verdict::Fail { clause, detail }) => {
            println!("{}", json!({"verdict":"fail","clause":clause,"detail":detail}))
        }
        Err(p) => {
            println!("{}", json!({"verdict":"error","detail":format!("harness panic: {}", p)}));
            return 2;
        }
    }
    0
}

struct ProbeResult {
    verdict: String, // pass | fail | error
    clause: String,
    detail: String,
}

fn run_probe(id: &str, file: &Path) -> ProbeResult {
    let exe = std::env::current_exe().unwrap();
    // a probe that does not end is inconclusive (verdict "timeout" => exit 2), never a violation
    let limit = std::time::Duration::from_secs(
        std::env::var("VERIF_PROBE_TIMEOUT").ok().and_then(|s| s.parse().ok()).unwrap_or(900),
    );
    let out = (|| -> std::io::Result<Option<std::process::Output>> {
        // stdout/stderr go to files so that a talkative case cannot block on a full pipe
        static N: std::sync::atomic::AtomicU64 = std::sync::atomic::AtomicU64::new(0);
        let k = N.fetch_add(1, std::sync::atomic::Ordering::SeqCst);
        let base = std::env::temp_dir().join(format!("casverif-probe.{}.{}", std::process::id(), k));
        let (po, pe) = (base.with_extension("out"), base.with_extension("err"));
        let mut child = std::process::Command::new(exe)
            .arg("replay-raw")
            .arg(id)
            .arg(file)
            .stdout(std::fs::File::create(&po)?)
            .stderr(std::fs::File::create(&pe)?)
            .spawn()?;
        let t0 = std::time::Instant::now();
        let status = loop {
            if let Some(st) = child.try_wait()? {
                break Some(st);
            }
            if t0.elapsed() > limit {
                let _ = child.kill();
                let _ = child.wait();
                break None;
            }
            std::thread::sleep(std::time::Duration::from_millis(5));
        };
        let stdout = std::fs::read(&po).unwrap_or_default();
        let stderr = std::fs::read(&pe).unwrap_or_default();
        let _ = std::fs::remove_file(&po);
        let _ = std::fs::remove_file(&pe);
        Ok(status.map(|status| std::process::Output { status, stdout, stderr }))
    })();
    let out = match out {
        Ok(Some(o)) => Ok(o),
        Ok(None) => {
            return ProbeResult {
                verdict: "timeout".into(),
                clause: String::new(),
                detail: format!("the case did not finish within {} s in a fresh process (inconclusive)", limit.as_secs()),
            }
        }
        Err(e) => Err(e),
    };
    match out {
        Err(e) => ProbeResult { verdict: "error".into(), clause: String::new(), detail: format!("spawn: {}", e) },
        Ok(o) => {
            use std::os::unix::process::ExitStatusExt;
            if let Some(sig) = o.status.signal() {
                return ProbeResult {
                    verdict: "fail".into(),
                    clause: format!("process-death|signal {}", sig),
                    detail: String::from_utf8_lossy(&o.stderr).chars().take(400).collect(),
                };
            }
            let line = String::from_utf8_lossy(&o.stdout);
            let v: Value = line
                .lines()
                .rev()
                .find_map(|l| serde_json::from_str(l).ok())
                .unwrap_or(json!({"verdict":"error","detail":"no verdict line"}));
            ProbeResult {
                verdict: v["verdict"].as_str().unwrap_or("error").to_string(),
                clause: v["clause"].as_str().unwrap_or("").to_string(),
                detail: v["detail"].as_str().unwrap_or("").to_string(),
            }
        }
    }
}

/// Greedy tape minimisation for failures found outside proptest (libFuzzer phase): every candidate is
/// judged in a fresh process, the failing clause must stay the same. Bounded by 160 probes.
fn shrink_found_tape(id: &str, f: &Value, scratch: &Path) -> Option<Vec<u32>> {
    let clause = f["clause"].as_str()?.to_string();
    let mut words: Vec<u32> = f["tape"].as_array()?.iter().map(|x| x.as_u64().unwrap_or(0) as u32).collect();
    let tmp = scratch.join("shrink.json");
    let mut budget = 160;
    let mut still_fails = |w: &[u32], budget: &mut i32| -> bool {
        if *budget <= 0 {
            return false;
        }
        *budget -= 1;
        let mut v = f.clone();
        v["tape"] = json!(w);
        if std::fs::write(&tmp, serde_json::to_vec(&v).unwrap()).is_err() {
            return false;
        }
        let r = run_probe(id, &tmp);
        r.verdict == "fail" && r.clause == clause
    };
    let mut improved = false;
    // truncate
    let mut keep = words.len();
    while keep > 0 {
        let half = keep / 2;
        if still_fails(&words[..half], &mut budget) {
            keep = half;
            improved = true;
        } else {
            break;
        }
    }
    words.truncate(keep);
    // delete chunks, then zero chunks
    for chunk in [32usize, 8, 2] {
        let mut i = 0;
        while i < words.len() && budget > 0 {
            let end = (i + chunk).min(words.len());
            let mut cand = words.clone();
            cand.drain(i..end);
            if still_fails(&cand, &mut budget) {
                words = cand;
                improved = true;
            } else {
                let mut cand = words.clone();
                let mut changed = false;
                for x in &mut cand[i..end] {
                    if *x != 0 {
                        *x = 0;
                        changed = true;
                    }
                }
                if changed && still_fails(&cand, &mut budget) {
                    words = cand;
                    improved = true;
                }
                i = end;
            }
        }
    }
    let _ = std::fs::remove_file(&tmp);
    if improved {
        Some(words)
    } else {
        None
    }
}

// ---------------------------------------------------------------------------------------
// supervisor

fn scratch_dir() -> PathBuf {
    let base = std::env::var("TMPDIR").unwrap_or_else(|_| "/tmp".to_string());
    let d = PathBuf::from(base).join(format!("casverif.{}", std::process::id()));
    std::fs::create_dir_all(&d).unwrap();
    d
}

fn save_found(id: &str, seed: u64, v: &Value) -> PathBuf {
    let dir = crate::verif_dir().join("replays").join("found");
    let _ = std::fs::create_dir_all(&dir);
    let h = fnv(serde_json::to_string(v).unwrap().as_bytes());
    let p = dir.join(format!("{}-{}-{:08x}.json", id, seed, h as u32));
    let _ = std::fs::write(&p, serde_json::to_vec_pretty(v).unwrap());
    p
}

pub fn check_main(prop: &dyn Property, tier: Tier, seed: u64) -> i32 {
    let t0 = std::time::Instant::now();
    let id = prop.id();
    let mut violations: Vec<String> = Vec::new();
    let mut broken: Vec<String> = Vec::new();
    let mut known_lines: Vec<String> = Vec::new();
    let mut notes: Vec<String> = Vec::new();

    if let Err(e) = prop.setup(tier) {
        println!("BROKEN-CHECK property={} setup failed: {}", id, e);
        return 2;
    }

    // 1. probes of known / fixed findings, then every committed replay of this property
    let findings = load_findings();
    let mut probed: HashSet<PathBuf> = HashSet::new();
    let mut replayed = 0u64;
    for f in findings.iter().filter(|f| f.property == id) {
        let Some(probe) = &f.probe else { continue };
        let path = crate::verif_dir().join(probe);
        probed.insert(path.clone());
        if !path.exists() {
            broken.push(format!("probe {} of a listed finding is missing", probe));
            continue;
        }
        let r = run_probe(id, &path);
        replayed += 1;
        match (f.kind.as_str(), r.verdict.as_str()) {
            ("known", "fail") if r.clause == f.sig => {
                known_lines.push(format!("KNOWN-FINDING: property={} {} [{}]", id, f.text, f.sig));
            }
            ("known", "fail") => {
                // the committed input fails, but in another way than listed: a different violation
                violations.push(format!("VIOLATION property={} replay={}", id, path.display()));
                notes.push(format!("probe {} fails with clause `{}` (listed: `{}`): {}", probe, r.clause, f.sig, r.detail));
            }
            ("known", "pass") => {
                notes.push(format!("note: listed finding no longer reproduces (stale entry): {}", f.sig));
            }
            ("fixed", "fail") => {
                violations.push(format!("VIOLATION property={} replay={}", id, path.display()));
                notes.push(format!("regression of a fixed finding: {} ({})", r.clause, r.detail));
            }
            ("fixed", "pass") => {}
            (_, _) => broken.push(format!("probe {}: {}", probe, r.detail)),
        }
    }
    let rdir = crate::verif_dir().join("replays").join(id);
    if let Ok(rd) = std::fs::read_dir(&rdir) {
        let mut files: Vec<PathBuf> = rd.filter_map(|e| e.ok()).map(|e| e.path()).collect();
        files.sort();
        for path in files {
            if probed.contains(&path) || path.extension().map(|e| e != "json").unwrap_or(true) {
                continue;
            }
            let r = run_probe(id, &path);
            replayed += 1;
            match r.verdict.as_str() {
                "pass" => {}
                "fail" => {
                    violations.push(format!("VIOLATION property={} replay={}", id, path.display()));
                    notes.push(format!("committed replay fails: {} ({})", r.clause, r.detail));
                }
                _ => broken.push(format!("replay {}: {}", path.display(), r.detail)),
            }
        }
    }

    // 2. the search, in worker processes
    // development aid: VERIF_FUZZ_ONLY=1 skips the seeded search (never used by registered commands)
    let fuzz_only = std::env::var("VERIF_FUZZ_ONLY").is_ok();
    let n = if fuzz_only { 0 } else { prop.workers(tier).max(1) };
    let dir = scratch_dir();
    let exe = std::env::current_exe().unwrap();
    let mut children = Vec::new();
    let mut child_pids: Vec<u32> = Vec::new();
    for w in 0..n {
        let out = dir.join(format!("w{}.json", w));
        let child = std::process::Command::new(&exe)
            .arg("worker")
            .arg(id)
            .arg(tier.name())
            .arg(seed.to_string())
            .arg(w.to_string())
            .arg(n.to_string())
            .arg(&out)
            .stdout(std::process::Stdio::null())
            .spawn()
            .expect("spawn worker");
        child_pids.push(child.id());
        children.push((w, child, out));
    }
    let deadline = t0 + std::time::Duration::from_secs(tier.pick(45 * 60, 6 * 3600));
    let mut merged_cases = 0u64;
    let mut merged_evals = 0u64;
    let mut nontrivial: HashSet<String> = HashSet::new();
    let mut labels: BTreeMap<String, u64> = BTreeMap::new();
    let mut known_hits: BTreeMap<String, u64> = BTreeMap::new();
    let mut excluded: BTreeMap<String, u64> = BTreeMap::new();
    let mut samples: Vec<Value> = Vec::new();
    for (w, mut child, out) in children {
        let status = loop {
            match child.try_wait() {
                Ok(Some(s)) => break Some(s),
                Ok(None) => {
                    if std::time::Instant::now() > deadline {
                        let _ = child.kill();
                        let _ = child.wait();
                        break None;
                    }
                    std::thread::sleep(std::time::Duration::from_millis(20));
                }
                Err(_) => break None,
            }
        };
        let res: Option<Value> = std::fs::read(&out).ok().and_then(|b| serde_json::from_slice(&b).ok());
        match (status, res) {
            (Some(s), Some(v)) if s.success() => {
                merged_cases += v["cases"].as_u64().unwrap_or(0);
                merged_evals += v["evaluations"].as_u64().unwrap_or(0);
                for h in v["nontrivial"].as_array().unwrap_or(&vec![]) {
                    nontrivial.insert(h.as_str().unwrap_or("").to_string());
                }
                for (k, c) in v["labels"].as_object().unwrap_or(&serde_json::Map::new()) {
                    *labels.entry(k.clone()).or_insert(0) += c.as_u64().unwrap_or(0);
                }
                for (k, c) in v["known_hits"].as_object().unwrap_or(&serde_json::Map::new()) {
                    *known_hits.entry(k.clone()).or_insert(0) += c.as_u64().unwrap_or(0);
                }
                for (k, c) in v["excluded"].as_object().unwrap_or(&serde_json::Map::new()) {
                    *excluded.entry(k.clone()).or_insert(0) += c.as_u64().unwrap_or(0);
                }
                for s in v["samples"].as_array().unwrap_or(&vec![]) {
                    if samples.len() < 6 {
                        samples.push(s.clone());
                    }
                }
                if let Some(e) = v["harness_error"].as_str() {
                    broken.push(format!("worker {}: {}", w, e));
                }
                for f in v["more_failures"].as_array().unwrap_or(&vec![]) {
                    let p = save_found(id, seed, f);
                    violations.push(format!("VIOLATION property={} replay={}", id, p.display()));
                    notes.push(format!("clause: {} -- {}", f["clause"].as_str().unwrap_or(""), f["detail"].as_str().unwrap_or("")));
                }
                if !v["failure"].is_null() {
                    let p = save_found(id, seed, &v["failure"]);
                    violations.push(format!("VIOLATION property={} replay={}", id, p.display()));
                    notes.push(format!(
                        "clause: {} -- {}",
                        v["failure"]["clause"].as_str().unwrap_or(""),
                        v["failure"]["detail"].as_str().unwrap_or("")
                    ));
                }
            }
            (None, _) => broken.push(format!("worker {} hit the watchdog (inconclusive)", w)),
            (Some(s), _) => {
                // the worker process died: recover the announced case
                use std::os::unix::process::ExitStatusExt;
                let how = match s.signal() {
                    Some(sig) => format!("signal {}", sig),
                    None => format!("exit {}", s.code().unwrap_or(-1)),
                };
                let cur = std::fs::read(out.with_extension("cur")).unwrap_or_default();
                let mut rv = json!({"property": id, "tier": tier.name(), "gen_version": super::CURRENT_GEN_VERSION, "clause": format!("process-death|{}", how),
                    "detail": "worker process died while running this case", "shrunk": false});
                if cur.len() >= 5 {
                    let len = u32::from_le_bytes([cur[1], cur[2], cur[3], cur[4]]) as usize;
                    if cur[0] == b'T' && cur.len() >= 5 + 4 * len {
                        let words: Vec<u32> = (0..len)
                            .map(|i| u32::from_le_bytes([cur[5 + 4 * i], cur[6 + 4 * i], cur[7 + 4 * i], cur[8 + 4 * i]]))
                            .collect();
                        rv["kind"] = json!("tape");
                        rv["tape"] = json!(words);
                    } else if cur[0] == b'E' && cur.len() >= 13 {
                        let mut b = [0u8; 8];
                        b.copy_from_slice(&cur[5..13]);
                        rv["kind"] = json!("enum");
                        rv["index"] = json!(u64::from_le_bytes(b));
                    }
                }
                let clause = rv["clause"].as_str().unwrap().to_string();
                if prop.crash_is_violation() && !rv["kind"].is_null() {
                    if known_set(id).contains(&clause) {
                        *known_hits.entry(clause).or_insert(0) += 1;
                        broken.push(format!("worker {} died on a known finding; search incomplete", w));
                    } else {
                        let p = save_found(id, seed, &rv);
                        violations.push(format!("VIOLATION property={} replay={}", id, p.display()));
                        notes.push(format!("worker {} died ({})", w, how));
                    }
                } else {
                    let p = save_found(id, seed, &rv);
                    broken.push(format!("worker {} died ({}); case saved at {}", w, how, p.display()));
                }
            }
        }
    }
    // 2b. coverage-guided phase (thorough tier): libFuzzer drives the same property code
    let mut fuzz_cov: Option<Value> = None;
    if tier == Tier::Thorough
        && prop.fuzz_runs(tier) > 0
        && violations.is_empty()
        && std::env::var("VERIF_FUZZ").map(|v| v != "0").unwrap_or(true)
    {
        let probe = |f: &Path| {
            let r = run_probe(id, f);
            (r.verdict, r.clause, r.detail)
        };
        let r = super::fuzz::phase(prop, seed, &dir, &probe);
        let known = known_set(id);
        for mut f in r.failures {
            let clause = f["clause"].as_str().unwrap_or("").to_string();
            if known.contains(&clause) {
                *known_hits.entry(clause).or_insert(0) += 1;
                continue;
            }
            if f["kind"] == "tape" {
                if let Some(words) = shrink_found_tape(id, &f, &dir) {
                    f["tape"] = json!(words);
                    f["shrunk"] = json!(true);
                    f["rendered"] = Value::Null;
                }
            }
            let p = save_found(id, seed, &f);
            violations.push(format!("VIOLATION property={} replay={}", id, p.display()));
            notes.push(format!("(libFuzzer phase) clause: {} -- {}", clause, f["detail"].as_str().unwrap_or("")));
        }
        notes.extend(r.notes);
        broken.extend(r.broken);
        fuzz_cov = Some(r.coverage);
    }
    let _ = std::fs::remove_dir_all(&dir);
    // scratch directories of workers that died before cleaning up
    if let Ok(rd) = std::fs::read_dir(dir.parent().unwrap_or(Path::new("/tmp"))) {
        for e in rd.filter_map(|e| e.ok()) {
            let name = e.file_name().to_string_lossy().to_string();
            if child_pids.iter().any(|p| name.starts_with(&format!("casverif.{}.", p))) {
                let _ = std::fs::remove_dir_all(e.path());
            }
        }
    }

    // 3. evidence
    let mut coverage = json!({
        "evaluations": merged_evals,
        "cases": merged_cases,
        "distinct_nontrivial": nontrivial.len(),
        "rule": prop.rule(),
        "samples": samples,
        "labels": labels,
        "known_finding_hits_in_search": known_hits,
        "excluded_by_construction": excluded,
        "replays_run": replayed,
        "exhaustive": prop.exhaustive(tier),
        "workers": n,
    });
    if let Some(f) = fuzz_cov {
        coverage["coverage_guided_phase"] = f;
    }
    if let Some(o) = prop.extra_coverage(tier).as_object() {
        for (k, v) in o {
            coverage[k] = v.clone();
        }
    }
    let evidence = json!({
        "property_id": id,
        "tier": tier.name(),
        "seed": seed,
        "level": prop.level(),
        "coverage": coverage,
        "assumptions": prop.assumptions(),
        "wall_s": t0.elapsed().as_secs_f64(),
        "violations": violations.len(),
        "broken": broken,
        "notes": notes,
    });
    let edir = crate::verif_dir().join("evidence");
    let _ = std::fs::create_dir_all(&edir);
    // the development mode without the seeded search writes its record elsewhere (it is not evidence of a registered command)
    let ename = if fuzz_only { format!("{}.fuzzonly.json", id) } else { format!("{}.json", id) };
    let _ = std::fs::write(edir.join(ename), serde_json::to_vec_pretty(&evidence).unwrap());

    // 4. report
    let stdout = std::io::stdout();
    let mut o = stdout.lock();
    for l in &known_lines {
        let _ = writeln!(o, "{}", l);
    }
    for l in &notes {
        let _ = writeln!(o, "# {}", l);
    }
    let _ = writeln!(
        o,
        "# {} tier={} seed={} cases={} evaluations={} distinct_nontrivial={} replays={} wall={:.1}s",
        id,
        tier.name(),
        seed,
        merged_cases,
        merged_evals,
        nontrivial.len(),
        replayed,
        t0.elapsed().as_secs_f64()
    );
    if !violations.is_empty() {
        for v in &violations {
            let _ = writeln!(o, "{}", v);
        }
        return 1;
    }
    if !broken.is_empty() {
        for b in &broken {
            let _ = writeln!(o, "BROKEN-CHECK property={} {}", id, b);
        }
        return 2;
    }
    0
}

/// `casverif replay <ID> <file>`: strict re-run, VIOLATION line and exit 1 if it fails
pub fn replay_main(prop: &dyn Property, file: &Path) -> i32 {
    let r = run_probe(prop.id(), file);
    match r.verdict.as_str() {
        "pass" => {
            println!("# replay passes");
            0
        }
        "fail" => {
            println!("# clause: {} -- {}", r.clause, r.detail);
            println!("VIOLATION property={} replay={}", prop.id(), file.display());
            1
        }
        _ => {
            println!("BROKEN-CHECK property={} {}", prop.id(), r.detail);
            2
        }
    }
}
