//! Coverage-guided driving of the same property code (libFuzzer, thorough tiers only).
//!
//! In-target half: `one(data)` decodes the fuzzer's bytes into a choice tape (or hands them to the
//! property's raw mode), runs the property's oracle on a big-stack worker thread, tolerates listed
//! known findings, writes a replay file and aborts on a violation (libFuzzer then stops the job and
//! keeps the crashing unit).
//! Supervisor half: `phase(...)` builds the target, seeds a fresh corpus, runs the jobs, collects
//! oracle failures and fuzzer artifacts, re-judges every artifact in a fresh process.

use super::runner::{known_set, CaseCtx, Property, Tier, Verdict};
use super::tape::Tape;
use super::{fnv, mix};
use serde_json::{json, Value};
use std::collections::{BTreeMap, HashSet};
use std::path::{Path, PathBuf};
use std::sync::mpsc::{sync_channel, Receiver, SyncSender};
use std::sync::{Arc, Mutex, OnceLock};

pub fn words_of(data: &[u8]) -> Vec<u32> {
    data.chunks(4)
        .map(|c| {
            let mut b = [0u8; 4];
            b[..c.len()].copy_from_slice(c);
            u32::from_le_bytes(b)
        })
        .collect()
}

pub fn bytes_of(words: &[u32]) -> Vec<u8> {
    words.iter().flat_map(|w| w.to_le_bytes()).collect()
}

struct Link {
    tx: SyncSender<Vec<u8>>,
    rx: Receiver<Option<(String, String, Option<Value>)>>,
}

#[derive(Default)]
struct FuzzStats {
    execs: u64,
    cases: u64,
    evaluations: u64,
    nontrivial: HashSet<u64>,
    labels: BTreeMap<String, u64>,
    known_hits: BTreeMap<String, u64>,
    samples: Vec<Value>,
}

static LINK: OnceLock<Mutex<Link>> = OnceLock::new();
static STATS: OnceLock<Mutex<FuzzStats>> = OnceLock::new();

fn out_dir() -> PathBuf {
    std::env::var("CASVERIF_FUZZ_OUT").map(PathBuf::from).unwrap_or_else(|_| crate::verif_dir().join("replays").join("found"))
}

fn dump_stats() {
    if let Some(st) = STATS.get() {
        if let Ok(st) = st.lock() {
            let v = json!({
                "execs": st.execs,
                "cases": st.cases,
                "evaluations": st.evaluations,
                "nontrivial": st.nontrivial.iter().map(|h| format!("{:016x}", h)).collect::<Vec<_>>(),
                "labels": st.labels,
                "known_hits": st.known_hits,
                "samples": st.samples,
            });
            let _ = std::fs::write(out_dir().join(format!("stats.{}.json", std::process::id())), serde_json::to_vec(&v).unwrap());
        }
    }
}

extern "C" fn at_exit() {
    dump_stats();
}

fn start() -> Link {
    let id = std::env::var("CASVERIF_FUZZ_PROP").unwrap_or_else(|_| "C01".to_string());
    let raw = std::env::var("CASVERIF_FUZZ_MODE").map(|m| m == "raw").unwrap_or(false);
    let tier = Tier::Thorough;
    let (tx, wrx) = sync_channel::<Vec<u8>>(0);
    let (wtx, rx) = sync_channel::<Option<(String, String, Option<Value>)>>(0);
    let _ = STATS.set(Mutex::new(FuzzStats::default()));
    let _ = std::fs::create_dir_all(out_dir());
    unsafe {
        libc::atexit(at_exit);
    }
    std::thread::Builder::new()
        .stack_size(512 << 20)
        .spawn(move || {
            let prop = crate::props::by_id(&id).expect("CASVERIF_FUZZ_PROP names no property");
            let _ = prop.setup(tier);
            crate::engine::sut::install_panic_hook();
            let known = Arc::new(known_set(prop.id()));
            while let Ok(data) = wrx.recv() {
                let mut ctx = CaseCtx::new(tier, false, known.clone());
                let want = STATS.get().map(|s| s.lock().unwrap().samples.len() < 3).unwrap_or(false);
                ctx.want_render = want;
                let res = crate::engine::sut::catch(|| {
                    if raw {
                        prop.run_raw(&data, &mut ctx)
                    } else {
                        let words = words_of(&data);
                        let mut t = Tape::new(&words);
                        prop.run(&mut t, &mut ctx)
                    }
                });
                let mut reply = None;
                match res {
                    Err(p) => reply = Some(("harness-panic".to_string(), p, None)),
                    Ok(v) => {
                        let mut st = STATS.get().unwrap().lock().unwrap();
                        st.execs += 1;
                        if !ctx.skipped {
                            st.cases += 1;
                            st.evaluations += ctx.evals.max(1);
                            if ctx.nontrivial {
                                st.nontrivial.insert(ctx.hash);
                                if st.samples.len() < 3 {
                                    if let Some(r) = &ctx.rendered {
                                        st.samples.push(r.clone());
                                    }
                                }
                            }
                            for l in &ctx.labels {
                                *st.labels.entry(l.clone()).or_insert(0) += 1;
                            }
                            for l in &ctx.known_hits {
                                *st.known_hits.entry(l.clone()).or_insert(0) += 1;
                            }
                        }
                        if let Verdict::Fail { clause, detail } = v {
                            if known.contains(&clause) {
                                *st.known_hits.entry(clause).or_insert(0) += 1;
                            } else {
                                drop(st);
                                // render the failing case for the replay file
                                let mut c2 = CaseCtx::new(tier, false, known.clone());
                                c2.want_render = true;
                                let _ = crate::engine::sut::catch(|| {
                                    if raw {
                                        prop.run_raw(&data, &mut c2)
                                    } else {
                                        let words = words_of(&data);
                                        let mut t = Tape::new(&words);
                                        prop.run(&mut t, &mut c2)
                                    }
                                });
                                reply = Some((clause, detail, c2.rendered));
                            }
                        }
                    }
                }
                if wtx.send(reply).is_err() {
                    break;
                }
            }
        })
        .expect("spawn fuzz worker thread");
    Link { tx, rx }
}

pub fn replay_value(id: &str, raw: bool, data: &[u8], clause: &str, detail: &str, rendered: Option<Value>) -> Value {
    let mut v = json!({
        "property": id,
        "tier": "thorough",
        "clause": clause,
        "detail": detail,
        "shrunk": false,
        "found_by": "libFuzzer",
        "gen_version": super::CURRENT_GEN_VERSION,
        "rendered": rendered,
    });
    if raw {
        v["kind"] = json!("raw");
        v["bytes"] = json!(data);
    } else {
        v["kind"] = json!("tape");
        v["tape"] = json!(words_of(data));
    }
    v
}

/// The libFuzzer entry point body.
pub fn one(data: &[u8]) {
    let link = LINK.get_or_init(|| Mutex::new(start()));
    let link = link.lock().unwrap();
    // announce the unit (length-prefixed, rewritten in place): if the process dies without libFuzzer being able
    // to save the unit (stack overflow on the worker thread), the supervisor recovers it from here
    {
        use std::os::unix::fs::FileExt;
        static CUR: OnceLock<Option<std::fs::File>> = OnceLock::new();
        let f = CUR.get_or_init(|| std::fs::File::create(out_dir().join(format!("cur.{}", std::process::id()))).ok());
        if let Some(f) = f {
            let mut buf = Vec::with_capacity(data.len() + 4);
            buf.extend_from_slice(&(data.len() as u32).to_le_bytes());
            buf.extend_from_slice(data);
            let _ = f.write_all_at(&buf, 0);
        }
    }
    if link.tx.send(data.to_vec()).is_err() {
        eprintln!("casverif fuzz worker is gone");
        std::process::abort();
    }
    match link.rx.recv() {
        Ok(None) => {}
        Ok(Some((clause, detail, rendered))) => {
            let id = std::env::var("CASVERIF_FUZZ_PROP").unwrap_or_else(|_| "C01".to_string());
            let raw = std::env::var("CASVERIF_FUZZ_MODE").map(|m| m == "raw").unwrap_or(false);
            let v = replay_value(&id, raw, data, &clause, &detail, rendered);
            let name = format!("oracle-{}-{:016x}.json", id, fnv(data));
            let _ = std::fs::write(out_dir().join(name), serde_json::to_vec_pretty(&v).unwrap());
            eprintln!("casverif oracle failure: {} -- {}", clause, detail);
            dump_stats();
            std::process::abort();
        }
        Err(_) => {
            // the worker thread died (it never unwinds: the oracle catches panics) — let libFuzzer record the unit
            eprintln!("casverif fuzz worker died");
            std::process::abort();
        }
    }
}

// ---------------------------------------------------------------------------------------
// supervisor half

pub struct PhaseResult {
    pub coverage: Value,
    /// replay values of oracle failures and reproduced crashes
    pub failures: Vec<Value>,
    pub notes: Vec<String>,
    pub broken: Vec<String>,
}

fn fuzz_crate_dir() -> PathBuf {
    crate::verif_dir().join("fuzz")
}

fn build_target() -> Result<PathBuf, String> {
    let dir = fuzz_crate_dir();
    let lock = dir.join("Cargo.lock");
    if !lock.exists() {
        return Err("fuzz/Cargo.lock missing".into());
    }
    let out = std::process::Command::new("cargo")
        .args(["+nightly", "fuzz", "build", "-s", "none", "--fuzz-dir"])
        .arg(&dir)
        .arg("fuzz_tape")
        .current_dir(&dir)
        .env("CARGO_NET_OFFLINE", "true")
        .env("RUSTFLAGS", "--cfg hlorenzi_customasm_verif")
        .output()
        .map_err(|e| format!("cannot run cargo fuzz: {}", e))?;
    if !out.status.success() {
        let err = String::from_utf8_lossy(&out.stderr);
        let tail: Vec<&str> = err.lines().rev().take(12).collect();
        return Err(format!("cargo +nightly fuzz build failed: {}", tail.into_iter().rev().collect::<Vec<_>>().join(" / ")));
    }
    let bin = dir.join("target/x86_64-unknown-linux-gnu/release/fuzz_tape");
    if bin.exists() {
        Ok(bin)
    } else {
        Err(format!("{} not produced", bin.display()))
    }
}

fn last_number_after(text: &str, key: &str) -> Option<u64> {
    let i = text.rfind(key)?;
    let rest = &text[i + key.len()..];
    let digits: String = rest.trim_start().chars().take_while(|c| c.is_ascii_digit()).collect();
    digits.parse().ok()
}

/// Runs the coverage-guided phase of a property. `run_probe(file) -> (verdict, clause, detail)` re-judges in a fresh process.
pub fn phase(
    prop: &dyn Property,
    seed: u64,
    scratch: &Path,
    run_probe: &dyn Fn(&Path) -> (String, String, String),
) -> PhaseResult {
    let id = prop.id();
    let tier = Tier::Thorough;
    let raw = prop.fuzz_raw();
    let runs = prop.fuzz_runs(tier);
    let mut res = PhaseResult { coverage: json!(null), failures: vec![], notes: vec![], broken: vec![] };
    let bin = match build_target() {
        Ok(b) => b,
        Err(e) => {
            res.coverage = json!({"engine": "libFuzzer", "ran": false, "reason": e});
            res.notes.push(format!("coverage-guided phase unavailable ({}); the seeded search above stands alone", e));
            return res;
        }
    };
    let dir = scratch.join("fuzz");
    let corpus = dir.join("corpus");
    let arts = dir.join("artifacts");
    let outd = dir.join("out");
    for d in [&corpus, &arts, &outd] {
        let _ = std::fs::create_dir_all(d);
    }
    // seed corpus: deterministic random tapes of full length + tapes of the committed replays; raw mode: property-provided seeds
    let tape_len = prop.tape_len(tier);
    let mut nseeds = 0;
    if raw {
        for (i, s) in prop.fuzz_seeds().into_iter().enumerate() {
            let _ = std::fs::write(corpus.join(format!("seed-{:04}", i)), s);
            nseeds += 1;
        }
    } else {
        for i in 0..48u64 {
            let mut x = mix(seed, 0xF00D + i);
            let len = if i % 3 == 0 { tape_len / 4 } else { tape_len };
            let words: Vec<u32> = (0..len)
                .map(|k| {
                    x = mix(x, k as u64);
                    x as u32
                })
                .collect();
            let _ = std::fs::write(corpus.join(format!("seed-{:04}", i)), bytes_of(&words));
            nseeds += 1;
        }
        if let Ok(rd) = std::fs::read_dir(crate::verif_dir().join("replays").join(id)) {
            let mut files: Vec<PathBuf> = rd.filter_map(|e| e.ok()).map(|e| e.path()).collect();
            files.sort();
            for (i, f) in files.iter().enumerate() {
                if let Some(v) = std::fs::read(f).ok().and_then(|b| serde_json::from_slice::<Value>(&b).ok()) {
                    if v["kind"] == "tape" {
                        let words: Vec<u32> = v["tape"].as_array().map(|a| a.iter().map(|x| x.as_u64().unwrap_or(0) as u32).collect()).unwrap_or_default();
                        let _ = std::fs::write(corpus.join(format!("replay-{:04}", i)), bytes_of(&words));
                        nseeds += 1;
                    }
                }
            }
        }
    }
    let jobs = prop.workers(tier).max(1).min(crate::ncpu());
    let max_len = if raw { 4096 } else { tape_len * 4 };
    let mut children = Vec::new();
    for j in 0..jobs {
        let log = std::fs::File::create(dir.join(format!("job{}.log", j))).unwrap();
        let s = (mix(seed, 0xFA22 + j as u64) % 0x7fff_fffe) + 1;
        let child = std::process::Command::new(&bin)
            .arg(&corpus)
            .arg(format!("-runs={}", runs))
            // a campaign budget, not a verdict: whichever of the two bounds comes first ends the job normally
            .arg(format!("-max_total_time={}", std::env::var("VERIF_FUZZ_SECONDS").ok().and_then(|s| s.parse::<u64>().ok()).unwrap_or(420)))
            .arg(format!("-seed={}", s))
            .arg("-len_control=0")
            .arg(format!("-max_len={}", max_len))
            .arg(format!("-artifact_prefix={}/", arts.display()))
            .arg("-print_final_stats=1")
            .arg("-rss_limit_mb=8192")
            .arg("-timeout=300")
            .arg("-report_slow_units=300")
            .arg("-reload=1")
            .arg("-detect_leaks=0")
            .arg("-verbosity=1")
            .current_dir(&dir)
            .env("CASVERIF_FUZZ_PROP", id)
            .env("CASVERIF_FUZZ_MODE", if raw { "raw" } else { "tape" })
            .env("CASVERIF_FUZZ_OUT", &outd)
            .stdout(std::process::Stdio::null())
            .stderr(log)
            .spawn();
        match child {
            Ok(c) => children.push((j, c)),
            Err(e) => res.broken.push(format!("cannot start fuzz job {}: {}", j, e)),
        }
    }
    let deadline = std::time::Instant::now() + std::time::Duration::from_secs(3 * 3600);
    let mut ended_by_crash = 0;
    let mut dead_pids: Vec<(usize, u32)> = Vec::new();
    for (j, mut c) in children {
        let pid = c.id();
        loop {
            match c.try_wait() {
                Ok(Some(s)) => {
                    if !s.success() {
                        ended_by_crash += 1;
                        dead_pids.push((j, pid));
                        let log = std::fs::read_to_string(dir.join(format!("job{}.log", j))).unwrap_or_default();
                        let tail: Vec<&str> = log.lines().rev().filter(|l| !l.starts_with('#') && !l.starts_with('"')).take(6).collect();
                        res.notes.push(format!("fuzz job {} ended with {:?}: {}", j, s, tail.into_iter().rev().collect::<Vec<_>>().join(" / ").chars().take(600).collect::<String>()));
                    }
                    break;
                }
                Ok(None) => {
                    if std::time::Instant::now() > deadline {
                        let _ = c.kill();
                        let _ = c.wait();
                        res.notes.push(format!("fuzz job {} stopped by the watchdog (inconclusive part)", j));
                        break;
                    }
                    std::thread::sleep(std::time::Duration::from_millis(50));
                }
                Err(_) => break,
            }
        }
    }
    // statistics
    let mut execs = 0u64;
    let mut cases = 0u64;
    let mut evals = 0u64;
    let mut nontrivial: HashSet<String> = HashSet::new();
    let mut labels: BTreeMap<String, u64> = BTreeMap::new();
    let mut known_hits: BTreeMap<String, u64> = BTreeMap::new();
    let mut samples: Vec<Value> = Vec::new();
    let mut oracle_files: Vec<PathBuf> = Vec::new();
    if let Ok(rd) = std::fs::read_dir(&outd) {
        let mut files: Vec<PathBuf> = rd.filter_map(|e| e.ok()).map(|e| e.path()).collect();
        files.sort();
        for f in files {
            let name = f.file_name().unwrap().to_string_lossy().to_string();
            if name.starts_with("stats.") {
                if let Some(v) = std::fs::read(&f).ok().and_then(|b| serde_json::from_slice::<Value>(&b).ok()) {
                    execs += v["execs"].as_u64().unwrap_or(0);
                    cases += v["cases"].as_u64().unwrap_or(0);
                    evals += v["evaluations"].as_u64().unwrap_or(0);
                    for h in v["nontrivial"].as_array().unwrap_or(&vec![]) {
                        nontrivial.insert(h.as_str().unwrap_or("").to_string());
                    }
                    for (k, c) in v["labels"].as_object().unwrap_or(&serde_json::Map::new()) {
                        *labels.entry(k.clone()).or_insert(0) += c.as_u64().unwrap_or(0);
                    }
                    for (k, c) in v["known_hits"].as_object().unwrap_or(&serde_json::Map::new()) {
                        *known_hits.entry(k.clone()).or_insert(0) += c.as_u64().unwrap_or(0);
                    }
                    for s in v["samples"].as_array().unwrap_or(&vec![]) {
                        if samples.len() < 3 {
                            samples.push(s.clone());
                        }
                    }
                }
            } else if name.starts_with("oracle-") {
                oracle_files.push(f);
            }
        }
    }
    let mut seen_inputs: HashSet<u64> = HashSet::new();
    for f in &oracle_files {
        if let Some(v) = std::fs::read(f).ok().and_then(|b| serde_json::from_slice::<Value>(&b).ok()) {
            let data: Vec<u8> = if raw {
                v["bytes"].as_array().map(|a| a.iter().map(|x| x.as_u64().unwrap_or(0) as u8).collect()).unwrap_or_default()
            } else {
                bytes_of(&v["tape"].as_array().map(|a| a.iter().map(|x| x.as_u64().unwrap_or(0) as u32).collect::<Vec<u32>>()).unwrap_or_default())
            };
            seen_inputs.insert(fnv(&data));
            // re-judge in a fresh process (strict): only a reproducible failure is reported
            let (verdict, clause, detail) = run_probe(f);
            if verdict == "fail" {
                let mut v = v.clone();
                v["clause"] = json!(clause);
                v["detail"] = json!(detail);
                res.failures.push(v);
            } else {
                res.notes.push(format!("an oracle failure seen in the fuzz target did not reproduce in a fresh process ({}); not reported", verdict));
            }
        }
    }
    // a job that died without libFuzzer saving the unit: recover the announced unit as an artifact
    for (j, pid) in &dead_pids {
        let has_own_artifact = std::fs::read_to_string(dir.join(format!("job{}.log", j))).map(|l| l.contains("Test unit written to")).unwrap_or(false);
        if has_own_artifact {
            continue;
        }
        if let Ok(cur) = std::fs::read(outd.join(format!("cur.{}", pid))) {
            if cur.len() >= 4 {
                let len = u32::from_le_bytes([cur[0], cur[1], cur[2], cur[3]]) as usize;
                if cur.len() >= 4 + len {
                    let _ = std::fs::write(arts.join(format!("lastunit-job{}", j)), &cur[4..4 + len]);
                }
            }
        }
    }
    let mut artifacts = 0;
    let mut slow_units = 0;
    if let Ok(rd) = std::fs::read_dir(&arts) {
        let mut files: Vec<PathBuf> = rd.filter_map(|e| e.ok()).map(|e| e.path()).collect();
        files.sort();
        for f in files {
            let fname = f.file_name().unwrap().to_string_lossy().to_string();
            if fname.starts_with("slow-unit-") {
                slow_units += 1;
                continue;
            }
            artifacts += 1;
            let data = std::fs::read(&f).unwrap_or_default();
            // tape mode: the words are compared, so pad as words_of does
            let key = if raw { fnv(&data) } else { fnv(&bytes_of(&words_of(&data))) };
            if seen_inputs.contains(&key) || seen_inputs.contains(&fnv(&data)) {
                continue;
            }
            let name = f.file_name().unwrap().to_string_lossy().to_string();
            let v = replay_value(id, raw, &data, "fuzzer-artifact", &name, None);
            let p = outd.join(format!("artifact-{}.json", name));
            let _ = std::fs::write(&p, serde_json::to_vec(&v).unwrap());
            let (verdict, clause, detail) = run_probe(&p);
            match verdict.as_str() {
                "fail" => {
                    let mut v = v.clone();
                    v["clause"] = json!(clause);
                    v["detail"] = json!(detail);
                    res.failures.push(v);
                }
                "pass" => res.notes.push(format!("fuzzer artifact {} passes the oracle in a fresh process (timeout/rss artifact or not reproducible); inconclusive, not reported", name)),
                _ => {
                    // kept for analysis; a case that does not end is inconclusive here (hangs are C19's business)
                    let keep = crate::verif_dir().join("replays").join("found");
                    let _ = std::fs::create_dir_all(&keep);
                    let kp = keep.join(format!("{}-fuzz-{}.json", id, name));
                    let _ = std::fs::write(&kp, serde_json::to_vec_pretty(&v).unwrap());
                    res.broken.push(format!("fuzzer artifact {} ({}): {} -- case kept at {}", name, verdict, detail, kp.display()));
                }
            }
        }
    }
    // coverage figures from the logs
    let mut cov = 0u64;
    let mut ft = 0u64;
    let mut executed_units = 0u64;
    for j in 0..jobs {
        if let Ok(text) = std::fs::read_to_string(dir.join(format!("job{}.log", j))) {
            cov = cov.max(last_number_after(&text, " cov: ").unwrap_or(0));
            ft = ft.max(last_number_after(&text, " ft: ").unwrap_or(0));
            executed_units += last_number_after(&text, "stat::number_of_executed_units:").unwrap_or(0);
        }
    }
    let corpus_final = std::fs::read_dir(&corpus).map(|r| r.count()).unwrap_or(0);
    if execs == 0 && res.failures.is_empty() {
        res.broken.push("the coverage-guided phase executed nothing".to_string());
    }
    res.coverage = json!({
        "engine": if raw { "libFuzzer (cargo-fuzz) on the property's raw mode: bytes = option bytes + source text" } else { "libFuzzer (cargo-fuzz) on the same property code as the seeded search: bytes -> choice tape" },
        "ran": true,
        "mode": if raw { "raw" } else { "tape" },
        "jobs": jobs,
        "runs_per_job": runs,
        "seconds_per_job_at_most": std::env::var("VERIF_FUZZ_SECONDS").ok().and_then(|s| s.parse::<u64>().ok()).unwrap_or(420),
        "seed_corpus": nseeds,
        "executions": execs,
        "executed_units_reported_by_libfuzzer": executed_units,
        "cases": cases,
        "evaluations": evals,
        "distinct_nontrivial": nontrivial.len(),
        "edge_coverage": cov,
        "features": ft,
        "corpus_final": corpus_final,
        "jobs_ended_by_crash": ended_by_crash,
        "artifacts": artifacts,
        "slow_units_not_judged": slow_units,
        "labels": labels,
        "known_finding_hits": known_hits,
        "samples": samples,
    });
    if let Ok(keep) = std::env::var("VERIF_FUZZ_KEEP") {
        let _ = std::process::Command::new("cp").arg("-r").arg(&dir).arg(keep).status();
    }
    let _ = std::fs::remove_dir_all(&dir);
    res
}

