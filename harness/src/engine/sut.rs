//! Adapter around the system under test (the customasm library built from /repo with
//! `--cfg hlorenzi_customasm_verif`): an in-memory file server with fault injection,
//! panic capture, and flattened results.

use customasm::{asm, diagn, util};
use std::cell::RefCell;
use std::collections::{HashMap, HashSet};

// ---------------------------------------------------------------------------------------
// panic capture

thread_local! {
    static LAST_PANIC: RefCell<Option<String>> = RefCell::new(None);
}

pub fn install_panic_hook() {
    std::panic::set_hook(Box::new(|info| {
        let loc = info
            .location()
            .map(|l| {
                let f = l.file();
                // keep the path relative to the repository / crate
                let f = f.rsplit_once("/src/").map(|x| format!("src/{}", x.1)).unwrap_or(f.to_string());
                format!("{}:{}", f, l.line())
            })
            .unwrap_or_else(|| "?".to_string());
        let msg = if let Some(s) = info.payload().downcast_ref::<&str>() {
            s.to_string()
        } else if let Some(s) = info.payload().downcast_ref::<String>() {
            s.clone()
        } else {
            "?".to_string()
        };
        LAST_PANIC.with(|p| *p.borrow_mut() = Some(format!("{} @ {}", msg, loc)));
    }));
}

/// Runs f, turning a panic into Err(description "message @ file:line").
pub fn catch<T>(f: impl FnOnce() -> T) -> Result<T, String> {
    LAST_PANIC.with(|p| *p.borrow_mut() = None);
    match std::panic::catch_unwind(std::panic::AssertUnwindSafe(f)) {
        Ok(v) => Ok(v),
        Err(_) => Err(LAST_PANIC
            .with(|p| p.borrow_mut().take())
            .unwrap_or_else(|| "panic (no info)".to_string())),
    }
}

/// "message @ file:line" -> "file: message-with-digits-normalised" (used in signatures)
pub fn panic_site(p: &str) -> String {
    let (msg, loc) = p.rsplit_once(" @ ").unwrap_or((p, "?"));
    let file = loc.rsplit_once(':').map(|x| x.0).unwrap_or(loc);
    let mut norm = String::new();
    let mut last_digit = false;
    for c in msg.chars() {
        if c.is_ascii_digit() {
            if !last_digit {
                norm.push('N');
            }
            last_digit = true;
        } else {
            last_digit = false;
            norm.push(c);
        }
    }
    let norm: String = norm.chars().take(60).collect();
    format!("{}: {}", file, norm)
}

// ---------------------------------------------------------------------------------------
// in-memory file server with fault injection

pub struct MemFs {
    names: Vec<String>,
    contents: Vec<Vec<u8>>,
    index: HashMap<String, usize>,
    pub unreadable: HashSet<String>,
    pub unwritable: HashSet<String>,
    pub writes: Vec<(String, Vec<u8>)>,
    pub requested: RefCell<Vec<String>>,
}

impl MemFs {
    pub fn new() -> MemFs {
        MemFs {
            names: Vec::new(),
            contents: Vec::new(),
            index: HashMap::new(),
            unreadable: HashSet::new(),
            unwritable: HashSet::new(),
            writes: Vec::new(),
            requested: RefCell::new(Vec::new()),
        }
    }

    pub fn from_files(files: &[(String, Vec<u8>)]) -> MemFs {
        let mut fs = MemFs::new();
        for (n, c) in files {
            fs.add(n, c.clone());
        }
        fs
    }

    pub fn add(&mut self, name: &str, contents: Vec<u8>) {
        if let Some(&i) = self.index.get(name) {
            self.contents[i] = contents;
        } else {
            self.index.insert(name.to_string(), self.names.len());
            self.names.push(name.to_string());
            self.contents.push(contents);
        }
    }

    pub fn has(&self, name: &str) -> bool {
        self.index.contains_key(name)
    }

    pub fn file_len(&self, handle: usize) -> Option<usize> {
        self.contents.get(handle).map(|c| c.len())
    }

    pub fn file_bytes(&self, handle: usize) -> Option<&[u8]> {
        self.contents.get(handle).map(|c| &c[..])
    }

    pub fn file_name(&self, handle: usize) -> Option<&str> {
        self.names.get(handle).map(|c| &c[..])
    }

    /// the library files of /repo/std under the "<std>/" prefix (read from the current tree)
    pub fn add_std(&mut self) {
        for (n, c) in std_files() {
            self.add(n, c.clone());
        }
    }
}

pub fn std_files() -> &'static Vec<(String, Vec<u8>)> {
    static STD: std::sync::OnceLock<Vec<(String, Vec<u8>)>> = std::sync::OnceLock::new();
    STD.get_or_init(|| {
        let mut out = Vec::new();
        fn walk(dir: &std::path::Path, rel: &str, out: &mut Vec<(String, Vec<u8>)>) {
            let mut entries: Vec<_> = match std::fs::read_dir(dir) {
                Ok(e) => e.filter_map(|e| e.ok()).collect(),
                Err(_) => return,
            };
            entries.sort_by_key(|e| e.file_name());
            for e in entries {
                let p = e.path();
                let name = format!("{}{}", rel, e.file_name().to_string_lossy());
                if p.is_file() {
                    if let Ok(c) = std::fs::read(&p) {
                        out.push((name, c));
                    }
                } else {
                    walk(&p, &format!("{}/", name), out);
                }
            }
        }
        walk(&crate::repo_dir().join("std"), "<std>/", &mut out);
        out
    })
}

fn fs_error(report: &mut diagn::Report, span: Option<diagn::Span>, descr: String) {
    if let Some(span) = span {
        report.error_span(descr, span);
    } else {
        report.error(descr);
    }
}

impl util::FileServer for MemFs {
    fn get_handle(
        &mut self,
        report: &mut diagn::Report,
        span: Option<diagn::Span>,
        filename: &str,
    ) -> Result<util::FileServerHandle, ()> {
        self.requested.borrow_mut().push(filename.to_string());
        match self.index.get(filename) {
            Some(h) => Ok(*h),
            None => {
                fs_error(report, span, format!("file not found: `{}`", filename));
                Err(())
            }
        }
    }

    fn get_filename(&self, file_handle: util::FileServerHandle) -> &str {
        &self.names[file_handle]
    }

    fn get_bytes(
        &self,
        report: &mut diagn::Report,
        span: Option<diagn::Span>,
        file_handle: util::FileServerHandle,
    ) -> Result<Vec<u8>, ()> {
        let name = &self.names[file_handle];
        if self.unreadable.contains(name) {
            fs_error(report, span, format!("could not read file `{}`: injected fault", name));
            return Err(());
        }
        Ok(self.contents[file_handle].clone())
    }

    fn write_bytes(
        &mut self,
        report: &mut diagn::Report,
        span: Option<diagn::Span>,
        filename: &str,
        data: &Vec<u8>,
    ) -> Result<(), ()> {
        if self.unwritable.contains(filename) {
            fs_error(report, span, format!("could not create file `{}`: injected fault", filename));
            return Err(());
        }
        self.writes.push((filename.to_string(), data.clone()));
        Ok(())
    }
}

// ---------------------------------------------------------------------------------------
// flattened diagnostics

#[derive(Clone, Debug, PartialEq, Eq)]
pub struct Msg {
    pub kind: char, // 'E' error, 'W' warning, 'N' note
    pub descr: String,
    pub file: Option<String>,
    pub handle: Option<usize>,
    pub loc: Option<(usize, usize)>,
    pub inner: Vec<Msg>,
}

impl Msg {
    pub fn flatten<'a>(&'a self, out: &mut Vec<&'a Msg>) {
        out.push(self);
        for i in &self.inner {
            i.flatten(out);
        }
    }
    /// the innermost (deepest, last) message: where the actual fault is described
    pub fn innermost(&self) -> &Msg {
        match self.inner.last() {
            Some(i) => i.innermost(),
            None => self,
        }
    }
}

fn conv_msg(m: &diagn::Message, fs: &MemFs) -> Msg {
    Msg {
        kind: match m.kind {
            diagn::MessageKind::Error => 'E',
            diagn::MessageKind::Warning => 'W',
            diagn::MessageKind::Note => 'N',
        },
        descr: m.descr.clone(),
        file: m.span.and_then(|s| fs.file_name(s.file_handle).map(|x| x.to_string())),
        handle: m.span.map(|s| s.file_handle),
        loc: m.span.and_then(|s| s.location()),
        inner: m.inner.iter().map(|i| conv_msg(i, fs)).collect(),
    }
}

pub fn messages(report: &diagn::Report, fs: &MemFs) -> Vec<Msg> {
    report.verif_messages().iter().map(|m| conv_msg(m, fs)).collect()
}

pub fn has_error(msgs: &[Msg]) -> bool {
    msgs.iter().any(|m| m.kind == 'E')
}

pub fn printed(report: &diagn::Report, fs: &MemFs) -> Result<String, String> {
    catch(|| {
        let mut out = Vec::new();
        report.print_all(&mut out, fs, false);
        String::from_utf8_lossy(&out).to_string()
    })
}

// ---------------------------------------------------------------------------------------
// assembling

#[derive(Clone, Debug)]
pub struct Opts {
    pub max_iterations: usize,
    pub opt_static: bool,
    pub opt_matcher: bool,
    pub defines: Vec<(String, DefVal)>,
}

#[derive(Clone, Debug, PartialEq)]
pub enum DefVal {
    Bool(bool),
    Int(num_bigint::BigInt),
}

impl Default for Opts {
    fn default() -> Self {
        Opts { max_iterations: 10, opt_static: true, opt_matcher: true, defines: vec![] }
    }
}

impl Opts {
    pub fn to_asm(&self) -> asm::AssemblyOptions {
        let mut o = asm::AssemblyOptions::new();
        o.max_iterations = self.max_iterations;
        o.optimize_statically_known = self.opt_static;
        o.optimize_instruction_matching = self.opt_matcher;
        for (n, v) in &self.defines {
            o.driver_symbol_defs.push(asm::DriverSymbolDef {
                name: n.clone(),
                value: match v {
                    DefVal::Bool(b) => customasm::expr::Value::make_bool(*b),
                    DefVal::Int(i) => customasm::expr::Value::make_integer(util::BigInt::new(i.clone(), None)),
                },
            });
        }
        o
    }
}

#[derive(Clone, Debug, PartialEq, Eq)]
pub struct SpanInfo {
    pub offset: Option<usize>,
    pub size: usize,
    pub addr: num_bigint::BigInt,
    pub file: usize,
    pub loc: Option<(usize, usize)>,
}

#[derive(Clone, Debug, PartialEq, Eq)]
pub struct BankInfo {
    pub unit: usize,
    pub addr: num_bigint::BigInt,
    pub size: Option<usize>,
    pub outp: Option<usize>,
    pub fill: bool,
}

#[derive(Clone, Debug)]
pub struct AsmOk {
    pub bits: Vec<bool>,
    pub spans: Vec<SpanInfo>,
    pub symbols: String,
    pub iterations: usize,
    /// bank definitions as the assembler understood them (index 0 = the default bank)
    pub banks: Vec<BankInfo>,
}

#[derive(Debug)]
pub enum AsmOutcome {
    Ok(AsmOk),
    Err(Vec<Msg>),
    /// error == true or an error-kind message, but an output was produced anyway
    Inconsistent { detail: String, msgs: Vec<Msg>, ok: Option<AsmOk> },
    Panic(String),
}

impl AsmOutcome {
    pub fn ok(&self) -> Option<&AsmOk> {
        match self {
            AsmOutcome::Ok(o) => Some(o),
            _ => None,
        }
    }
    pub fn is_err(&self) -> bool {
        matches!(self, AsmOutcome::Err(_))
    }
    pub fn brief(&self) -> String {
        match self {
            AsmOutcome::Ok(o) => format!("ok {} bits: {}", o.bits.len(), bits_hex(&o.bits)),
            AsmOutcome::Err(m) => format!("error: {}", first_error_text(m)),
            AsmOutcome::Inconsistent { detail, .. } => format!("inconsistent: {}", detail),
            AsmOutcome::Panic(p) => format!("panic: {}", p),
        }
    }
}

pub fn first_error_text(m: &[Msg]) -> String {
    m.iter()
        .find(|m| m.kind == 'E')
        .map(|m| {
            let i = m.innermost();
            if std::ptr::eq(i, m) {
                m.descr.clone()
            } else {
                format!("{} / {}", m.descr, i.descr)
            }
        })
        .unwrap_or_else(|| "(no error message)".to_string())
}

pub fn bigint_of(b: &util::BigInt) -> num_bigint::BigInt {
    // util::BigInt keeps its number private; LowerHex prints sign and magnitude
    let s = format!("{:x}", b);
    let (neg, digits) = match s.strip_prefix('-') {
        Some(d) => (true, d),
        None => (false, &s[..]),
    };
    let v = num_bigint::BigInt::parse_bytes(digits.as_bytes(), 16).unwrap();
    if neg {
        -v
    } else {
        v
    }
}

pub fn bitvec_bits(o: &util::BitVec) -> Vec<bool> {
    (0..o.len()).map(|i| o.read_bit(i)).collect()
}

pub fn bits_hex(bits: &[bool]) -> String {
    let mut s = String::new();
    let mut i = 0;
    while i < bits.len() {
        let mut d = 0;
        for k in 0..4 {
            d <<= 1;
            if i + k < bits.len() && bits[i + k] {
                d |= 1;
            }
        }
        s.push(std::char::from_digit(d, 16).unwrap());
        i += 4;
    }
    if bits.len() % 4 != 0 {
        s.push_str(&format!("/{}", bits.len()));
    }
    if s.len() > 200 {
        s.truncate(200);
        s.push_str("...");
    }
    s
}

pub fn extract_ok(fs: &MemFs, res: &asm::AssemblyResult) -> Option<AsmOk> {
    let out = res.output.as_ref()?;
    let decls = res.decls.as_ref()?;
    let defs = res.defs.as_ref()?;
    let symbols = decls.symbols.format_default(decls, defs);
    let _ = fs;
    Some(AsmOk {
        bits: bitvec_bits(out),
        spans: out
            .spans
            .iter()
            .map(|s| SpanInfo {
                offset: s.offset,
                size: s.size,
                addr: bigint_of(&s.addr),
                file: s.span.file_handle,
                loc: s.span.location(),
            })
            .collect(),
        symbols,
        iterations: res.iterations_taken.unwrap_or(0),
        banks: defs
            .bankdefs
            .defs
            .iter()
            .flatten()
            .map(|b| BankInfo { unit: b.addr_unit, addr: bigint_of(&b.addr_start), size: b.size, outp: b.output_offset, fill: b.fill })
            .collect(),
    })
}

/// Assemble in-process through `asm::assemble`.
pub fn assemble(fs: &mut MemFs, roots: &[&str], opts: &Opts) -> AsmOutcome {
    let o = opts.to_asm();
    let r = catch(|| {
        let mut report = diagn::Report::new();
        let res = asm::assemble(&mut report, &o, fs, roots);
        let msgs = messages(&report, fs);
        let ok = extract_ok(fs, &res);
        (res.error, msgs, ok)
    });
    match r {
        Err(p) => AsmOutcome::Panic(p),
        Ok((error, msgs, ok)) => {
            let any_err = has_error(&msgs);
            match (error, any_err, ok) {
                (false, false, Some(ok)) => AsmOutcome::Ok(ok),
                (true, true, None) => AsmOutcome::Err(msgs),
                (e, a, ok) => AsmOutcome::Inconsistent {
                    detail: format!(
                        "result.error={} error-message={} output={}",
                        e,
                        a,
                        if ok.is_some() { "present" } else { "absent" }
                    ),
                    msgs,
                    ok,
                },
            }
        }
    }
}

pub fn assemble_src(src: &str, opts: &Opts) -> AsmOutcome {
    let mut fs = MemFs::new();
    fs.add("main.asm", src.as_bytes().to_vec());
    assemble(&mut fs, &["main.asm"], opts)
}

/// symbols text ("name = 0xVALUE" lines, children indented/dotted) -> map path -> value
pub fn parse_symbols(text: &str) -> Vec<(String, num_bigint::BigInt)> {
    let mut out = Vec::new();
    for line in text.lines() {
        let line = line.trim();
        if line.is_empty() {
            continue;
        }
        if let Some((name, val)) = line.split_once(" = ") {
            let val = val.trim();
            let (neg, v) = match val.strip_prefix('-') {
                Some(v) => (true, v),
                None => (false, val),
            };
            let v = v.strip_prefix("0x").unwrap_or(v);
            if let Some(n) = num_bigint::BigInt::parse_bytes(v.as_bytes(), 16) {
                out.push((name.trim().to_string(), if neg { -n } else { n }));
            }
        }
    }
    out
}

// ---------------------------------------------------------------------------------------
// the command-line driver, in-process

#[derive(Debug)]
pub struct DriveOutcome {
    pub ok: bool,
    pub msgs: Vec<Msg>,
    pub writes: Vec<(String, Vec<u8>)>,
    pub has_output: bool,
    pub iterations: Option<usize>,
    /// the diagnostics as printed (no colours); Err = printing panicked
    pub printed: Result<String, String>,
}

pub fn drive(fs: &mut MemFs, args: &[String]) -> Result<DriveOutcome, String> {
    let mut full = vec!["customasm".to_string()];
    full.extend(args.iter().cloned());
    catch(|| {
        let mut report = diagn::Report::new();
        let res = customasm::driver::drive(&mut report, &full, fs);
        let msgs = messages(&report, fs);
        DriveOutcome {
            ok: res.is_ok(),
            has_output: res.as_ref().map(|r| r.output.is_some()).unwrap_or(false),
            iterations: res.as_ref().ok().and_then(|r| r.iterations_taken),
            printed: catch(|| {
                let mut out = Vec::new();
                report.print_all(&mut out, fs, false);
                String::from_utf8_lossy(&out).to_string()
            }),
            msgs,
            writes: fs.writes.clone(),
        }
    })
}
