//! The choice tape: every generator is a deterministic function of a `&[u32]`.
//! `draw(n)` maps the next word monotonically onto `0..n`; an exhausted tape yields 0,
//! which every generator treats as "fewest / smallest / plainest".  proptest generates
//! and shrinks the tape (delete chunks, binary-search words toward 0); libFuzzer bytes
//! can be decoded into the same tape.

pub struct Tape<'a> {
    words: &'a [u32],
    pos: usize,
}

impl<'a> Tape<'a> {
    pub fn new(words: &'a [u32]) -> Self {
        Tape { words, pos: 0 }
    }

    pub fn exhausted(&self) -> bool {
        self.pos >= self.words.len()
    }

    pub fn used(&self) -> usize {
        self.pos
    }

    pub fn raw(&mut self) -> u32 {
        let w = self.words.get(self.pos).copied().unwrap_or(0);
        self.pos += 1;
        w
    }

    /// value in 0..n (n >= 1), monotone in the tape word
    pub fn draw(&mut self, n: u32) -> u32 {
        debug_assert!(n >= 1);
        let w = self.raw() as u64;
        ((w * n as u64) >> 32) as u32
    }

    pub fn below(&mut self, n: usize) -> usize {
        self.draw(n.max(1) as u32) as usize
    }

    /// inclusive range
    pub fn range(&mut self, lo: i64, hi: i64) -> i64 {
        debug_assert!(hi >= lo);
        lo + self.draw((hi - lo + 1) as u32) as i64
    }

    pub fn urange(&mut self, lo: usize, hi: usize) -> usize {
        self.range(lo as i64, hi as i64) as usize
    }

    /// true with probability num/den; an exhausted tape gives false
    pub fn chance(&mut self, num: u32, den: u32) -> bool {
        // monotone: larger word -> more likely true
        let v = self.draw(den);
        v >= den - num
    }

    pub fn flip(&mut self) -> bool {
        self.draw(2) == 1
    }

    pub fn pick<'b, T>(&mut self, xs: &'b [T]) -> &'b T {
        &xs[self.below(xs.len())]
    }

    /// weighted choice: returns index; weights[0] is the "simplest"
    pub fn weighted(&mut self, weights: &[u32]) -> usize {
        let total: u32 = weights.iter().sum();
        let mut v = self.draw(total.max(1));
        for (i, w) in weights.iter().enumerate() {
            if v < *w {
                return i;
            }
            v -= *w;
        }
        weights.len() - 1
    }

    /// 64 random bits (two words)
    pub fn bits64(&mut self) -> u64 {
        ((self.raw() as u64) << 32) | self.raw() as u64
    }
}
