//! The real `customasm` binary, built from /repo's working tree into harness/target/sut
//! (never into /repo/target), and helpers to run it in a scratch directory under limits.

use std::io::Read;
use std::path::{Path, PathBuf};
use std::process::{Command, Stdio};

pub fn bin_path(release_plain: bool) -> PathBuf {
    let dir = if release_plain { "sut-release" } else { "sut" };
    crate::verif_dir().join("harness").join("target").join(dir).join("release").join("customasm")
}

/// Build the binary (checked profile: the harness' release profile has overflow checks and debug
/// assertions on; `release_plain` builds with cargo's stock release profile, i.e. what users install).
pub fn build(release_plain: bool) -> Result<PathBuf, String> {
    let target = bin_path(release_plain).parent().unwrap().parent().unwrap().to_path_buf();
    let mut cmd = Command::new("cargo");
    cmd.arg("build").arg("--release").arg("--offline").arg("--bin").arg("customasm").arg("--manifest-path").arg(crate::repo_dir().join("Cargo.toml")).arg("--target-dir").arg(&target);
    cmd.env("CARGO_NET_OFFLINE", "true");
    cmd.current_dir("/");
    if release_plain {
        cmd.env("RUSTFLAGS", "");
    } else {
        cmd.env("RUSTFLAGS", "-C debug-assertions=on -C overflow-checks=on");
    }
    let out = cmd.output().map_err(|e| format!("cargo: {}", e))?;
    if !out.status.success() {
        return Err(format!("building the customasm binary failed: {}", String::from_utf8_lossy(&out.stderr).chars().rev().take(800).collect::<String>().chars().rev().collect::<String>()));
    }
    let p = bin_path(release_plain);
    if !p.exists() {
        return Err(format!("binary not found at {}", p.display()));
    }
    Ok(p)
}

#[derive(Debug, Clone, PartialEq, Eq)]
pub struct ProcResult {
    pub code: Option<i32>,
    pub signal: Option<i32>,
    pub stdout: Vec<u8>,
    pub stderr: Vec<u8>,
    pub timed_out: bool,
}

impl ProcResult {
    pub fn brief(&self) -> String {
        format!(
            "exit={:?} signal={:?}{} stderr={:?}",
            self.code,
            self.signal,
            if self.timed_out { " TIMEOUT" } else { "" },
            String::from_utf8_lossy(&self.stderr).chars().take(300).collect::<String>()
        )
    }
}

pub struct Limits {
    pub cpu_secs: u64,
    pub mem_bytes: u64,
    pub wall_secs: u64,
}

impl Default for Limits {
    fn default() -> Self {
        Limits { cpu_secs: 20, mem_bytes: 4 << 30, wall_secs: 120 }
    }
}

pub fn run(bin: &Path, cwd: &Path, args: &[String], lim: &Limits) -> ProcResult {
    use std::os::unix::process::CommandExt;
    use std::os::unix::process::ExitStatusExt;
    let cpu = lim.cpu_secs;
    let mem = lim.mem_bytes;
    let mut cmd = Command::new(bin);
    cmd.args(args).current_dir(cwd).stdin(Stdio::null()).stdout(Stdio::piped()).stderr(Stdio::piped());
    unsafe {
        cmd.pre_exec(move || {
            let rl = libc::rlimit { rlim_cur: cpu, rlim_max: cpu + 1 };
            libc::setrlimit(libc::RLIMIT_CPU, &rl);
            let rl = libc::rlimit { rlim_cur: mem, rlim_max: mem };
            libc::setrlimit(libc::RLIMIT_AS, &rl);
            let rl = libc::rlimit { rlim_cur: 0, rlim_max: 0 };
            libc::setrlimit(libc::RLIMIT_CORE, &rl);
            Ok(())
        });
    }
    let mut child = match cmd.spawn() {
        Ok(c) => c,
        Err(e) => return ProcResult { code: None, signal: None, stdout: vec![], stderr: format!("spawn failed: {}", e).into_bytes(), timed_out: false },
    };
    let mut so = child.stdout.take().unwrap();
    let mut se = child.stderr.take().unwrap();
    let h1 = std::thread::spawn(move || {
        let mut b = Vec::new();
        let _ = so.read_to_end(&mut b);
        b
    });
    let h2 = std::thread::spawn(move || {
        let mut b = Vec::new();
        let _ = se.read_to_end(&mut b);
        b
    });
    let t0 = std::time::Instant::now();
    let mut timed_out = false;
    let status = loop {
        match child.try_wait() {
            Ok(Some(s)) => break Some(s),
            Ok(None) => {
                if t0.elapsed().as_secs() > lim.wall_secs {
                    let _ = child.kill();
                    timed_out = true;
                    break child.wait().ok();
                }
                std::thread::sleep(std::time::Duration::from_millis(2));
            }
            Err(_) => break None,
        }
    };
    let stdout = h1.join().unwrap_or_default();
    let stderr = h2.join().unwrap_or_default();
    ProcResult { code: status.and_then(|s| s.code()), signal: status.and_then(|s| s.signal()), stdout, stderr, timed_out }
}

/// scratch directory unique to this process and counter; removed by the caller
pub fn scratch(tag: &str) -> PathBuf {
    static N: std::sync::atomic::AtomicUsize = std::sync::atomic::AtomicUsize::new(0);
    let base = std::env::var("TMPDIR").unwrap_or_else(|_| "/tmp".to_string());
    let d = PathBuf::from(base).join(format!("casverif.{}.{}.{}", std::process::id(), tag, N.fetch_add(1, std::sync::atomic::Ordering::SeqCst)));
    let _ = std::fs::remove_dir_all(&d);
    std::fs::create_dir_all(&d).unwrap();
    d
}

pub fn materialize(dir: &Path, files: &[(String, Vec<u8>)]) {
    for (n, c) in files {
        if n.starts_with("<std>") {
            continue;
        }
        let p = dir.join(n);
        if let Some(par) = p.parent() {
            let _ = std::fs::create_dir_all(par);
        }
        let _ = std::fs::write(p, c);
    }
}

/// all regular files below dir (relative names, sorted) with their contents
pub fn snapshot(dir: &Path) -> Vec<(String, Vec<u8>)> {
    fn walk(d: &Path, rel: &str, out: &mut Vec<(String, Vec<u8>)>) {
        let Ok(rd) = std::fs::read_dir(d) else { return };
        let mut es: Vec<_> = rd.filter_map(|e| e.ok()).collect();
        es.sort_by_key(|e| e.file_name());
        for e in es {
            let p = e.path();
            let name = format!("{}{}", rel, e.file_name().to_string_lossy());
            if p.is_dir() {
                walk(&p, &format!("{}/", name), out);
            } else if let Ok(c) = std::fs::read(&p) {
                out.push((name, c));
            }
        }
    }
    let mut out = Vec::new();
    walk(dir, "", &mut out);
    out
}
