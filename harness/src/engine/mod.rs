pub mod fuzz;
pub mod realbin;
pub mod runner;
pub mod sut;
pub mod tape;

pub use runner::{CaseCtx, Property, Tier, Verdict};
pub use tape::Tape;

/// FNV-1a 64 bit, stable across runs and processes (no RandomState anywhere in a property)
pub fn fnv(data: &[u8]) -> u64 {
    let mut h: u64 = 0xcbf29ce484222325;
    for b in data {
        h ^= *b as u64;
        h = h.wrapping_mul(0x100000001b3);
    }
    h
}

pub fn mix(a: u64, b: u64) -> u64 {
    let mut x = a ^ b.wrapping_mul(0x9E3779B97F4A7C15);
    x ^= x >> 30;
    x = x.wrapping_mul(0xBF58476D1CE4E5B9);
    x ^= x >> 27;
    x = x.wrapping_mul(0x94D049BB133111EB);
    x ^= x >> 31;
    x
}

/// Generator version. Generators only ever GROW behind a version test, so that a replay file recorded with an
/// older version keeps denoting the same case: a replay without `gen_version` is version 1.
pub const CURRENT_GEN_VERSION: u32 = 5;
static GEN_VERSION: std::sync::atomic::AtomicU32 = std::sync::atomic::AtomicU32::new(CURRENT_GEN_VERSION);

pub fn gen_version() -> u32 {
    GEN_VERSION.load(std::sync::atomic::Ordering::Relaxed)
}

pub fn set_gen_version(v: u32) {
    GEN_VERSION.store(v, std::sync::atomic::Ordering::Relaxed);
}
