//! casverif library: engine, models, generators and properties (used by the casverif binary and by the fuzz targets).
//!   casverif check <ID> [--tier quick|thorough]      (VERIF_SEED, VERIF_TIER honoured)
//!   casverif replay <ID> <file>
//!   casverif worker ... / replay-raw ...              (internal)

pub mod engine;
pub mod gen;
pub mod model;
pub mod props;

use std::path::PathBuf;

pub fn verif_dir() -> PathBuf {
    PathBuf::from(std::env::var("VERIF_DIR").unwrap_or_else(|_| "/verif".to_string()))
}

pub fn repo_dir() -> PathBuf {
    PathBuf::from(std::env::var("VERIF_REPO").unwrap_or_else(|_| "/repo".to_string()))
}

pub fn ncpu() -> usize {
    std::env::var("VERIF_JOBS")
        .ok()
        .and_then(|s| s.parse().ok())
        .unwrap_or_else(|| std::thread::available_parallelism().map(|n| n.get()).unwrap_or(4))
        .min(32)
}

