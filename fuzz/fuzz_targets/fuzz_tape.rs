#![no_main]
use libfuzzer_sys::fuzz_target;

fuzz_target!(|data: &[u8]| {
    casverif::engine::fuzz::one(data);
});
