#!/bin/bash
# tools/regress_seeds.sh <logfile> <seed dirs...>: runs every named seeded change (seeded/<name>/patch.diff) through
# tools/mutant_iso.sh against the check of its own property and, if that misses, against the other checks its
# meta.json records as having caught it. One line per seed: name, result, clause.
LOG=$1; shift
for d in "$@"; do
  n=$(basename $d); id=${n%%-*}
  out=$(/verif/tools/mutant_iso.sh /verif/seeded/$n/patch.diff $id 2>&1 | tail -1 | cut -c1-260)
  if echo "$out" | grep -q "^MISSED"; then
    others=$(python3 -c "
import json,sys
d=json.load(open('/verif/seeded/$n/meta.json'))
v=d.get('verification',{}).get('checks_run',{})
print(' '.join(k for k,t in v.items() if k!='$id' and 'CAUGHT' in str(t)))" 2>/dev/null)
    for o in $others; do
      out2=$(/verif/tools/mutant_iso.sh /verif/seeded/$n/patch.diff $o 2>&1 | tail -1 | cut -c1-260)
      out="$out || $out2"
    done
  fi
  echo "$n: $out" >> $LOG
done
echo "stream done" >> $LOG
