#!/bin/bash
# tools/verify_seed2.sh <ID> [round]: verify a later-round seeded change delivered in /tmp/s2-<ID> and file it under /verif/seeded/<ID>-2/
ID=$1; R=${2:-2}; NAME=$1-$R
W=/tmp/s$R-$ID
[ -f $W/patch.diff ] || { echo "no patch"; exit 1; }
cd $W || exit 1
echo "== working tree diff equals patch.diff?"
git diff -- src > /tmp/sx-$ID.cur.diff; diff -q /tmp/sx-$ID.cur.diff <(git apply --numstat patch.diff >/dev/null 2>&1; cat patch.diff) >/dev/null && echo identical || { echo "differs (using git diff -- src)"; cp /tmp/sx-$ID.cur.diff patch.diff; }
rm -f /tmp/sx-$ID.cur.diff
echo "== patch applies to /repo HEAD?"
( cd /repo && git apply --check $W/patch.diff && echo yes ) || echo NO
echo "== tests with the change (in the agent's worktree)"
cargo test --workspace --no-fail-fast --offline 2>&1 | grep -E "^test result" | head -1
mkdir -p /verif/seeded/$NAME
for f in patch.diff meta.json demo.asm demo2.asm demo_mesen.asm demo.sh demo_macro.asm demo_inlined.asm demo_a.asm demo_b.asm demo_original.txt demo_changed.txt; do [ -f $W/$f ] && cp $W/$f /verif/seeded/$NAME/; done
[ -d $W/demo ] && rsync -a --exclude "target*" --exclude "customasm_*" $W/demo /verif/seeded/$NAME/; true
ls /verif/seeded/$NAME
