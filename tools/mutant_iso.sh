#!/bin/bash
# tools/mutant_iso.sh <patch-file> <ID> [more IDs...]
# Like tools/mutant.sh, but never touches /repo or /verif: the patch is applied to a scratch git worktree of /repo,
# a scratch copy of the harness is pointed at that worktree, and the checks run with VERIF_DIR / VERIF_REPO set to the
# scratch copies (evidence, found replays and the real-binary builds all land there). Everything is removed at exit.
# Prints CAUGHT/MISSED per check.
P=$(readlink -f "$1"); shift
S=$(mktemp -d /tmp/mutiso.XXXXXX)
W=$S/repo
V=$S/verif
cleanup() {
  # KEEP_FOUND=<dir>: keep the replay files the mutated run found (e.g. to turn one into a committed probe)
  if [ -n "$KEEP_FOUND" ] && [ -d "$V/replays/found" ]; then mkdir -p "$KEEP_FOUND"; cp "$V"/replays/found/*.json "$KEEP_FOUND"/ 2>/dev/null; fi
  git -C /repo worktree remove --force "$W" >/dev/null 2>&1
  git -C /repo worktree prune >/dev/null 2>&1
  rm -rf "$S"
}
trap cleanup EXIT
git -C /repo worktree add -q --detach "$W" HEAD || { echo "cannot create worktree"; exit 2; }
if ! git -C "$W" apply "$P"; then echo "patch does not apply: $P"; exit 2; fi
mkdir -p "$V"
# the harness sources + its dependency build products (so that only customasm and casverif are rebuilt)
rsync -a /verif/harness "$V/" || exit 2
sed -i "s|path = \"/repo\"|path = \"$W\"|" "$V/harness/Cargo.toml"
grep -q "path = \"$W\"" "$V/harness/Cargo.toml" || { echo "could not point the harness at the worktree"; exit 2; }
cp /verif/known_findings.txt /verif/properties.jsonl "$V/"
cp -r /verif/replays "$V/replays"; rm -rf "$V/replays/found"
cp /verif/check "$V/check"
export VERIF_DIR="$V" VERIF_REPO="$W" CARGO_NET_OFFLINE=true
for ID in "$@"; do
  OUT=$(cd "$V" && ./check $ID --tier quick 2>&1)
  RC=$?
  if [ $RC -eq 1 ] && echo "$OUT" | grep -q "^VIOLATION property=$ID"; then
     echo "CAUGHT $ID $(basename $P): $(echo "$OUT" | grep '^# clause' | head -1 | cut -c1-220)"
  elif [ $RC -eq 0 ]; then
     echo "MISSED $ID $(basename $P)"
  else
     echo "RC=$RC $ID $(basename $P): $(echo "$OUT" | tail -3 | cut -c1-300)"
  fi
done
