#!/usr/bin/env python3
"""Regenerates the machine-derived parts of DESIGN.md:
   Appendix A (what every check generates and asserts, from `casverif describe`),
   Appendix B (sensitivity: mutants and seeded changes, from mutants/ and seeded/*/meta.json),
   Appendix C (findings, from known_findings.txt).
Usage: tools/mkdesign.py  (rewrites everything below the marker line in DESIGN.md)"""
import json, subprocess, os, re, glob

V = '/verif'
MARK = '<!-- GENERATED BELOW: tools/mkdesign.py -->'

def describe():
    out = subprocess.run([V + '/harness/target/release/casverif', 'describe'], capture_output=True, text=True, check=True).stdout
    return json.loads(out)

def app_a():
    L = ['## Appendix A. What every check generates and asserts (generated from the harness: `casverif describe`)', '',
         'Counts are cases per run `[quick, thorough]`; "random" cases are proptest-driven choice tapes, "enumerated" cases are index-driven.',
         '`fuzz` is the number of libFuzzer iterations per job of the coverage-guided phase of the thorough tier (16 jobs; `raw` = bytes are source text).', '']
    for p in describe():
        L.append('### %s  (level: %s)' % (p['id'], p['level']))
        L.append('')
        L.append('* random cases %s, enumerated cases %s%s, tape length %d words, workers %d, fuzz %s%s' % (
            p['random_cases'], p['enumerated'], ' (exhaustive %s)' % p['exhaustive'] if any(p['exhaustive']) else '',
            p['tape_len'], p['workers'], p['fuzz_runs_per_job'] or 'none', (' (' + p['fuzz_mode'] + ')') if p['fuzz_runs_per_job'] else ''))
        L.append('* a worker process dying on a case is %s' % ('a VIOLATION (the property forbids crashes)' if p['crash_is_violation'] else 'reported as a broken check (exit 2), not as a violation'))
        L.append('* rule: ' + p['rule'])
        for a in p['assumptions']:
            L.append('* assumption: ' + a)
        L.append('')
    return L

def app_b():
    L = ['## Appendix B. Sensitivity record (generated from `mutants/` and `seeded/*/meta.json`)', '',
         '### B.1 Hand-written mutants (`mutants/*.patch`, run with `tools/mutant.sh <patch> <ID>`; each compiles, passes the 605 repository tests, and is CAUGHT by the quick tier of the check named by its prefix)', '']
    for f in sorted(glob.glob(V + '/mutants/*.patch')):
        L.append('* `%s`' % os.path.basename(f))
    L += ['', '### B.2 Seeded changes written by independent sub-agents from the property text alone (`seeded/<ID>/`)', '',
          '| seed | change (abridged) | needs to manifest (abridged) | checks run against it |', '|---|---|---|---|']
    for d in sorted(glob.glob(V + '/seeded/C*')):
        m = json.load(open(d + '/meta.json'))
        ver = m.get('verification', {})
        runs = ver.get('checks_run', {})
        cell = '; '.join('%s: %s' % (k, v) for k, v in runs.items())
        def ab(x, n):
            x = re.sub(r'\s+', ' ', str(x)).replace('|', '\\|')
            return x if len(x) <= n else x[:n] + ' ...'
        L.append('| %s | %s | %s | %s |' % (os.path.basename(d), ab(m.get('summary', ''), 330), ab(m.get('needs_to_manifest', ''), 260), ab(cell, 520)))
    L.append('')
    return L

def app_c():
    L = ['## Appendix C. Findings file in readable form (generated from `known_findings.txt`)', '']
    known, fixed = [], []
    for line in open(V + '/known_findings.txt'):
        line = line.rstrip('\n')
        m = re.match(r'(known|fixed): property=(\S+) (?:commit=(\S+) )?probe=(\S+) sig="([^"]*)" (.*)', line)
        if not m:
            continue
        (known if m.group(1) == 'known' else fixed).append(m.groups())
    L += ['### C.1 Known findings (genuine defects recorded, not repaired; each prints one `KNOWN-FINDING:` line per run)', '',
          '| property | signature (input predicate \\| outcome) | probe | what fails |', '|---|---|---|---|']
    for k, p, c, probe, sig, text in known:
        L.append('| %s | `%s` | `%s` | %s |' % (p, sig.replace('|', '\\|'), probe, text.replace('|', '\\|')))
    L += ['', '### C.2 Repaired defects (`fix:` commits in /repo; the probe is re-run on every run with no suppression)', '',
          '| property | commit | probe | what failed |', '|---|---|---|---|']
    for k, p, c, probe, sig, text in fixed:
        L.append('| %s | %s | `%s` | %s |' % (p, c, probe, text.replace('|', '\\|')))
    L.append('')
    return L

def main():
    path = V + '/DESIGN.md'
    s = open(path).read()
    if MARK in s:
        s = s[:s.index(MARK)]
    s = s.rstrip('\n') + '\n\n' + MARK + '\n\n' + '\n'.join(app_a() + app_b() + app_c()) + '\n'
    open(path, 'w').write(s)

main()
