#!/usr/bin/env python3
"""Regenerates /verif/MANIFEST.json from the table below (keeps it valid at all times)."""
import json, subprocess, os

V = os.path.dirname(os.path.dirname(os.path.abspath(__file__)))

# id -> (category, technique, level text, level note, design_ref)   ; only BUILT checks are listed here
CHECKS = {
 "C04": ("exploration",
         "exhaustive enumeration of the (type, width, value, literal form) boundary table against the closed-form ranges of the statement, plus proptest sampling of wide types",
         "Complete enumeration of every (uN/sN/iN/#dN, N <= 16, v in [-2^N-4, 2^N+4]) (quick: complete to N = 13, boundary neighbourhoods above) and of #dN with sized literals of every width, in rotating operand forms (at the boundaries: every form, including operators over sized operands and bitwise operators between one sized and one unsized operand), plus values beyond the machine word whose low word lies inside the range, plus sampled widths 17..256 at the boundaries. Within those bounds acceptance, emitted bits and error location are decided for every value; beyond them it is sampling.",
         "`t {x: TYPE} => x` as the observation of the emitted bits; the four N = 0 rejections are listed known findings.",
         "6/C04"),
 "C05": ("exploration",
         "model-based property testing: type-directed expression generator vs. an independent arbitrary-precision reference evaluator, two printings (minimal/full parentheses), shrinking via proptest",
         "Random search over expression trees to depth 6 against a reference evaluator written from the language description; value, size and error/no-error are compared for every expression in both printings; six directed cases cover concatenation with a negative sized left operand (a typed parameter), which the expression generator cannot build. Exploration of an infinite space: finds wrong operators, precedence, sizes and encodings with high probability, proves nothing about unexplored trees.",
         "The precedence table is the pinned one (no other documentation exists); the numeric value of a string is the unsigned number its encoded bytes spell; inverted slice bounds are errors also when inverted by one; ascii() of non-ASCII characters follows tests/string_encoding/ok.asm; trusted: num-bigint +,-,*,divrem, comparison, unsigned bit ops.",
         "6/C05"),
 "C01": ("exploration",
         "model-based property testing: generated instruction sets x generated programs vs. an independent reference assembler (structural matcher + layout + expression model), shrinking via proptest choice tape",
         "Random search over (instruction set, program) pairs (plus two directed families with direct expectations: position through a function, and the word boundary of a mnemonic) against a reference assembler written from the language rules: accept/reject must agree, and on success every output bit, the length and the symbol table must be identical. Finds wrong range predicates, rule selection, bit order, address arithmetic, scoping; exploration only (sampled space, bounded sizes: <= 14+ rules, <= 24 items, widths <= 64).",
         "Generated shapes keep the token reading of a line unique so that the structural matcher coincides with character-level matching; programs the model cannot size before values are discarded (counted); trusted: the reference models (validated by seeded mutants) and num-bigint.",
         "6/C01"),
 "C02": ("exploration",
         "property-based testing with a certificate oracle: the assembler's claimed layout (sizes from output.spans) is re-derived and every instruction re-resolved with the final symbol values by the reference matcher/evaluator",
         "Random search over cascading instruction sets/programs x iteration budgets x both optimisation switches; every success is checked to be a genuine fixed point (independent of which fixed point was found); half of the cases also carry a macro rule `blkq => asm {...}` over the cascading set, certified by enumerating the size assignments of the block's instructions against the hand-inlined program. Directives whose amount depends on the layout itself are certified through the position claimed for the next item. Exploration: budgets and programs are sampled (thorough runs all 15 budgets x 4 switch combinations per program).",
         "Span order = item order (checked); the reference matcher/evaluator as in C01.",
         "6/C02"),
 "C10": ("exploration",
         "metamorphic property testing over repetitions: the same job run on different threads, after random histories of other jobs, and in fresh processes of the real binary must give byte-identical records",
         "Repetition of sampled jobs (generated programs with many sibling symbols/rules, multi-file 'twins' programs whose files share one byte layout, corpus, mutants, command lines with several invalid parameters, #bankdef blocks that answer with several diagnostics at once) under varying hash seeds, threads and histories; the full record (success, printed diagnostics, every written file, and for the binary stdout/stderr/exit status) must be identical. Sampling of seeds and histories: a leak needing one particular seed can be missed.",
         "Rust's per-map, per-thread, per-process HashMap seeding provides the schedule variation; nothing is trusted beyond the code itself.",
         "6/C10"),
 "C11": ("exploration",
         "exhaustive enumeration of output lengths x independent per-format decoders (round trip), plus proptest-generated multi-block programs",
         "Every single-block output length 0..4096 bits (quick: 0..520 and all boundary residues) with random, all-ones and all-zeros content is formatted in 19 format spellings and decoded by an independent decoder per format; multi-block outputs are sampled, and each sampled program is also written through the command-line driver with three output groups in one invocation, every file decoded by its own format and parameters. Within the enumerated lengths the bit-carrying behaviour of each format is decided; contents are sampled.",
         "Decoders written from each format's public definition; written ranges may start at any bit offset (banks with 1/2/4-bit addresses): a format has to widen a range to its own granule; outputs above 4096 bits (e.g. 16-bit Intel HEX address wrap) not explored.",
         "6/C11"),
 "C06": ("exploration",
         "model-based property testing of bank layouts (reference layout engine) + an invariant monitor (no overlap, inside bank window, zero gaps, length) on every successful assembly of the bank, instruction, cascade and corpus generators",
         "Random search over bank configurations x item sequences aimed at every bank boundary against a reference layout model (accept/reject, every item's position/size/address, bits, length, labels), plus invariants checked on every success of the other generators and of the mutated corpus. Exploration of a sampled space (<= 5 banks, <= 14 items in the directed part).",
         "Bank definitions are read back from the assembler's own defs for the invariant monitor (the directed part uses the generated definitions); span order = item order.",
         "6/C06"),
 "C07": ("exploration",
         "metamorphic property testing: one structured program rendered as a base text and six variants (re-casing, extra blanks/tabs, comments, rule permutation/re-partitioning, label renaming, all together) that must assemble identically",
         "Differential run of the real code against itself over generated size-static instruction sets/programs including literal-versus-expression overlaps and rules with literal letters glued behind a parameter; the reference matcher is used only to decide which operands may be re-cased. Exploration.",
         "Blanks are only added, never removed, and never inside a word (documented behaviour / listed finding of C08).",
         "6/C07"),
 "C12": ("exploration",
         "model-based property testing: generated multi-bank / multi-file programs, listings parsed by an independent parser per format and compared with the reference layout, the output bits and the generator's own record of where each item was written in the source",
         "Random search over programs x listing parameters (annotated base 2..128 x group 1..9, tcgame, addrspan, symbols, mesen-mlb); every row's position, address, digits and source text/location and every symbol value are decided against the reference. Exploration of a sampled space.",
         "Expected rows come from the reference assembler (kept equal to the assembler's spans by C01/C06); Mesen offsets asserted for byte-aligned labels of banks of any address unit at file offset >= 0x10.",
         "6/C12"),
 "C13": ("exploration",
         "property-based fuzzing with a validity oracle on every diagnostic (byte range in a known file on character boundaries; printed line:column recomputed independently) + single-fault injection with a location oracle",
         "Part A checks every message of every failing run of the mutated-corpus stream (non-ASCII, CR LF, truncated UTF-8) for location validity and for agreement between the printed line:column and the byte range; part B injects one fault of each kind (including an invalid escape inside a generated string literal with multi-byte characters) at sampled positions of generated valid programs spread over files and demands that the first error lies on the faulty line of the right file. Exploration.",
         "Uses hook H1 (report message list). Malformed-directive, built-in-argument and asm-block faults are not covered by the reference model (their location is asserted directly); the missing-operand family, the ranges of diagnostics inside substituted asm-block text, and an earlier correct line being reported before a fault inside an unresolvable asm block are listed known findings.",
         "6/C13"),
 "C14": ("exploration",
         "model-based property testing of inclusion graphs and path spellings against a reference path/inclusion model on an in-memory file server, a sampled replay on the real file system with a sentinel outside the project, and exhaustive enumeration of inclusion-function ranges",
         "Random search over directory trees, inclusion graphs (chains, diamonds, cycles, #once) and path spellings incl. hostile ones; the expected marker sequence or rejection is decided by the reference model; one case in twelve is also run by the real binary in a scratch project with a sentinel above it. The (function, file length, start, length) table of incbin/incbinstr/inchexstr is enumerated completely for lengths 0..12.",
         "The precedence between #once and cycle detection for a #once file that includes itself is not fixed by the statement and is excluded (counted); empty ranges and start = size are run but not asserted.",
         "6/C14"),
 "C15": ("exploration",
         "model-based property testing of scope trees: every reference is spelled in one of its valid ways from its point of use and resolved by a reference scope model; plus two metamorphic variants (address-free constants moved; runs of non-global items wrapped into selected #if arms); thorough tier adds a libFuzzer phase on the same property code",
         "Random search over label/constant trees to depth 4 with repeated local names, forward and backward references at every dot level, constant chains in any order and single injected faults, compared bit-for-bit and symbol-for-symbol with the reference; moved-constant and if-wrapped variants must assemble identically. Exploration.",
         "Constants open scopes exactly like labels (documented by the repository's tests); only scope-neutral moves are generated.",
         "6/C15"),
 "C16": ("exploration",
         "model-based property testing of conditional-assembly trees x define assignments against a reference least-fixed-point world selector feeding the reference assembler; defines passed both through the library and through the driver's -d options",
         "Random search over #if/#elif/#else trees to depth 4 (conditions over constants declared before, after and inside other arms, hierarchical names) x 0-4 defines; the one live world is computed by the reference and assembled by the reference assembler; accept/reject, bits and symbols must match, and library and command-line ways of passing defines must agree. Exploration.",
         "Arms declare only global symbols or only children of the global label preceding the chain (the re-parenting of later nested declarations is a listed known finding with a directed probe); defines name constants, labels (an error) or nothing; a #once file included from inside an arm may be refused with a diagnostic naming #once.",
         "6/C16"),
 "C17": ("exploration",
         "metamorphic property testing: generated macro rules (asm blocks) vs. the generator's own hand-inlined program, generated functions vs. textual substitution and the reference evaluator, and recursion probes at depths around and far beyond the limit",
         "Random search over macro rules (textual {param} substitution with expression arguments, block-local labels, forward global labels, sub-rule operands, nesting to 3) and over #fn definitions; the macro program must assemble to the bits of the inlined program whenever the latter assembles; calls must equal substituted bodies and the reference value; recursion at depth <= 10 must succeed and at depth >= 100 must be an error (a dying worker is a violation). Exploration.",
         "Base instruction sets for the macro part are size-static and carry no assert constraints, except a directed family of rules of different widths for one text (an assert on a forward label inside a block, a block label handed to a nested macro, labelalign inside blocks and a rule-body local handed through two asm-block levels are listed known findings matched by input predicates or directed probes); nothing is asserted when the hand-inlined program is itself rejected.",
         "6/C17"),
 "C19": ("fault_enumeration",
         "directed magnitude families run through the real binary in its own process under CPU / address-space / stack limits, with an outcome oracle (exit 0, or exit 1 with an error diagnostic; any signal, panic exit, CPU-limit or allocation abort is a violation)",
         "Complete enumeration of 73 directed families (33 nesting/length/recursion-cycle, 40 numeric) x their magnitude lists (nesting 1..10^5, numeric 2^k-1/2^k/2^k+1 for k up to 65, plus 8*10^8, 6.4*10^9, -1, 0, 4*10^8, 8*10^8-1) against the real binary built with overflow checks (thorough: also the stock release build). Decides crash / hang / abort versus diagnosis for every listed (family, magnitude); nothing is claimed beyond the listed families.",
         "RLIMIT_CPU 10 s (30 s thorough), RLIMIT_AS 4 GiB, default 8 MiB stack; for the two listed magnitudes inside the supported range (4*10^8, 8*10^8-1) only the time budget is waived (proportional work is not a hang); the CPU limit, the hard kill behind it, a failed allocation and the wall clock count as one kind of death (which one a runaway process meets first depends on the load); stack overflows of very long operator chains, #if nesting, #elif chains, chains of distinct sub-rules and data directives nested through asm blocks, and the runaway growth of a recursive asm-block argument, are listed known findings.",
         "6/C19"),
 "C18": ("exploration",
         "model-based property testing of command lines: the option grammar and format table are parsed from src/usage_help.md at run time; the driver's accept/reject decision, written files and their contents are compared with the model; a sample goes through the real binary",
         "Random search over command lines (1-4 groups, every documented format and parameter, invalid near-misses, option spellings, global options anywhere, awkward input names) on four small programs. Decides accept/reject-before-assembling, the list of files, per-group content (defaults and aliases as documented), -p, -q, -t plumbing, -h/-v. Exploration.",
         "Per-format content is taken from driver::format_output for the format the usage text documents (the formatters themselves are C11/C12's business); the valid value sets for annotated base and intelhex addr_unit, which the usage text does not list, are the ones the repository's tests document.",
         "6/C18"),
 "C08": ("exploration",
         "metamorphic/differential property testing: the same job under the four optimisation-switch combinations x five iteration budgets must agree on success, bits and symbols",
         "Differential run of the real code against itself over generated (size-static and cascading) programs, feature-mix programs, the whole test corpus and token-mutated corpus programs, some with command-line defines. No model is trusted; exploration of a sampled program space.",
         "AssemblyOptions fields stand for the command-line flags; two listed known findings (budget-starved unoptimised resolver; blank inside the leading literal run of a rule) are matched by narrow input+outcome signatures.",
         "6/C08"),
 "C09": ("exploration",
         "metamorphic property testing over iteration budgets: the set of succeeding budgets must be upward closed with identical outputs and passes <= budget",
         "Differential run of the real code against itself under budgets {1,2,3,4,5,10,11,30} over cascading/static generated programs, corpus programs (asm blocks, #assert) and their mutants; exploration.",
         "None beyond the code itself.",
         "6/C09"),
 "C03": ("fault_enumeration",
         "property-based fuzzing (proptest choice tape, token-level mutation of the test corpus) + exhaustive single I/O fault enumeration per case, outcome predicate on driver::drive",
         "Search over mutated corpus programs x generated command lines with an outcome predicate (no panic; Ok <=> no error diagnostic; Err => error diagnostic and nothing written), and for a quarter of the cases every single permanent read/write fault is enumerated. Exploration, not proof: it samples the input space, but each sampled case gets all of its faults.",
         "In-process driver with an in-memory file server stands for the process (main.rs maps Err to exit status 1); stdout progress text not inspected; customasm built with overflow checks and debug assertions on so wraps surface as panics.",
         "6/C03"),
}

FUZZED = {"C01","C02","C05","C06","C07","C08","C09","C12","C13","C14","C15","C16","C17","C18"}
FUZZ_NOTE = "; thorough tier: followed by a coverage-guided libFuzzer phase (cargo-fuzz) driving the same generator and oracle through the choice tape"
FUZZ_NOTE_RAW = "; thorough tier: followed by a coverage-guided libFuzzer phase (cargo-fuzz) on raw source text + option bytes with the same outcome predicate and fault enumeration"
NOT_BUILT_REASON = "claimed by the design (DESIGN.md section 6) but its check is not built yet in this commit; nothing is asserted about it"

def main():
    props = [json.loads(l) for l in open(os.path.join(V, "properties.jsonl"))]
    hooks = subprocess.run(["git", "-C", "/repo", "log", "--format=%H %s"], capture_output=True, text=True).stdout.splitlines()
    hook_commits = [l.split()[0] for l in hooks if "verif hook" in l]
    checks = []
    na = []
    for p in props:
        i = p["id"]
        if i in CHECKS:
            cat, tech, text, note, ref = CHECKS[i]
            checks.append({
                "property_id": i,
                "quick_cmd": f"./check {i} --tier quick",
                "thorough_cmd": f"./check {i} --tier thorough",
                "evidence_file": f"/verif/evidence/{i}.json",
                "replay_cmd_template": f"./check --replay {i} {{path}}",
                "engine": "casverif",
                "level_claimed": {"category": cat, "text": text, "design_ref": ref},
                "level_note": note,
                "technique": tech + (FUZZ_NOTE_RAW if i == "C03" else FUZZ_NOTE if i in FUZZED else ""),
            })
        else:
            na.append({"property_id": i, "reason": NOT_BUILT_REASON})
    m = {
        "version": 1,
        "setup_cmd": "cd /verif/harness && CARGO_NET_OFFLINE=true cargo build --release --offline && ./target/release/casverif build-sut",
        "hooks": {
            "guard": "--cfg hlorenzi_customasm_verif",
            "enable": "RUSTFLAGS=--cfg hlorenzi_customasm_verif via /verif/harness/.cargo/config.toml; the harness links /repo as a path dependency, so every check recompiles customasm from the working tree",
            "baseline_off_cmd": "cd /repo && cargo test --workspace --no-fail-fast --offline",
            "source_commits": hook_commits,
            "add_only": True,
        },
        "engines": [{
            "name": "casverif",
            "path": "/verif/harness",
            "serves_properties": sorted(CHECKS.keys()),
            "kind_free_text": "Rust harness: proptest-driven choice-tape generators with shrinking, reference models as oracles, process-isolated workers, replay files, known-findings protocol; thorough tiers add a libFuzzer phase (/verif/fuzz, cargo +nightly fuzz) over the same property code",
        }],
        "checks": checks,
        "not_applicable": na,
        "notes": "Exit codes of every check: 0 held (possibly with KNOWN-FINDING lines), 1 VIOLATION, 2 the check itself is broken/inconclusive (never used to report the code under test). VERIF_SEED selects the PRNG stream; tiers are fixed-work.",
    }
    json.dump(m, open(os.path.join(V, "MANIFEST.json"), "w"), indent=1)
    print("MANIFEST.json:", len(checks), "checks,", len(na), "not claimed")

main()
