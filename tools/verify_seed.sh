#!/bin/bash
# tools/verify_seed.sh <ID> [dir-suffix]: verify a seeded change delivered in /tmp/seed_<ID>/SEED and file it under /verif/seeded/<name>/
ID=$1; NAME=${2:-$1}
W=/tmp/seed_$ID
[ -f $W/SEED/patch.diff ] || { echo "no patch"; exit 1; }
cd $W || exit 1
echo "== patch applies to a clean HEAD?"
( cd /repo && git apply --check $W/SEED/patch.diff && echo yes ) || echo NO
echo "== tests with the change (in the agent's worktree)"
git -C $W status --short | grep -v SEED | head -5
cargo test --offline 2>&1 | grep -E "^test result" | head -1
mkdir -p /verif/seeded/$NAME
cp -r $W/SEED/* /verif/seeded/$NAME/ 2>/dev/null
rm -f /verif/seeded/$NAME/customasm.orig
ls /verif/seeded/$NAME
