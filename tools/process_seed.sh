#!/bin/bash
# tools/process_seed.sh <ID> <round> [extra check IDs...]: verify a delivered seed (patch applies, suite passes in the
# agent's worktree), file it under seeded/<ID>-<round>/, and run the named checks (default: its own) against it in isolation.
ID=$1; R=$2; shift 2
V=$(/verif/tools/verify_seedN.sh $ID $R 2>&1 | grep -E "identical|differs|yes|NO|test result" | paste - - - | cut -c1-110)
echo "## $ID-$R verify: $V"
CHECKS="$ID $@"
/verif/tools/mutant_iso.sh /verif/seeded/$ID-$R/patch.diff $CHECKS 2>&1 | grep -E "CAUGHT|MISSED|RC=" | cut -c1-240
