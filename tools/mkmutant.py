#!/usr/bin/env python3
"""mkmutant.py <name> <path-in-repo> <old> <new> [<path2> <old2> <new2> ...]: writes mutants/<name>.patch (repo left clean).
old/new are python string literals with \\n \\t escapes interpreted."""
import sys, subprocess
name = sys.argv[1]
args = sys.argv[2:]
assert len(args) % 3 == 0
assert subprocess.run(['git','-C','/repo','diff','--quiet']).returncode == 0, "repo dirty"
try:
    for i in range(0, len(args), 3):
        path, old, new = args[i], args[i+1].encode().decode('unicode_escape'), args[i+2].encode().decode('unicode_escape')
        s = open('/repo/' + path).read()
        assert s.count(old) == 1, (name, path, 'occurrences', s.count(old))
        open('/repo/' + path, 'w').write(s.replace(old, new))
    d = subprocess.run(['git','-C','/repo','diff'], capture_output=True, text=True).stdout
    open('/verif/mutants/' + name + '.patch', 'w').write(d)
    print('wrote', name)
finally:
    subprocess.run(['git','-C','/repo','checkout','--','.'])
