#!/bin/bash
# tools/mutant.sh <patch-file> <ID> [more IDs...]: apply a patch to /repo, run the quick checks, revert.
# Prints CAUGHT/MISSED per check. Never leaves /repo modified.
P=$(readlink -f "$1"); shift
cd /repo || exit 2
if ! git diff --quiet; then echo "repo dirty"; exit 2; fi
if ! git apply "$P"; then echo "patch does not apply: $P"; exit 2; fi
trap 'git -C /repo checkout -- . ' EXIT
for ID in "$@"; do
  # the evidence file must keep describing the unchanged tree: save and restore it around the mutated run
  cp /verif/evidence/$ID.json /verif/evidence/$ID.json.tmp 2>/dev/null
  OUT=$(cd /verif && ./check $ID --tier quick 2>&1)
  RC=$?
  mv /verif/evidence/$ID.json.tmp /verif/evidence/$ID.json 2>/dev/null
  if [ $RC -eq 1 ] && echo "$OUT" | grep -q "^VIOLATION property=$ID"; then
     echo "CAUGHT $ID $(basename $P): $(echo "$OUT" | grep '^# clause' | head -1 | cut -c1-220)"
  elif [ $RC -eq 0 ]; then
     echo "MISSED $ID $(basename $P)"
  else
     echo "RC=$RC $ID $(basename $P): $(echo "$OUT" | tail -3 | cut -c1-300)"
  fi
done
