#!/opt/veriftools/pyvenv/bin/python
import json, jsonschema, sys, glob, os
V = os.path.dirname(os.path.dirname(os.path.abspath(__file__)))
jsonschema.validate(json.load(open(V + '/MANIFEST.json')), json.load(open('/root/.vp/MANIFEST.schema.json')))
es = json.load(open('/root/.vp/EVIDENCE.schema.json'))
for f in sorted(glob.glob(V + '/evidence/C??.json')):
    jsonschema.validate(json.load(open(f)), es)
    e = json.load(open(f))
    print(os.path.basename(f), e['tier'], 'evals', e['coverage'].get('evaluations'), 'nontrivial', e['coverage'].get('distinct_nontrivial'), 'viol', e.get('violations'), 'wall', round(e['wall_s'], 1))
print('all valid')
